/- Hand-written executable model (tie B): Krige — assembly of the kriging system, right-hand sides,
   chunk loop, variance clipping (krige/base.py).  The summation kernel itself is NOT modelled by hand:
   it is the generated translation of krigesum.pyx (tie A).  Core Lean only. -/
import GSV.Proto
import GSV.Gen.Krigesum
import GSV.Model.Norm
open Lean GSV GSV.Proto GSV.Transc
namespace GSV.Model.Krige

variable {α : Type} [Arith α] [Transc α] [DecidableLT α] [DecidableLE α]

/-- layout of a kriging system -/
structure Layout where
  n : Nat            -- conditioning points
  unb : Bool         -- unbiasedness row/column
  nf : Nat           -- functional drifts
  ne : Nat           -- external drifts
deriving Repr

def Layout.u (L : Layout) : Nat := if L.unb then 1 else 0
def Layout.size (L : Layout) : Nat := L.n + L.u + L.nf + L.ne
def Layout.fStart (L : Layout) : Nat := L.size - (L.nf + L.ne)      -- `-drift_no + i`
def Layout.eStart (L : Layout) : Nat := L.size - L.ne               -- `ext_size`

/-- the border entry in row `r ≥ n` (equivalently column) for conditioning point `c < n` -/
def border (L : Layout) (F E : Nat → Nat → α) (r c : Nat) : α :=
  if L.unb ∧ r = L.n then ((1:Nat):α)
  else if L.fStart ≤ r ∧ r < L.eStart then F (r - L.fStart) c
  else if L.eStart ≤ r ∧ r < L.size then E (r - L.eStart) c
  else ((0:Nat):α)

/-- `_get_krige_mat` before inversion: covariance block with the measurement error on the diagonal,
    unbiasedness / drift borders (symmetric), zero corner -/
def assembleK (L : Layout) (C : Nat → Nat → α) (err : Nat → α) (F E : Nat → Nat → α) : Nat → Nat → α :=
  fun i j =>
    if i < L.n ∧ j < L.n then (if i = j then C i j + err i else C i j)
    else if L.n ≤ i ∧ L.n ≤ j then ((0:Nat):α)
    else if L.n ≤ i then border L F E i j
    else border L F E j i

/-- `_get_krige_vecs`: column `p` of the right-hand side for a target point.
    `c i p` = covariance (or nugget-aware covariance) between conditioning point `i` and target `p`,
    `f`, `e` = functional / external drift values at the targets -/
def assembleRHS (L : Layout) (onlyMean : Bool) (c : Nat → Nat → α) (f e : Nat → Nat → α) : Nat → Nat → α :=
  fun i p =>
    if i < L.n then (if onlyMean then ((0:Nat):α) else c i p)
    else if L.unb ∧ i = L.n then ((1:Nat):α)
    else if L.fStart ≤ i ∧ i < L.eStart then f (i - L.fStart) p
    else if L.eStart ≤ i ∧ i < L.size then e (i - L.eStart) p
    else ((0:Nat):α)

/-! ### the covariance entries from lags: plain covariance in the matrix, nugget-aware covariance on exact right-hand sides

`_get_krige_mat` fills the conditioning block with `model.covariance(lags)` — the PLAIN covariance at every lag,
also at lag 0 between two different conditioning points at one location (repeated measurements) — and adds the
measurement error (`cond_err`: the model nugget by default, a scalar, or one value per point) to the DIAGONAL only.
`_get_krige_vecs` uses `model.cov_nugget` in exact mode: the sill at every lag inside numpy's `isclose` band of 0. -/

/-- `np.isclose(r, 0)` with the numpy defaults: `|r| ≤ 1e-8` (absolute; lags are distances of isometrised positions) -/
def lagZero (r : α) : Bool := decide (fabs r ≤ (1e-8 : α))

/-- `CovModel.cov_nugget` on a lag whose plain covariance is `cv`: the sill inside the band, `cv` outside -/
def covNugget (sill r cv : α) : α := if lagZero r then sill else cv

/-- the covariance entry of a right-hand side: `cf = cov_nugget if exact else covariance`.
    `d i p` = lag between conditioning point `i` and target `p`, `cv i p` = the model's plain covariance at that lag -/
def rhsCov (exact : Bool) (sill : α) (d cv : Nat → Nat → α) : Nat → Nat → α :=
  fun i p => if exact then covNugget sill (d i p) (cv i p) else cv i p

/-- the `cond_err` setting of a `Krige` object -/
inductive ErrSpec (α : Type) where
  | nugget                       -- `cond_err="nugget"` (default): the model's nugget at the time the matrix is built
  | scalar (e : α)               -- one measurement error for all points
  | perPoint (e : Nat → α)       -- one measurement error per conditioning point

/-- the property `cond_err` broadcast over the diagonal (`res[np.diag_indices(n)] += self.cond_err`) -/
def condErr (nugget : α) : ErrSpec α → Nat → α
  | .nugget => fun _ => nugget
  | .scalar e => fun _ => e
  | .perPoint e => e

/-- `_get_krige_mat` before inversion, from the configuration: plain covariances `cv i j` of the lags between the
    conditioning points, the error setting and the model nugget -/
def assembleKCfg (L : Layout) (cv : Nat → Nat → α) (nugget : α) (es : ErrSpec α) (F E : Nat → Nat → α) : Nat → Nat → α :=
  assembleK L cv (condErr nugget es) F E

/-- `_get_krige_vecs` from lags: exact flag, sill, lags and plain covariances to the targets -/
def assembleRHSLag (L : Layout) (onlyMean exact : Bool) (sill : α) (d cv : Nat → Nat → α) (f e : Nat → Nat → α) :
    Nat → Nat → α :=
  assembleRHS L onlyMean (rhsCov exact sill d cv) f e

/-- `_krige_cond`: (normalised, detrended) data minus mean, zero padded -/
def krigeCond (L : Layout) (valn mean : Nat → α) : Nat → α :=
  fun i => if i < L.n then valn i - mean i else ((0:Nat):α)

/-- `_krige_cond` from its raw ingredients: detrend the data, normalise, remove the mean, zero-pad
    (`val = normalizer.normalize(cond_val - cond_trend); val -= cond_mean; np.pad(val, …)`).
    `norm` is the normaliser's map (C18); the ORDER of the three steps is what this definition fixes. -/
def prepCond (L : Layout) (norm : α → α) (val trend mean : Nat → α) : Nat → α :=
  krigeCond L (fun i => norm (val i - trend i)) mean

/-- `Field.post_field(process=True)` = `apply_mean_norm_trend` on one cell of the raw kriging field:
    `field += mean; field = denormalize(field); field += trend` -/
def postCell (denorm : α → α) (mean trend raw : α) : α := denorm (raw + mean) + trend

/-- `np.maximum(sill - krige_var, 0)` -/
def clipVar (sill q : α) : α := if sill - q < ((0:Nat):α) then ((0:Nat):α) else sill - q

/-- chunk containing target `p` for `chunk_size = cs` (`cs ≥ 1`): start index -/
def chunkLo (cs p : Nat) : Nat := (p / cs) * cs
def chunkHi (cs pnt p : Nat) : Nat := min pnt ((p / cs + 1) * cs)

/-- the chunk loop of `Krige.__call__` (with variance): for each target `p`, the kernel is run on the
    chunk that contains `p`, whose right-hand side is the slice `[lo, hi)` of the full one -/
def krigeCall (sched : Sched) (L : Layout) (M : Nat → Nat → α) (rhs : Nat → Nat → α) (cond : Nat → α)
    (sill : α) (pnt cs : Nat) : (Nat → α) × (Nat → α) :=
  let cell := fun p =>
    let lo := chunkLo cs p
    let hi := chunkHi cs pnt p
    let r := Krigesum.calc_field_krige_and_variance sched M L.size L.size (fun i q => rhs i (lo + q)) L.size (hi - lo) cond L.size
    (r.1 (p - lo), r.2 (p - lo))
  (fun p => (cell p).1, fun p => clipVar sill (cell p).2)

/-- field-only path (`return_var=False`) -/
def krigeCallField (sched : Sched) (L : Layout) (M : Nat → Nat → α) (rhs : Nat → Nat → α) (cond : Nat → α)
    (pnt cs : Nat) : Nat → α :=
  fun p =>
    let lo := chunkLo cs p
    let hi := chunkHi cs pnt p
    Krigesum.calc_field_krige sched M L.size L.size (fun i q => rhs i (lo + q)) L.size (hi - lo) cond L.size (p - lo)

/-- `get_mean` for unbiased kriging: `cond · M · (0,…,0,1,0…)` -/
def getMeanUnb (L : Layout) (M : Nat → Nat → α) (cond : Nat → α) : α :=
  forRange 0 L.size ((0:Nat):α) fun i acc => acc + cond i * M i L.n

/-! ### the refresh protocol of one `Krige` object (`set_condition` in all its argument forms) and its target positions

Values are abstract version identifiers.  A call combines: the stored inverse matrix (built by the last
`set_condition` from the model, positions, measurement errors and external drift of *that* moment), the
stored isometrised positions `_krige_pos` (same moment), the right-hand sides / sill of the model *at call
time*, the conditions prepared at call time from the current values and mean/normaliser/trend, and the TARGET
positions: those passed to the call, else those stored by the last call / `set_pos` that was given some
(`Field.pre_pos` → `Field.set_pos`; `pos`, `mesh_type`).  Two position sets with different identifiers are
different sets — however close their coordinates are numerically; the same coordinates under the other mesh
type are a different identifier pair `(id, structured)`. -/

/-- what the result of a call depends on -/
structure HTok where
  matModel : Nat
  matPos : Nat
  matErr : Nat
  matExt : Nat
  kpModel : Nat
  kpPos : Nat
  rhsModel : Nat
  val : Nat
  mnt : Nat
  tpos : Nat       -- the target positions the right-hand sides, drifts, mean and trend are evaluated at
  tmesh : Bool     -- their mesh type (true = structured: the identifier names the axes)
deriving DecidableEq, Repr, Inhabited

structure HState where
  model : Nat     -- current model parameters
  pos : Nat       -- current `cond_pos`
  val : Nat       -- current `cond_val`
  err : Nat       -- current `cond_err` setting (the value "nugget" is read from the model when the matrix is built)
  ext : Nat       -- current `cond_ext_drift` (0 = none)
  mnt : Nat       -- current mean / normaliser / trend
  matModel : Nat
  matPos : Nat
  matErr : Nat
  matExt : Nat
  kpModel : Nat
  kpPos : Nat
  tpos : Option (Nat × Bool)   -- stored target positions `pos` with `mesh_type`; `none` = never given
deriving DecidableEq, Repr, Inhabited

inductive HOp where
  | editModel (v : Nat)                         -- in-place parameter change or re-assignment of `.model`
  | editMNT (v : Nat)                           -- re-assignment of `.mean` / `.normalizer` / `.trend`
  | setCond (pos val ext err fitN fitV : Option Nat)
      -- `set_condition(cond_pos, cond_val, ext_drift, cond_err, fit_normalizer, fit_variogram)`, `none` = not passed;
      -- `fitN = some v`: the normaliser is fitted to the data (`v` names the fitted mean/normaliser/trend),
      -- `fitV = some v`: the variogram model is fitted in place (`v` names the fitted parameters: var, len_scale, nugget,
      --   anisotropy ratios of a directional fit, optional arguments)
  | setPos (p : Nat) (structured : Bool)        -- `set_pos(pos, mesh_type)`
  | call (pos : Option Nat) (structured via : Bool)
      -- `kr(pos, mesh_type=…)` (`via = false`) or `kr.structured(pos)` / `kr.unstructured(pos)` (`via = true`); `pos = none`: not passed
deriving DecidableEq, Repr, Inhabited

/-- outcome of a call -/
inductive HRes where
  | ok (t : HTok)
  | noPos          -- ValueError: no positions present / the present ones cannot be reused under the requested mesh type
deriving DecidableEq, Repr, Inhabited

/-- a freshly constructed object -/
def hinit (model pos val err ext mnt : Nat) : HState :=
  { model, pos, val, err, ext, mnt, matModel := model, matPos := pos, matErr := err, matExt := ext,
    kpModel := model, kpPos := pos, tpos := none }

/-- what `kr(...)` combines now when it evaluates the targets `t` -/
def callTok (s : HState) (t : Nat × Bool) : HTok :=
  { matModel := s.matModel, matPos := s.matPos, matErr := s.matErr, matExt := s.matExt,
    kpModel := s.kpModel, kpPos := s.kpPos, rhsModel := s.model, val := s.val, mnt := s.mnt,
    tpos := t.1, tmesh := t.2 }

/-- what a freshly constructed object with the current model and conditions combines when it is given the targets `t` -/
def freshTok (s : HState) (t : Nat × Bool) : HTok := callTok (hinit s.model s.pos s.val s.err s.ext s.mnt) t

/-- `set_condition`: an external drift that is not passed is kept only when no new positions are passed;
    everything else that is not passed is kept; the normaliser / the model are fitted FIRST when asked for; then the
    matrix and `_krige_pos` are ALWAYS rebuilt — from the fitted model; the stored target positions are untouched -/
def setCond (s : HState) (pos val ext err fitN fitV : Option Nat) : HState :=
  let ext' := match ext, pos with
    | some e, _ => e
    | none, none => s.ext
    | none, some _ => 0
  { hinit (fitV.getD s.model) (pos.getD s.pos) (val.getD s.val) (err.getD s.err) ext' (fitN.getD s.mnt) with tpos := s.tpos }

/-- the targets a call evaluates, from its arguments and the positions `present`:
    given positions are taken as they are, with the mesh type of the call; without positions the present ones
    are reused with THEIR mesh type (`kr.structured()` / `kr.unstructured()` refuse the other type) -/
def target (present : Option (Nat × Bool)) (pos : Option Nat) (structured via : Bool) : Option (Nat × Bool) :=
  match pos, present with
  | some p, _ => some (p, structured)
  | none, none => none
  | none, some (q, m) => if via && (m != structured) then none else some (q, m)

def hstep (s : HState) : HOp → HState × Option HRes
  | .editModel v => ({ s with model := v }, none)
  | .editMNT v => ({ s with mnt := v }, none)
  | .setCond p v e r fn fv => (setCond s p v e r fn fv, none)
  | .setPos p st => ({ s with tpos := some (p, st) }, none)
  | .call pos st via =>
    match target s.tpos pos st via with
    | some t => ({ s with tpos := some t }, some (.ok (callTok s t)))
    | none => (s, some .noPos)

/-- the stored matrix and positions belong to the current model and conditions -/
def hsynced (s : HState) : Prop :=
  s.matModel = s.model ∧ s.matPos = s.pos ∧ s.matErr = s.err ∧ s.matExt = s.ext ∧ s.kpModel = s.model ∧ s.kpPos = s.pos

instance (s : HState) : Decidable (hsynced s) := by unfold hsynced; infer_instance

/-- SPECIFICATION side (independent of the state): the target positions last GIVEN to the object, by a call
    that passed some or by `set_pos` -/
def given (g : Option (Nat × Bool)) : HOp → Option (Nat × Bool)
  | .setPos p st => some (p, st)
  | .call (some p) st _ => some (p, st)
  | _ => g

/-- what a call should return: a freshly constructed object (current model and conditions) evaluated at the
    requested targets — the given ones, else the last given ones `g` -/
def specRes (s : HState) (g : Option (Nat × Bool)) : HOp → Option HRes
  | .call pos st via =>
    match target g pos st via with
    | some t => some (.ok (freshTok s t))
    | none => some .noPos
  | _ => none

/-- run a history; every call reports (what it returned, what the specification asks for at that moment).
    `g` = the positions last given before the history starts -/
def hrun (s : HState) (g : Option (Nat × Bool)) : List HOp → List (HRes × HRes)
  | [] => []
  | op :: ops =>
    let r := hstep s op
    match r.2, specRes s g op with
    | some x, some y => (x, y) :: hrun r.1 (given g op) ops
    | _, _ => hrun r.1 (given g op) ops

/-- state after a history -/
def hfinal (s : HState) (ops : List HOp) : HState := ops.foldl (fun s o => (hstep s o).1) s

/-! ### driver ops (Float) -/

def optNat (j : Json) (k : String) : Option Nat :=
  match j.getObjVal? k with
  | .ok (Json.num n) => some n.mantissa.toNat
  | _ => none

def parseHOp (j : Json) : Except String HOp := do
  match ← getStr j "k" with
  | "model" => return .editModel (← getNat j "v")
  | "mnt" => return .editMNT (← getNat j "v")
  | "set_condition" => return .setCond (optNat j "pos") (optNat j "val") (optNat j "ext") (optNat j "err") (optNat j "fitn") (optNat j "fitv")
  | "set_pos" => return .setPos (← getNat j "p") (← getBool j "structured")
  | "call" => return .call (optNat j "pos") (← getBool j "structured") (← getBool j "via")
  | k => throw s!"unknown krige history op {k}"

def htokJson (t : HTok) : Json :=
  Json.arr ((#[t.matModel, t.matPos, t.matErr, t.matExt, t.kpModel, t.kpPos, t.rhsModel, t.val, t.mnt, t.tpos,
      if t.tmesh then 1 else 0] : Array Nat).map
    fun n => Json.num (JsonNumber.fromNat n))

def hresJson : HRes → Json
  | .ok t => htokJson t
  | .noPos => Json.null

def tposJson : Option (Nat × Bool) → Json
  | some (p, m) => Json.arr #[Json.num (JsonNumber.fromNat p), Json.bool m]
  | none => Json.null

/-- the normaliser maps with the masking of `Normalizer.normalize/denormalize` (NaN outside the range) -/
def normF (k : Norm.Kind) (p : Norm.Par Float) (x : Float) : Float := Norm.optF (Norm.normalize k p x)
def denormF (k : Norm.Kind) (p : Norm.Par Float) (y : Float) : Float := Norm.optF (Norm.denormalize k p y)

def getLayout (j : Json) : Except String Layout := do
  return { n := ← getNat j "n", unb := ← getBool j "unb", nf := ← getNat j "nf", ne := ← getNat j "ne" }

def ops (op : String) (j : Json) : Option (Except String Json) :=
  match op with
  | "krige_assemble" => some (do
      let L ← getLayout j
      let C ← getFloats j "C"; let err ← getFloats j "err"; let F ← getFloats j "F"; let E ← getFloats j "E"
      let K := assembleK L (ofList2 C L.n) (ofList err) (ofList2 F L.n) (ofList2 E L.n)
      return fl2 (tab2 K L.size L.size))
  | "krige_assemble_cfg" => some (do
      -- the matrix from the configuration: plain covariances of the lags, error setting (kind + values), model nugget
      let L ← getLayout j
      let cv ← getFloats j "cv"; let F ← getFloats j "F"; let E ← getFloats j "E"
      let nug ← getFloat j "nugget"; let ev ← getFloats j "errv"
      let es : ErrSpec Float ← match ← getStr j "errkind" with
        | "nugget" => pure ErrSpec.nugget
        | "scalar" => pure (ErrSpec.scalar ((ofList ev) 0))
        | "array" => pure (ErrSpec.perPoint (ofList ev))
        | k => throw s!"unknown error kind {k}"
      let K := assembleKCfg L (ofList2 cv L.n) nug es (ofList2 F L.n) (ofList2 E L.n)
      return fl2 (tab2 K L.size L.size))
  | "krige_rhs_lag" => some (do
      -- right-hand sides from lags: the model decides plain / nugget-aware covariance (exact flag, isclose band)
      let L ← getLayout j
      let m ← getNat j "m"; let om ← getBool j "only_mean"; let ex ← getBool j "exact"
      let sill ← getFloat j "sill"
      let d ← getFloats j "d"; let cv ← getFloats j "cv"; let f ← getFloats j "f"; let e ← getFloats j "e"
      let R := assembleRHSLag L om ex sill (ofList2 d m) (ofList2 cv m) (ofList2 f m) (ofList2 e m)
      return fl2 (tab2 R L.size m))
  | "krige_rhs" => some (do
      let L ← getLayout j
      let m ← getNat j "m"; let om ← getBool j "only_mean"
      let c ← getFloats j "c"; let f ← getFloats j "f"; let e ← getFloats j "e"
      let R := assembleRHS L om (ofList2 c m) (ofList2 f m) (ofList2 e m)
      return fl2 (tab2 R L.size m))
  | "krige_call" => some (do
      let L ← getLayout j
      let pnt ← getNat j "pnt"; let cs ← getNat j "cs"
      let M ← getFloats j "M"; let rhs ← getFloats j "rhs"; let valn ← getFloats j "valn"; let mean ← getFloats j "mean"
      let sill ← getFloat j "sill"
      let cond := krigeCond L (ofList valn) (ofList mean)
      let (f, v) := krigeCall (id : Sched) L (ofList2 M L.size) (ofList2 rhs pnt) cond sill pnt cs
      let f2 := krigeCallField (id : Sched) L (ofList2 M L.size) (ofList2 rhs pnt) cond pnt cs
      return Json.arr #[fl (tab f pnt), fl (tab v pnt), fl (tab f2 pnt), fl (tab cond L.size)])
  | "krige_prep" => some (do
      -- `_krige_cond` from cond_val, trend(cond_pos), mean(cond_pos) and the normaliser (model of C18)
      let L ← getLayout j
      let (k, p) ← Norm.getPar j
      let val ← getFloats j "val"; let trend ← getFloats j "trend"; let mean ← getFloats j "mean"
      return fl (tab (prepCond L (normF k p) (ofList val) (ofList trend) (ofList mean)) L.size))
  | "krige_post" => some (do
      -- post-processing of a raw kriging field: trend + denormalize(mean + raw), per target
      let (k, p) ← Norm.getPar j
      let raw ← getFloats j "raw"; let trend ← getFloats j "trend"; let mean ← getFloats j "mean"
      if mean.size != raw.size || trend.size != raw.size then throw "krige_post: sizes" else
      return fl ((List.range raw.size).map fun i => postCell (denormF k p) mean[i]! trend[i]! raw[i]!))
  | "krige_history" => some (do
      let s0 := hinit (← getNat j "model") (← getNat j "pos") (← getNat j "val") (← getNat j "err") (← getNat j "ext") (← getNat j "mnt")
      let arr ← (← j.getObjVal? "ops").getArr?
      let opl ← arr.toList.mapM parseHOp
      let mut s := s0
      let mut g : Option (Nat × Bool) := none
      let mut out : Array Json := #[]
      for o in opl do
        let (s', r) := hstep s o
        match r, specRes s g o with
        | some x, some y => out := out.push (Json.mkObj [("res", hresJson x), ("spec", hresJson y),
            ("eq_fresh", Json.bool (decide (x = y))), ("synced", Json.bool (decide (hsynced s))),
            ("error", Json.bool (decide (x = .noPos))), ("stored", tposJson s'.tpos), ("given", tposJson (given g o))])
        | _, _ => pure ()
        s := s'
        g := given g o
      return Json.arr out)
  | "krige_mean" => some (do
      let L ← getLayout j
      let M ← getFloats j "M"; let valn ← getFloats j "valn"; let mean ← getFloats j "mean"
      let cond := krigeCond L (ofList valn) (ofList mean)
      return fbits (getMeanUnb L (ofList2 M L.size) cond))
  | _ => none

end GSV.Model.Krige
