/- Hand-written executable model (tie B): Krige — assembly of the kriging system, right-hand sides,
   chunk loop, variance clipping (krige/base.py).  The summation kernel itself is NOT modelled by hand:
   it is the generated translation of krigesum.pyx (tie A).  Core Lean only. -/
import GSV.Proto
import GSV.Gen.Krigesum
open Lean GSV GSV.Proto GSV.Transc
namespace GSV.Model.Krige

variable {α : Type} [Arith α] [Transc α] [DecidableLT α] [DecidableLE α]

/-- layout of a kriging system -/
structure Layout where
  n : Nat            -- conditioning points
  unb : Bool         -- unbiasedness row/column
  nf : Nat           -- functional drifts
  ne : Nat           -- external drifts
deriving Repr

def Layout.u (L : Layout) : Nat := if L.unb then 1 else 0
def Layout.size (L : Layout) : Nat := L.n + L.u + L.nf + L.ne
def Layout.fStart (L : Layout) : Nat := L.size - (L.nf + L.ne)      -- `-drift_no + i`
def Layout.eStart (L : Layout) : Nat := L.size - L.ne               -- `ext_size`

/-- the border entry in row `r ≥ n` (equivalently column) for conditioning point `c < n` -/
def border (L : Layout) (F E : Nat → Nat → α) (r c : Nat) : α :=
  if L.unb ∧ r = L.n then ((1:Nat):α)
  else if L.fStart ≤ r ∧ r < L.eStart then F (r - L.fStart) c
  else if L.eStart ≤ r ∧ r < L.size then E (r - L.eStart) c
  else ((0:Nat):α)

/-- `_get_krige_mat` before inversion: covariance block with the measurement error on the diagonal,
    unbiasedness / drift borders (symmetric), zero corner -/
def assembleK (L : Layout) (C : Nat → Nat → α) (err : Nat → α) (F E : Nat → Nat → α) : Nat → Nat → α :=
  fun i j =>
    if i < L.n ∧ j < L.n then (if i = j then C i j + err i else C i j)
    else if L.n ≤ i ∧ L.n ≤ j then ((0:Nat):α)
    else if L.n ≤ i then border L F E i j
    else border L F E j i

/-- `_get_krige_vecs`: column `p` of the right-hand side for a target point.
    `c i p` = covariance (or nugget-aware covariance) between conditioning point `i` and target `p`,
    `f`, `e` = functional / external drift values at the targets -/
def assembleRHS (L : Layout) (onlyMean : Bool) (c : Nat → Nat → α) (f e : Nat → Nat → α) : Nat → Nat → α :=
  fun i p =>
    if i < L.n then (if onlyMean then ((0:Nat):α) else c i p)
    else if L.unb ∧ i = L.n then ((1:Nat):α)
    else if L.fStart ≤ i ∧ i < L.eStart then f (i - L.fStart) p
    else if L.eStart ≤ i ∧ i < L.size then e (i - L.eStart) p
    else ((0:Nat):α)

/-- `_krige_cond`: (normalised, detrended) data minus mean, zero padded -/
def krigeCond (L : Layout) (valn mean : Nat → α) : Nat → α :=
  fun i => if i < L.n then valn i - mean i else ((0:Nat):α)

/-- `np.maximum(sill - krige_var, 0)` -/
def clipVar (sill q : α) : α := if sill - q < ((0:Nat):α) then ((0:Nat):α) else sill - q

/-- chunk containing target `p` for `chunk_size = cs` (`cs ≥ 1`): start index -/
def chunkLo (cs p : Nat) : Nat := (p / cs) * cs
def chunkHi (cs pnt p : Nat) : Nat := min pnt ((p / cs + 1) * cs)

/-- the chunk loop of `Krige.__call__` (with variance): for each target `p`, the kernel is run on the
    chunk that contains `p`, whose right-hand side is the slice `[lo, hi)` of the full one -/
def krigeCall (sched : Sched) (L : Layout) (M : Nat → Nat → α) (rhs : Nat → Nat → α) (cond : Nat → α)
    (sill : α) (pnt cs : Nat) : (Nat → α) × (Nat → α) :=
  let cell := fun p =>
    let lo := chunkLo cs p
    let hi := chunkHi cs pnt p
    let r := Krigesum.calc_field_krige_and_variance sched M L.size L.size (fun i q => rhs i (lo + q)) L.size (hi - lo) cond L.size
    (r.1 (p - lo), r.2 (p - lo))
  (fun p => (cell p).1, fun p => clipVar sill (cell p).2)

/-- field-only path (`return_var=False`) -/
def krigeCallField (sched : Sched) (L : Layout) (M : Nat → Nat → α) (rhs : Nat → Nat → α) (cond : Nat → α)
    (pnt cs : Nat) : Nat → α :=
  fun p =>
    let lo := chunkLo cs p
    let hi := chunkHi cs pnt p
    Krigesum.calc_field_krige sched M L.size L.size (fun i q => rhs i (lo + q)) L.size (hi - lo) cond L.size (p - lo)

/-- `get_mean` for unbiased kriging: `cond · M · (0,…,0,1,0…)` -/
def getMeanUnb (L : Layout) (M : Nat → Nat → α) (cond : Nat → α) : α :=
  forRange 0 L.size ((0:Nat):α) fun i acc => acc + cond i * M i L.n

/-! ### driver ops (Float) -/

def getLayout (j : Json) : Except String Layout := do
  return { n := ← getNat j "n", unb := ← getBool j "unb", nf := ← getNat j "nf", ne := ← getNat j "ne" }

def ops (op : String) (j : Json) : Option (Except String Json) :=
  match op with
  | "krige_assemble" => some (do
      let L ← getLayout j
      let C ← getFloats j "C"; let err ← getFloats j "err"; let F ← getFloats j "F"; let E ← getFloats j "E"
      let K := assembleK L (ofList2 C L.n) (ofList err) (ofList2 F L.n) (ofList2 E L.n)
      return fl2 (tab2 K L.size L.size))
  | "krige_rhs" => some (do
      let L ← getLayout j
      let m ← getNat j "m"; let om ← getBool j "only_mean"
      let c ← getFloats j "c"; let f ← getFloats j "f"; let e ← getFloats j "e"
      let R := assembleRHS L om (ofList2 c m) (ofList2 f m) (ofList2 e m)
      return fl2 (tab2 R L.size m))
  | "krige_call" => some (do
      let L ← getLayout j
      let pnt ← getNat j "pnt"; let cs ← getNat j "cs"
      let M ← getFloats j "M"; let rhs ← getFloats j "rhs"; let valn ← getFloats j "valn"; let mean ← getFloats j "mean"
      let sill ← getFloat j "sill"
      let cond := krigeCond L (ofList valn) (ofList mean)
      let (f, v) := krigeCall (id : Sched) L (ofList2 M L.size) (ofList2 rhs pnt) cond sill pnt cs
      let f2 := krigeCallField (id : Sched) L (ofList2 M L.size) (ofList2 rhs pnt) cond pnt cs
      return Json.arr #[fl (tab f pnt), fl (tab v pnt), fl (tab f2 pnt), fl (tab cond L.size)])
  | "krige_mean" => some (do
      let L ← getLayout j
      let M ← getFloats j "M"; let valn ← getFloats j "valn"; let mean ← getFloats j "mean"
      let cond := krigeCond L (ofList valn) (ofList mean)
      return fbits (getMeanUnb L (ofList2 M L.size) cond))
  | _ => none

end GSV.Model.Krige
