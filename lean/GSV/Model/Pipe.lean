/- Hand-written executable model (tie B): Pipe — how the pipelines (Krige, SRF, CondSRF) use the positions of a
   metric (non lat-lon) model with rotation angles and anisotropy ratios.  Nothing new is computed here: the file
   only COMPOSES the models of `Geo` (isometrize), `Krige` (assembly, chunk loop, kernel) and `Gen` (generator
   glue, kernels) in the way the code does:

   * `Krige.set_condition`:  `self._krige_pos = self.model.isometrize(self.cond_pos)`;
     `_get_krige_mat`:       `res[:n, :n] = self.model.covariance(self._get_dists(self._krige_pos))`;
     `Krige.__call__`:       `iso_pos = self.pre_pos(pos)` (= `model.isometrize`), then per chunk
     `_get_krige_vecs`:      `res[:n, :] = cf(self._get_dists(self._krige_pos, iso_pos, chunk_slice))`
                             with `cf = cov_nugget if exact else covariance`;
   * `SRF.__call__`:         `iso_pos = self.pre_pos(pos)`, then `self.generator(iso_pos)`.

   Core Lean only — no Mathlib import in this file. -/
import GSV.Proto
import GSV.Model.Geo
import GSV.Model.Krige
import GSV.Model.Gen
open Lean GSV GSV.Proto GSV.Transc
namespace GSV.Model.Pipe

variable {α : Type} [Arith α] [Transc α] [DecidableLT α] [DecidableLE α]

/-- point `i` of a `(dim × n)` position array -/
def colOf (pos : Nat → Nat → α) (i : Nat) : Nat → α := fun d => pos d i

/-- `model.isometrize(pos)` on a whole `(dim × n)` position array (`pre_pos`, `_krige_pos`) -/
def isoPos (dim : Nat) (angles anis : List α) (pos : Nat → Nat → α) : Nat → Nat → α :=
  fun d i => Geo.isometrize dim angles anis (colOf pos i) d

/-- `_get_dists(self._krige_pos)[i, j]` -/
def distCC (dim : Nat) (angles anis : List α) (cpos : Nat → Nat → α) (i j : Nat) : α :=
  Geo.dist dim (colOf (isoPos dim angles anis cpos) i) (colOf (isoPos dim angles anis cpos) j)

/-- `_get_dists(self._krige_pos, iso_pos)[i, p]` -/
def distCT (dim : Nat) (angles anis : List α) (cpos tpos : Nat → Nat → α) (i p : Nat) : α :=
  Geo.dist dim (colOf (isoPos dim angles anis cpos) i) (colOf (isoPos dim angles anis tpos) p)

/-- covariance block of the kriging matrix: `model.covariance(dists)` with the radial covariance `cov` -/
def covBlock (cov : α → α) (dim : Nat) (angles anis : List α) (cpos : Nat → Nat → α) (i j : Nat) : α :=
  cov (distCC dim angles anis cpos i j)

/-- covariance rows of the right-hand side: `cf(dists)`, `cf` = `covariance` or `cov_nugget` -/
def rhsBlock (cf : α → α) (dim : Nat) (angles anis : List α) (cpos tpos : Nat → Nat → α) (i p : Nat) : α :=
  cf (distCT dim angles anis cpos tpos i p)

/-- the matrix `_get_krige_mat` hands to the (pseudo-)inverse -/
def krigeMatAt (L : Krige.Layout) (cov : α → α) (dim : Nat) (angles anis : List α) (cpos : Nat → Nat → α)
    (err : Nat → α) (F E : Nat → Nat → α) : Nat → Nat → α :=
  Krige.assembleK L (covBlock cov dim angles anis cpos) err F E

/-- the right-hand sides of all targets -/
def krigeRhsAt (L : Krige.Layout) (cf : α → α) (dim : Nat) (angles anis : List α) (cpos tpos : Nat → Nat → α)
    (f e : Nat → Nat → α) : Nat → Nat → α :=
  Krige.assembleRHS L false (rhsBlock cf dim angles anis cpos tpos) f e

/-- `Krige(model, cond_pos, cond_val)(pos, return_var=True)` for a model with `(angles, anis)` whose stored inverse is
    `M`: (raw estimate, clipped variance) per target -/
def krigeAt (sched : Sched) (L : Krige.Layout) (cf : α → α) (dim : Nat) (angles anis : List α)
    (cpos tpos : Nat → Nat → α) (f e : Nat → Nat → α) (M : Nat → Nat → α) (cond : Nat → α) (sill : α)
    (pnt cs : Nat) : (Nat → α) × (Nat → α) :=
  Krige.krigeCall sched L M (krigeRhsAt L cf dim angles anis cpos tpos f e) cond sill pnt cs

/-- `SRF(model, generator="RandMeth")(pos)` without mean / nugget: isometrize, then the generator -/
def srfRandmeth (var : α) (k : Nat → Nat → α) (z1 z2 : Nat → α) (dim : Nat) (angles anis : List α)
    (pos : Nat → Nat → α) (N X i : Nat) : α :=
  Gen.randmethField var k z1 z2 (isoPos dim angles anis pos) dim N X i

/-- `SRF(model, generator="Fourier")(pos)` without mean / nugget -/
def srfFourier (sf : Nat → α) (modes : Nat → Nat → α) (z1 z2 : Nat → α) (dim : Nat) (angles anis : List α)
    (pos : Nat → Nat → α) (N X i : Nat) : α :=
  Gen.fourierField sf modes z1 z2 (isoPos dim angles anis pos) dim N X i

/-- the wave vectors seen from the raw coordinates: `Mᵀ k_j` with `M = matrix_isometrize(dim, angles, anis)` -/
def modesT (dim : Nat) (angles anis : List α) (k : Nat → Nat → α) : Nat → Nat → α :=
  fun d j => Geo.applyMat dim (Geo.transpose (Geo.matrixIsometrize dim angles anis)) (fun e => k e j) d

/-! ### driver -/

def ops (op : String) (j : Json) : Option (Except String Json) :=
  match op with
  | "pipe_dists" => some (do
      -- the two distance tables a Krige object with (angles, anis) evaluates its covariance on
      let dim ← getNat j "dim"; let n ← getNat j "n"; let m ← getNat j "m"
      let a ← getFloats j "angles"; let s ← getFloats j "anis"
      let cpos ← getFloats j "cpos"; let tpos ← getFloats j "tpos"
      let cc := tab2 (distCC dim a.toList s.toList (ofList2 cpos n)) n n
      let ct := tab2 (distCT dim a.toList s.toList (ofList2 cpos n) (ofList2 tpos m)) n m
      return Json.arr #[fl2 cc, fl2 ct])
  | "pipe_srf" => some (do
      -- SRF level: generator output at the isometrized positions, and the same sum with transformed wave vectors at the
      -- raw positions; `gen` = "randmeth" (needs `var`) or "fourier" (needs `sf`)
      let dim ← getNat j "dim"; let n ← getNat j "N"; let x ← getNat j "X"
      let a ← getFloats j "angles"; let s ← getFloats j "anis"
      let k ← getFloats j "k"; let z1 ← getFloats j "z1"; let z2 ← getFloats j "z2"; let pos ← getFloats j "pos"
      let g ← getStr j "gen"
      let kk := ofList2 k n
      let kT : Array Float := ((tab2 (modesT dim a.toList s.toList kk) dim n).flatten).toArray
      if g == "randmeth" then
        let var ← getFloat j "var"
        let f1 := fun i => srfRandmeth var kk (ofList z1) (ofList z2) dim a.toList s.toList (ofList2 pos x) n x i
        let f2 := fun i => Gen.randmethField var (ofList2 kT n) (ofList z1) (ofList z2) (ofList2 pos x) dim n x i
        return Json.arr #[fl (tab f1 x), fl (tab f2 x)]
      else
        let sf ← getFloats j "sf"
        let f1 := fun i => srfFourier (ofList sf) kk (ofList z1) (ofList z2) dim a.toList s.toList (ofList2 pos x) n x i
        let f2 := fun i => Gen.fourierField (ofList sf) (ofList2 kT n) (ofList z1) (ofList z2) (ofList2 pos x) dim n x i
        return Json.arr #[fl (tab f1 x), fl (tab f2 x)])
  | _ => none

end GSV.Model.Pipe
