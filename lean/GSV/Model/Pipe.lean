/- Hand-written executable model (tie B): Pipe — how the pipelines (Krige, SRF, CondSRF) use the positions of a
   metric (non lat-lon) model with rotation angles and anisotropy ratios.  Nothing new is computed here: the file
   only COMPOSES the models of `Geo` (isometrize), `Krige` (assembly, chunk loop, kernel) and `Gen` (generator
   glue, kernels) in the way the code does:

   * `Krige.set_condition`:  `self._krige_pos = self.model.isometrize(self.cond_pos)`;
     `_get_krige_mat`:       `res[:n, :n] = self.model.covariance(self._get_dists(self._krige_pos))`;
     `Krige.__call__`:       `iso_pos = self.pre_pos(pos)` (= `model.isometrize`), then per chunk
     `_get_krige_vecs`:      `res[:n, :] = cf(self._get_dists(self._krige_pos, iso_pos, chunk_slice))`
                             with `cf = cov_nugget if exact else covariance`;
   * `SRF.__call__`:         `iso_pos = self.pre_pos(pos)`, then `self.generator(iso_pos)`;
   * functional drift terms (universal kriging): `_get_krige_mat` evaluates `f(*self.cond_pos)` on the RAW conditioning
     positions, `_get_krige_vecs` evaluates `f(*self.model.anisometrize(iso_pos)[:, chunk])`, i.e. on the target
     positions transformed back from the isotropic coordinates.

   Core Lean only — no Mathlib import in this file. -/
import GSV.Proto
import GSV.Model.Geo
import GSV.Model.Krige
import GSV.Model.Gen
open Lean GSV GSV.Proto GSV.Transc
namespace GSV.Model.Pipe

variable {α : Type} [Arith α] [Transc α] [DecidableLT α] [DecidableLE α]

/-- point `i` of a `(dim × n)` position array -/
def colOf (pos : Nat → Nat → α) (i : Nat) : Nat → α := fun d => pos d i

/-- `model.isometrize(pos)` on a whole `(dim × n)` position array (`pre_pos`, `_krige_pos`) -/
def isoPos (dim : Nat) (angles anis : List α) (pos : Nat → Nat → α) : Nat → Nat → α :=
  fun d i => Geo.isometrize dim angles anis (colOf pos i) d

/-- `_get_dists(self._krige_pos)[i, j]` -/
def distCC (dim : Nat) (angles anis : List α) (cpos : Nat → Nat → α) (i j : Nat) : α :=
  Geo.dist dim (colOf (isoPos dim angles anis cpos) i) (colOf (isoPos dim angles anis cpos) j)

/-- `_get_dists(self._krige_pos, iso_pos)[i, p]` -/
def distCT (dim : Nat) (angles anis : List α) (cpos tpos : Nat → Nat → α) (i p : Nat) : α :=
  Geo.dist dim (colOf (isoPos dim angles anis cpos) i) (colOf (isoPos dim angles anis tpos) p)

/-- covariance block of the kriging matrix: `model.covariance(dists)` with the radial covariance `cov` -/
def covBlock (cov : α → α) (dim : Nat) (angles anis : List α) (cpos : Nat → Nat → α) (i j : Nat) : α :=
  cov (distCC dim angles anis cpos i j)

/-- covariance rows of the right-hand side: `cf(dists)`, `cf` = `covariance` or `cov_nugget` -/
def rhsBlock (cf : α → α) (dim : Nat) (angles anis : List α) (cpos tpos : Nat → Nat → α) (i p : Nat) : α :=
  cf (distCT dim angles anis cpos tpos i p)

/-- the matrix `_get_krige_mat` hands to the (pseudo-)inverse -/
def krigeMatAt (L : Krige.Layout) (cov : α → α) (dim : Nat) (angles anis : List α) (cpos : Nat → Nat → α)
    (err : Nat → α) (F E : Nat → Nat → α) : Nat → Nat → α :=
  Krige.assembleK L (covBlock cov dim angles anis cpos) err F E

/-- the right-hand sides of all targets -/
def krigeRhsAt (L : Krige.Layout) (cf : α → α) (dim : Nat) (angles anis : List α) (cpos tpos : Nat → Nat → α)
    (f e : Nat → Nat → α) : Nat → Nat → α :=
  Krige.assembleRHS L false (rhsBlock cf dim angles anis cpos tpos) f e

/-- `Krige(model, cond_pos, cond_val)(pos, return_var=True)` for a model with `(angles, anis)` whose stored inverse is
    `M`: (raw estimate, clipped variance) per target -/
def krigeAt (sched : Sched) (L : Krige.Layout) (cf : α → α) (dim : Nat) (angles anis : List α)
    (cpos tpos : Nat → Nat → α) (f e : Nat → Nat → α) (M : Nat → Nat → α) (cond : Nat → α) (sill : α)
    (pnt cs : Nat) : (Nat → α) × (Nat → α) :=
  Krige.krigeCall sched L M (krigeRhsAt L cf dim angles anis cpos tpos f e) cond sill pnt cs

/-- `SRF(model, generator="RandMeth")(pos)` without mean / nugget: isometrize, then the generator -/
def srfRandmeth (var : α) (k : Nat → Nat → α) (z1 z2 : Nat → α) (dim : Nat) (angles anis : List α)
    (pos : Nat → Nat → α) (N X i : Nat) : α :=
  Gen.randmethField var k z1 z2 (isoPos dim angles anis pos) dim N X i

/-- `SRF(model, generator="Fourier")(pos)` without mean / nugget -/
def srfFourier (sf : Nat → α) (modes : Nat → Nat → α) (z1 z2 : Nat → α) (dim : Nat) (angles anis : List α)
    (pos : Nat → Nat → α) (N X i : Nat) : α :=
  Gen.fourierField sf modes z1 z2 (isoPos dim angles anis pos) dim N X i

/-! ### functional drift terms (universal kriging)

`Krige.__call__` only keeps the isometrized targets `iso_pos`; the drift functions are functions of the RAW coordinates, so
`_get_krige_vecs` transforms back: `chunk_pos = self.model.anisometrize(pos)[:, slice(*chunk_slice)]` (for EVERY model — there is no
case distinction on "rotated" / "anisotropic" in the code). -/

/-- `model.anisometrize(pos)` on a whole `(dim × n)` position array -/
def anisoPos (dim : Nat) (angles anis : List α) (pos : Nat → Nat → α) : Nat → Nat → α :=
  fun d i => Geo.anisometrize dim angles anis (colOf pos i) d

/-- the positions the functional drift terms of the right-hand side are evaluated at:
    `self.model.anisometrize(self.pre_pos(pos))` (column `p` = target `p`; the chunk loop only selects columns) -/
def driftPos (dim : Nat) (angles anis : List α) (tpos : Nat → Nat → α) : Nat → Nat → α :=
  anisoPos dim angles anis (isoPos dim angles anis tpos)

/-- drift rows / columns of the kriging matrix: `f_k(*self.cond_pos)` (raw conditioning positions) -/
def driftMat (g : Nat → (Nat → α) → α) (cpos : Nat → Nat → α) : Nat → Nat → α :=
  fun k i => g k (colOf cpos i)

/-- drift rows of the right-hand sides: `f_k(*chunk_pos)` -/
def driftRhs (g : Nat → (Nat → α) → α) (dim : Nat) (angles anis : List α) (tpos : Nat → Nat → α) : Nat → Nat → α :=
  fun k p => g k (colOf (driftPos dim angles anis tpos) p)

/-- the matrix of `Krige(model, cond_pos, cond_val, drift_functions=g)` -/
def krigeDriftMatAt (L : Krige.Layout) (cov : α → α) (dim : Nat) (angles anis : List α) (cpos : Nat → Nat → α)
    (err : Nat → α) (g : Nat → (Nat → α) → α) (E : Nat → Nat → α) : Nat → Nat → α :=
  krigeMatAt L cov dim angles anis cpos err (driftMat g cpos) E

/-- `Krige(model, cond_pos, cond_val, drift_functions=g)(pos, return_var=True)` -/
def krigeDriftAt (sched : Sched) (L : Krige.Layout) (cf : α → α) (dim : Nat) (angles anis : List α)
    (cpos tpos : Nat → Nat → α) (g : Nat → (Nat → α) → α) (e : Nat → Nat → α) (M : Nat → Nat → α) (cond : Nat → α) (sill : α)
    (pnt cs : Nat) : (Nat → α) × (Nat → α) :=
  krigeAt sched L cf dim angles anis cpos tpos (driftRhs g dim angles anis tpos) e M cond sill pnt cs

/-- the wave vectors seen from the raw coordinates: `Mᵀ k_j` with `M = matrix_isometrize(dim, angles, anis)` -/
def modesT (dim : Nat) (angles anis : List α) (k : Nat → Nat → α) : Nat → Nat → α :=
  fun d j => Geo.applyMat dim (Geo.transpose (Geo.matrixIsometrize dim angles anis)) (fun e => k e j) d


/-! ### Field objects between calls: the model object they hold, stored positions, the kriging setup

An `SRF` / `Krige` / `CondSRF` object keeps, as far as coordinates are concerned,
* a REFERENCE to a model object — `obj.model.angles = …` changes that object in place (`Geo.mStep`), `obj.model = m`
  swaps it;
* the position tuple of the last call that was given one (`Field.pos`; `obj()` evaluates it again);
* (kriging) the conditioning positions and their isometrized copy `_krige_pos`, which `set_condition` computes with
  the model as it is AT THAT MOMENT (`set_condition()` without arguments is the documented refresh).
`pre_pos` isometrizes the stored / given tuple with the CURRENT state of the model on every call — nothing else about
transformed coordinates is kept. -/

/-- a position tuple: number of points and the `(dim × n)` table -/
structure PosTab (α : Type) where
  n : Nat
  tab : Nat → Nat → α

/-- `model.isometrize(pos)` of a whole tuple under a given state of the model object -/
def isoTabOf (m : Geo.MState α) (p : PosTab α) : PosTab α := ⟨p.n, isoPos m.dim m.angles m.anis p.tab⟩

structure FState (α : Type) where
  /-- current state of the model object the field refers to -/
  model : Geo.MState α
  /-- `Field.pos` -/
  pos : Option (PosTab α)
  /-- `Krige.cond_pos` -/
  cond : Option (PosTab α)
  /-- `Krige._krige_pos` -/
  kpos : Option (PosTab α)

inductive FOp (α : Type) where
  /-- `obj.model.<anis | angles | len_scale | dim> = v` -/
  | setter (op : Geo.MOp α)
  /-- `obj.model = Model(dim, len_scale=ls, anis=anis, angles=angles)` (a raising constructor assigns nothing) -/
  | replace (dim : Nat) (ls anis angles : List α)
  /-- `obj(pos)` (the tuple is stored) / `obj()` (the stored tuple) -/
  | call (pos : Option (PosTab α))
  /-- `krige.set_condition(cond_pos, …)` / `krige.set_condition()` -/
  | setCond (pos : Option (PosTab α))

inductive FOut (α : Type) where
  | status (s : String)
  /-- the isometrized tuple the computation (generator, kriging right-hand sides) receives -/
  | iso (p : PosTab α)
  /-- the isometrized conditioning tuple the kriging matrix is built from -/
  | kpos (p : PosTab α)

/-- a new object around a model object: nothing stored yet -/
def fInit (m : Geo.MState α) : FState α := ⟨m, none, none, none⟩

def fStep (s : FState α) : FOp α → FState α × FOut α
  | .setter op => let r := Geo.mStepKeep s.model op; ({ s with model := r.1 }, .status r.2)
  | .replace d ls an ag =>
    match Geo.mInit d ls an ag with
    | .ok m => ({ s with model := m }, .status "ok")
    | .error e => (s, .status e)
  | .call (some p) => ({ s with pos := some p }, .iso (isoTabOf s.model p))
  | .call none =>
    match s.pos with
    | some p => (s, .iso (isoTabOf s.model p))
    | none => (s, .status "ValueError")
  | .setCond (some c) => ({ s with cond := some c, kpos := some (isoTabOf s.model c) }, .kpos (isoTabOf s.model c))
  | .setCond none =>
    match s.cond with
    | some c => ({ s with kpos := some (isoTabOf s.model c) }, .kpos (isoTabOf s.model c))
    | none => (s, .status "ValueError")

/-- outputs of a history, one per operation -/
def fRun (s : FState α) : List (FOp α) → List (FState α × FOut α)
  | [] => []
  | op :: rest => let r := fStep s op; r :: fRun r.1 rest

def fFinal (s : FState α) (ops : List (FOp α)) : FState α := ops.foldl (fun st op => (fStep st op).1) s

/-- distances between the stored `_krige_pos` and an isometrized target tuple (`_get_dists(self._krige_pos, iso_pos)`) -/
def distKT (dim : Nat) (kp q : PosTab α) (i p : Nat) : α := Geo.dist dim (colOf kp.tab i) (colOf q.tab p)

/-- distances among the stored `_krige_pos` (`_get_dists(self._krige_pos)`) -/
def distKK (dim : Nat) (kp : PosTab α) (i j : Nat) : α := Geo.dist dim (colOf kp.tab i) (colOf kp.tab j)

/-! ### driver -/

def ops (op : String) (j : Json) : Option (Except String Json) :=
  match op with
  | "pipe_dists" => some (do
      -- the two distance tables a Krige object with (angles, anis) evaluates its covariance on
      let dim ← getNat j "dim"; let n ← getNat j "n"; let m ← getNat j "m"
      let a ← getFloats j "angles"; let s ← getFloats j "anis"
      let cpos ← getFloats j "cpos"; let tpos ← getFloats j "tpos"
      let cc := tab2 (distCC dim a.toList s.toList (ofList2 cpos n)) n n
      let ct := tab2 (distCT dim a.toList s.toList (ofList2 cpos n) (ofList2 tpos m)) n m
      return Json.arr #[fl2 cc, fl2 ct])
  | "pipe_drift" => some (do
      -- the positions a Krige object with (angles, anis) evaluates its functional drift terms at (right-hand sides):
      -- anisometrize(isometrize(targets)); and the isometrized targets themselves (what they must NOT be evaluated at)
      let dim ← getNat j "dim"; let m ← getNat j "m"
      let a ← getFloats j "angles"; let s ← getFloats j "anis"
      let tpos ← getFloats j "tpos"
      let dp := tab2 (driftPos dim a.toList s.toList (ofList2 tpos m)) dim m
      let ip := tab2 (isoPos dim a.toList s.toList (ofList2 tpos m)) dim m
      return Json.arr #[fl2 dp, fl2 ip])
  | "pipe_srf" => some (do
      -- SRF level: generator output at the isometrized positions, and the same sum with transformed wave vectors at the
      -- raw positions; `gen` = "randmeth" (needs `var`) or "fourier" (needs `sf`)
      let dim ← getNat j "dim"; let n ← getNat j "N"; let x ← getNat j "X"
      let a ← getFloats j "angles"; let s ← getFloats j "anis"
      let k ← getFloats j "k"; let z1 ← getFloats j "z1"; let z2 ← getFloats j "z2"; let pos ← getFloats j "pos"
      let g ← getStr j "gen"
      let kk := ofList2 k n
      let kT : Array Float := ((tab2 (modesT dim a.toList s.toList kk) dim n).flatten).toArray
      if g == "randmeth" then
        let var ← getFloat j "var"
        let f1 := fun i => srfRandmeth var kk (ofList z1) (ofList z2) dim a.toList s.toList (ofList2 pos x) n x i
        let f2 := fun i => Gen.randmethField var (ofList2 kT n) (ofList z1) (ofList z2) (ofList2 pos x) dim n x i
        return Json.arr #[fl (tab f1 x), fl (tab f2 x)]
      else
        let sf ← getFloats j "sf"
        let f1 := fun i => srfFourier (ofList sf) kk (ofList z1) (ofList z2) dim a.toList s.toList (ofList2 pos x) n x i
        let f2 := fun i => Gen.fourierField (ofList sf) (ofList2 kT n) (ofList z1) (ofList z2) (ofList2 pos x) dim n x i
        return Json.arr #[fl (tab f1 x), fl (tab f2 x)])
  | "pipe_hist" => some (do
      -- a Field object (SRF / Krige) through a history of in-place model changes, model replacements, calls with / without
      -- positions and set_condition with / without positions; per operation: status | isometrized tuple (+ distances to the
      -- stored _krige_pos) | isometrized conditioning tuple + its distance table
      let dim ← getNat j "dim"; let ls ← getFloats j "len_scale"
      let a ← getFloats j "angles"; let s ← getFloats j "anis"
      let ov ← j.getObjVal? "ops"
      let oa ← ov.getArr?
      let posOf (o : Json) : Except String (Option (PosTab Float)) :=
        match o.getObjVal? "pos" with
        | .ok (Json.arr _) => do
          let n ← getNat o "n"; let p ← getFloats o "pos"
          pure (some ⟨n, ofList2 p n⟩)
        | _ => pure none
      let ops ← oa.mapM fun o => do
        let k ← getStr o "k"
        match k with
        | "anis" => do let v ← getFloats o "v"; pure (FOp.setter (Geo.MOp.setAnis v.toList))
        | "angles" => do let v ← getFloats o "v"; pure (FOp.setter (Geo.MOp.setAngles v.toList))
        | "len" => do let v ← getFloats o "v"; pure (FOp.setter (Geo.MOp.setLenScale v.toList))
        | "dim" => do let d ← getNat o "d"; pure (FOp.setter (Geo.MOp.setDim d))
        | "replace" => do
          let d ← getNat o "dim"; let l ← getFloats o "len_scale"; let an ← getFloats o "anis"; let ag ← getFloats o "angles"
          pure (FOp.replace d l.toList an.toList ag.toList)
        | "call" => do let p ← posOf o; pure (FOp.call p)
        | "cond" => do let p ← posOf o; pure (FOp.setCond p)
        | _ => throw s!"unknown field-history op {k}"
      match Geo.mInit dim ls.toList s.toList a.toList with
      | .error e => return Json.str e
      | .ok m0 =>
        -- tables are materialised once per output (`matOf`); distances are taken between the materialised columns — the same
        -- numbers as `distKT` / `distKK` on the closures, without re-running the rotation loop for every entry
        let matOf (d : Nat) (t : PosTab Float) : Array (Array Float) :=
          (Array.range d).map fun k => (Array.range t.n).map fun i => t.tab k i
        let colA (a : Array (Array Float)) (i : Nat) : Nat → Float := fun k => (a[k]!)[i]!
        let outA (a : Array (Array Float)) : Json := Json.arr (a.map fun row => fl row.toList)
        let outs := (fRun (fInit m0) ops.toList).map fun (r : FState Float × FOut Float) =>
          let d := r.1.model.dim
          match r.2 with
          | .status st => Json.str st
          | .iso q =>
            let qa := matOf d q
            let dct : Json := match r.1.kpos with
              | some kp =>
                let ka := matOf d kp
                fl2 (tab2 (fun i p => Geo.dist d (colA ka i) (colA qa p)) kp.n q.n)
              | none => Json.null
            Json.arr #[Json.str "iso", outA qa, dct]
          | .kpos kp =>
            let ka := matOf d kp
            Json.arr #[Json.str "kpos", outA ka, fl2 (tab2 (fun i j => Geo.dist d (colA ka i) (colA ka j)) kp.n kp.n)]
        return Json.arr outs.toArray)
  | _ => none

end GSV.Model.Pipe
