/- Hand-written executable model (tie B): Vario — the preprocessing glue of `vario_estimate`
   (variogram/variogram.py): common-mask rule, no-data handling, direction normalisation, bandwidth
   default, seeded sub-sampling (indices supplied by numpy), unit conversion of great-circle bins,
   `_separate_dirs_test`, and the binning glue (explicit `bin_edges` or `standard_bins(pos, …, geo_scale,
   bin_no, max_dist)` on the masked / sub-sampled points, bin centres, edges converted to radians).
   What reaches the kernel is what this model returns.  Core Lean only. -/
import GSV.Proto
import GSV.Model.LatLon
open Lean GSV GSV.Proto GSV.Transc
namespace GSV.Model.Vario

variable {α : Type} [Arith α] [Transc α] [DecidableLT α] [DecidableLE α]

/-- `np.isclose(a, b)` with default tolerances: `|a − b| ≤ 1e-8 + 1e-5·|b|` (NaN never close) -/
def isclose (a b : α) : Bool := decide (fabs (a - b) ≤ (1e-8 : α) + (1e-5 : α) * fabs b)

/-- selection rule: a point survives iff it is not in the extra mask and not masked in *all* fields -/
def selectPoint (extraMask : Option (Nat → Bool)) (fmask : Nat → Nat → Bool) (nf : Nat) (p : Nat) : Bool :=
  let allMasked := (List.range nf).all fun m => fmask m p
  match extraMask with
  | some em => !(em p || allMasked)
  | none => !allMasked

/-- the kept point indices, in order -/
def keptPoints (extraMask : Option (Nat → Bool)) (fmask : Nat → Nat → Bool) (nf np : Nat) : List Nat :=
  (List.range np).filter (selectPoint extraMask fmask nf)

/-- value handed to the kernel for field `m`, original point `p`: masked → NaN, then no-data → NaN -/
def cellValue (nan : α) (f : Nat → Nat → α) (fmask : Nat → Nat → Bool) (noData : Option α) (m p : Nat) : α :=
  let v := if fmask m p then nan else f m p
  match noData with
  | some nd => if isclose v nd then nan else v
  | none => v

/-- missing-value rule of `vario_estimate_axis(field, no_data=…)`: a cell takes part in no pair iff it is masked or hits the
    sentinel — `np.isnan(field)` when the sentinel is NaN (the default), `np.isclose(field, no_data)` otherwise.  The sentinel is
    a VALUE: `0`, `0.0`, `-0.0` are sentinels like any other (nothing is decided by their truthiness). -/
def axisMissing (masked : Bool) (noData v : α) : Bool :=
  masked || (if isnan noData then isnan v else isclose v noData)

/-- the prepared (positions, field) as index lists into the original arrays: point list after masking
    and after sub-sampling with the given index vector (`sampled = none`: no sub-sampling) -/
def finalPoints (kept : List Nat) (sampled : Option (List Nat)) : List Nat :=
  match sampled with
  | some idx => idx.map fun i => kept.getD i 0
  | none => kept

/-- direction normalisation `d / ‖d‖` -/
def normDir (d : List α) : List α :=
  let n := sqrt (d.foldl (fun acc x => acc + x * x) ((0:Nat):α))
  d.map (· / n)

def dotL (a b : List α) : α := (a.zip b).foldl (fun acc p => acc + p.1 * p.2) ((0:Nat):α)

/-- `_separate_dirs_test` -/
def separateDirs (dirs : List (List α)) (tol : α) : Bool :=
  let n := dirs.length
  (List.range n).all fun i => (List.range n).all fun j =>
    if i < j then
      let s := fabs (dotL (dirs.getD i []) (dirs.getD j []))
      let s := if ((1:Nat):α) < s then ((1:Nat):α) else s
      decide (acos s ≥ ((2:Nat):α) * tol)
    else true

/-- great-circle bins in an arbitrary length unit are converted to radians -/
def binsToRadians (bins : List α) (latlon : Bool) (geoScale : α) : List α :=
  if latlon then bins.map (· / geoScale) else bins

/-! ### binning glue of `vario_estimate` -/
section bins
variable [LatLon.Asin α]

/-- `(bin_edges[:-1] + bin_edges[1:]) / 2.0` -/
def binCentres (edges : List α) : List α :=
  (edges.zip edges.tail).map fun p => (p.1 + p.2) / ((2:Nat):α)

/-- the bins of one `vario_estimate` call: `binEdges = none` ↔ `bin_edges=None`, then the edges come from
    `standard_bins(pos, dim, latlon, geo_scale=geoScale, bin_no=binNo, max_dist=maxDist)` on the positions `axes`
    that survived masking and sub-sampling.  Everything the caller gives (`bin_edges`, `max_dist`) and gets back
    (bin centres) is in `geo_scale` units; the kernel receives radians.  Returns `(bin_centers, kernel_edges)`. -/
def varioBins (binEdges : Option (List α)) (latlon : Bool) (geoScale : α) (axes : List (List α))
    (binNo : Option Nat) (maxDist : Option α) : Except String (List α × List α) :=
  let edges : Except String (List α) := match binEdges with
    | some e => .ok e
    | none => LatLon.standardBins latlon geoScale (some axes) binNo maxDist
  match edges with
  | .error e => .error e
  | .ok e => .ok (binCentres e, binsToRadians e latlon geoScale)

end bins

/-! ### driver -/

def getBools (j : Json) (k : String) : Except String (Array Bool) := do
  let v ← j.getObjVal? k
  let a ← v.getArr?
  a.mapM fun x => match x with
    | Json.bool b => pure b
    | Json.num n => pure (n.mantissa != 0)
    | _ => throw "bool expected"

def ops (op : String) (j : Json) : Option (Except String Json) :=
  match op with
  | "vario_prep" => some (do
      let nf ← getNat j "F"; let np ← getNat j "P"
      let f ← getFloats j "f"; let fm ← getBools j "fmask"
      let em : Option (Nat → Bool) ← match j.getObjVal? "mask" with
        | .ok (Json.arr _) => do let m ← getBools j "mask"; pure (some (fun p => m[p]!))
        | _ => pure none
      let nd : Option Float ← match j.getObjVal? "no_data" with
        | .ok (Json.num _) => do let x ← getFloat j "no_data"; pure (some x)
        | _ => pure none
      let sampled : Option (List Nat) ← match j.getObjVal? "sampled" with
        | .ok (Json.arr _) => do let a ← getNats j "sampled"; pure (some a.toList)
        | _ => pure none
      let fmask := fun m p => fm[m * np + p]!
      let kept := keptPoints em fmask nf np
      let pts := finalPoints kept sampled
      let nan : Float := 0.0 / 0.0
      let vals := (List.range nf).map fun m => pts.map fun p => cellValue nan (ofList2 f np) fmask nd m p
      return Json.mkObj [("points", Json.arr (pts.map fun (n : Nat) => Json.num (JsonNumber.fromNat n)).toArray),
                         ("field", fl2 vals)])
  | "vario_dirs" => some (do
      let dim ← getNat j "dim"; let nd ← getNat j "D"
      let d ← getFloats j "dir"; let tol ← getFloat j "tol"
      let dirs := (List.range nd).map fun i => (List.range dim).map fun k => d[i * dim + k]!
      let nd' := dirs.map normDir
      return Json.mkObj [("dirs", fl2 nd'), ("separate", Json.bool (separateDirs nd' tol))])
  | "vario_bins_full" => some (do
      -- the whole binning path: masking + sub-sampling select the points standard_bins looks at
      let nf ← getNat j "F"; let np ← getNat j "P"; let dim ← getNat j "dim"
      let fm ← getBools j "fmask"; let x ← getFloats j "pos"
      let em : Option (Nat → Bool) ← match j.getObjVal? "mask" with
        | .ok (Json.arr _) => do let m ← getBools j "mask"; pure (some (fun p => m[p]!))
        | _ => pure none
      let sampled : Option (List Nat) ← match j.getObjVal? "sampled" with
        | .ok (Json.arr _) => do let a ← getNats j "sampled"; pure (some a.toList)
        | _ => pure none
      let ll ← getBool j "latlon"; let gs ← getFloat j "geo_scale"
      let be : Option (List Float) ← match j.getObjVal? "bins" with
        | .ok (Json.arr _) => do let b ← getFloats j "bins"; pure (some b.toList)
        | _ => pure none
      let binNo : Option Nat ← match j.getObjVal? "bin_no" with
        | .ok (Json.num _) => do let n ← getNat j "bin_no"; pure (some n)
        | _ => pure none
      let maxDist : Option Float ← match j.getObjVal? "max_dist" with
        | .ok (Json.num _) => do let m ← getFloat j "max_dist"; pure (some m)
        | _ => pure none
      let fmask := fun m p => fm[m * np + p]!
      let pts := finalPoints (keptPoints em fmask nf np) sampled
      let axes := (List.range dim).map fun d => pts.map fun p => x[d * np + p]!
      match varioBins be ll gs axes binNo maxDist with
      | .ok (c, k) => return Json.mkObj [("centres", fl c), ("kernel", fl k)]
      | .error e => return Json.mkObj [("raised", Json.str e)])
  | "vario_axis_missing" => some (do
      -- the mask `vario_estimate_axis` hands to the masked kernel (cell order of the input)
      let f ← getFloats j "f"; let m ← getBools j "mask"; let nd ← getFloat j "no_data"
      return Json.arr ((List.range f.size).map fun i => Json.bool (axisMissing m[i]! nd f[i]!)).toArray)
  | "vario_bins" => some (do
      let b ← getFloats j "bins"; let ll ← getBool j "latlon"; let gs ← getFloat j "geo_scale"
      return fl (binsToRadians b.toList ll gs))
  | _ => none

end GSV.Model.Vario
