/- Hand-written executable model (tie B): Gen — bookkeeping of the field generators
   (RandMeth / IncomprRandMeth / Fourier in field/generator.py) and of SRF.__call__ (field/srf.py):
   private model copy, seed, mode number, which settings the amplitude / wave-vector arrays were
   derived under, position in the RNG stream (number of nugget-noise draws since the stream was
   last restarted), the position set stored by `Field.set_pos`.  Values are abstract identifiers.
   Core Lean only. -/
import GSV.Proto
import GSV.Gen.Summator
open Lean GSV GSV.Proto
namespace GSV.Model.Gen

/-- a model value as `CovModel.__eq__` sees it: an identifier for everything but the nugget, and the
    nugget level (`0` = no nugget, `k > 0` = the k-th positive nugget value) -/
structure MVal where
  id : Nat
  nug : Nat
deriving DecidableEq, Repr, Inhabited

/-- seed argument of `update` / `reset_seed` / `SRF.__call__`: `keep` = `np.nan` -/
inductive SeedArg where
  | keep
  | set (s : Option Nat)        -- `none` = Python `None` (random seed)
deriving DecidableEq, Repr, Inhabited

/-- what the derived arrays (amplitudes, wave vectors / spectrum factor) depend on.
    For a `None` seed the arrays depend on the fresh entropy of that reseed (`epoch`). -/
structure Derived where
  model : Nat
  seed : Option Nat
  modeNo : Nat
  epoch : Nat          -- 0 for integer seeds; the reseed counter for `None` seeds
deriving DecidableEq, Repr, Inhabited

structure State where
  srfModel : MVal      -- the field object's model (mutable by the user)
  genModel : MVal      -- the generator's private copy
  seed : Option Nat
  modeNo : Nat
  derived : Derived
  epoch : Nat          -- number of reseeds so far
  draws : Nat          -- nugget-noise draws since the last reseed: every noise-drawing call takes ONE sub-stream
                       -- (`RNG.random` = `RandomState(master.randint())`), whatever the number of points
  pos : Option Nat := none   -- identifier of the position set (incl. mesh type) stored on the field object
deriving DecidableEq, Repr, Inhabited

inductive Op where
  | srfCall (seed : SeedArg) (pos : Option Nat) (npts : Nat)   -- SRF.__call__(pos, seed, mesh_type); `some p` identifies (positions, mesh type),
                                              -- `none` = no position argument: the positions stored on the field object are evaluated again
  | setPos (pos : Nat)                        -- Field.set_pos(pos, mesh_type)
  | modelChange (m : MVal)                    -- in-place change of the field's model
  | genSetSeed (s : Option Nat)               -- generator.seed = s
  | genSetModeNo (n : Nat)                    -- generator.mode_no = n
  | genResetSeed (seed : SeedArg)             -- generator.reset_seed(seed)
  | genCall (npts : Nat) (addNugget : Bool)   -- generator(pos, add_nugget)
deriving DecidableEq, Repr, Inhabited

/-- output of a generating call: the token of the summed modes, if noise was drawn the
    (seed, epoch-if-random, index of the sub-stream, number of variates) of the nugget noise, and the position set the
    values belong to (`none` for a direct generator call, whose positions are an explicit argument) -/
structure Out where
  field : Derived
  noise : Option (Option Nat × Nat × Nat × Nat)
  pos : Option Nat := none
  nug : Nat := 0       -- level of the nugget whose noise was added (0: no noise)
deriving DecidableEq, Repr, Inhabited

def derive (m : MVal) (seed : Option Nat) (modeNo epoch : Nat) : Derived :=
  { model := m.id, seed, modeNo, epoch := match seed with | some _ => 0 | none => epoch }

/-- `reset_seed(seed)`: new RNG, arrays recomputed, stream position back to 0 -/
def resetSeed (s : State) (a : SeedArg) : State :=
  let seed := match a with | .keep => s.seed | .set x => x
  let ep := s.epoch + 1
  { s with seed, epoch := ep, draws := 0, derived := derive s.genModel seed s.modeNo ep }

/-- the seed property setter: reseeds only for a different *value* -/
def setSeed (s : State) (x : Option Nat) : State :=
  if x ≠ s.seed then resetSeed s (.set x) else s

/-- `update(model, seed)` -/
def update (s : State) (m : MVal) (a : SeedArg) : State :=
  if s.genModel ≠ m then resetSeed { s with genModel := m } a
  else match a with
    | .keep => s
    | .set x => setSeed s x

/-- `Field.set_pos`: the given positions (and mesh type) are stored, whatever was stored before -/
def setPos (s : State) (p : Nat) : State := { s with pos := some p }

def genCall (s : State) (npts : Nat) (addNugget : Bool) (pos : Option Nat := none) : State × Out :=
  if addNugget ∧ s.genModel.nug ≠ 0 then
    ({ s with draws := s.draws + 1 },
     { field := s.derived, noise := some (s.seed, (match s.seed with | some _ => 0 | none => s.epoch), s.draws, npts), pos,
       nug := s.genModel.nug })
  else (s, { field := s.derived, noise := none, pos })

/-- `SRF.__call__` up to the point where the generator runs: `generator.update(model, seed)`, then `pre_pos`
    (which stores the positions if some are given and otherwise leaves the stored ones) -/
def preCall (s : State) (a : SeedArg) (p : Option Nat) : State :=
  match p with
  | some p => setPos (update s s.srfModel a) p
  | none => update s s.srfModel a

/-- A field-level call evaluates the position set that is stored after `pre_pos` — the given one, or, for a call
    without position argument, the one an earlier call / `set_pos` stored.  The geometry of the field's CURRENT model is
    applied to it (the token of the output carries the generator's model, which `update` has just made the field's
    model).  With nothing stored `pre_pos` raises (`ValueError`, no output) — after `generator.update` has run. -/
def step (s : State) : Op → State × Option Out
  | .srfCall a p n =>
    let s' := preCall s a p
    match s'.pos with
    | some q => ((genCall s' n true (some q)).1, some (genCall s' n true (some q)).2)
    | none => (s', none)
  | .setPos p => (setPos s p, none)
  | .modelChange m => ({ s with srfModel := m }, none)
  | .genSetSeed x => (setSeed s x, none)
  | .genSetModeNo n => (if n ≠ s.modeNo then resetSeed { s with modeNo := n } .keep else s, none)
  | .genResetSeed a => (resetSeed s a, none)
  | .genCall n b => let (s, o) := genCall s n b none; (s, some o)

/-- the state the generator runs in when `op` is a generating call -/
def preGen (s : State) : Op → State
  | .srfCall a p _ => preCall s a p
  | _ => s

/-- what is needed to reproduce an output from a freshly constructed object: its model, seed and mode
    number, and how many noise draws (calls that drew noise) happened since the stream was (re)started -/
structure Recipe where
  model : MVal
  seed : Option Nat
  modeNo : Nat
  burn : Nat
deriving DecidableEq, Repr, Inhabited

def recipe (s : State) : Recipe := { model := s.genModel, seed := s.seed, modeNo := s.modeNo, burn := s.draws }

/-- a freshly constructed `SRF(model, seed=…, mode_no=…)` -/
def init (m : MVal) (seed : Option Nat) (modeNo : Nat) : State :=
  { srfModel := m, genModel := m, seed, modeNo, derived := derive m seed modeNo 1, epoch := 1, draws := 0 }

/-- `k` direct generator calls with nugget (one point each) -/
def burnN : Nat → State → State
  | 0, s => s
  | k + 1, s => burnN k (genCall s 1 true none).1

/-- a freshly constructed object on which `burn` noise-drawing calls have been made -/
def replayState (r : Recipe) : State := burnN r.burn (init r.model r.seed r.modeNo)

def run (s : State) : List Op → State × List (Option Out)
  | [] => (s, [])
  | op :: ops =>
    let (s', o) := step s op
    let (s'', os) := run s' ops
    (s'', o :: os)

/-! ### the numerical glue of the generators (`__call__`, `reset_seed`, `sample_sphere`) -/
section glue
open GSV.Transc
variable {α : Type} [Arith α] [Transc α] [DecidableLT α] [DecidableLE α]

/-- `RandMeth.__call__` without nugget: `sqrt(var / N) · summate(k, z1, z2, pos)` at point `i` -/
def randmethField (var : α) (cov : Nat → Nat → α) (z1 z2 : Nat → α) (pos : Nat → Nat → α) (dim N X i : Nat) : α :=
  sqrt (var / ((N : Nat) : α)) * Summator.summate (id : Sched) cov dim N z1 N z2 N pos dim X i

/-- `Fourier.reset_seed`: `spectrum_factor_j = sqrt(S(|k_j|) · Π Δk)` -/
def spectrumFactor (S : Nat → α) (dk : Nat → α) (dim : Nat) (j : Nat) : α :=
  sqrt ((if S j < ((0:Nat):α) then ((0:Nat):α) else S j) * forRange 1 dim (dk 0) fun d acc => acc * dk d)

/-- `Fourier.__call__` without nugget -/
def fourierField (sf : Nat → α) (modes : Nat → Nat → α) (z1 z2 : Nat → α) (pos : Nat → Nat → α) (dim N X i : Nat) : α :=
  Summator.summate_fourier (id : Sched) sf N modes dim N z1 N z2 N pos dim X i

/-- `get_nugget`: `sqrt(nugget) · ε` for `nugget > 0`, else 0 -/
def nuggetTerm (nugget eps : α) : α := if nugget > ((0:Nat):α) then sqrt nugget * eps else ((0:Nat):α)

/-- `RNG.sample_sphere` for dim 1, 2, 3 from its raw variates:
    dim 1: the sign `s`; dim 2: `(cos a, sin a)`; dim 3: `(√(1−z²) cos a, √(1−z²) sin a, z)` -/
def sampleSphere (dim : Nat) (s a z : α) (d : Nat) : α :=
  if dim = 1 then s
  else if dim = 2 then (if d = 0 then cos a else sin a)
  else (if d = 0 then sqrt (((1:Nat):α) - npow z 2) * cos a
        else if d = 1 then sqrt (((1:Nat):α) - npow z 2) * sin a else z)

end glue

/-! ### driver -/

def optNat (j : Json) (k : String) : Option Nat :=
  match j.getObjVal? k with
  | .ok (Json.num n) => some n.mantissa.toNat
  | _ => none

/-- nugget level: `true`/`false` or a number -/
def nugLevel (j : Json) : Nat :=
  match j.getObjVal? "nug" with
  | .ok (Json.bool b) => if b then 1 else 0
  | .ok (Json.num n) => n.mantissa.toNat
  | _ => 0

def parseSeedArg (j : Json) : SeedArg :=
  match j.getObjVal? "seed" with
  | .ok (Json.str "keep") => .keep
  | .ok (Json.num n) => .set (some n.mantissa.toNat)
  | _ => .set none

def parseOp (j : Json) : Except String Op := do
  let k ← getStr j "k"
  match k with
  | "srf_call" => return .srfCall (parseSeedArg j) (optNat j "pos") (← getNat j "n")
  | "set_pos" => return .setPos (← getNat j "pos")
  | "model" => return .modelChange { id := ← getNat j "id", nug := nugLevel j }
  | "gen_seed" => return .genSetSeed (optNat j "s")
  | "gen_mode_no" => return .genSetModeNo (← getNat j "n")
  | "gen_reset" => return .genResetSeed (parseSeedArg j)
  | "gen_call" => return .genCall (← getNat j "n") (← getBool j "nugget")
  | _ => throw s!"unknown gen op {k}"

def natJ (n : Nat) : Json := Json.num (JsonNumber.fromNat n)
def optJ : Option Nat → Json | some n => natJ n | none => Json.null

def derivedJson (d : Derived) : Json := Json.arr #[natJ d.model, optJ d.seed, natJ d.modeNo, natJ d.epoch]

def outJson (o : Out) : Json :=
  Json.mkObj [("field", derivedJson o.field),
    ("noise", match o.noise with
      | none => Json.null
      | some (s, e, a, n) => Json.arr #[optJ s, natJ e, natJ a, natJ n]),
    ("pos", optJ o.pos), ("nug", natJ o.nug)]

def recipeJson (r : Recipe) : Json :=
  Json.mkObj [("model", natJ r.model.id), ("nug", natJ r.model.nug), ("seed", optJ r.seed), ("mode_no", natJ r.modeNo), ("burn", natJ r.burn)]

def ops (op : String) (j : Json) : Option (Except String Json) :=
  match op with
  | "gen_history" => some (do
      let m : MVal := { id := ← getNat j "model", nug := nugLevel j }
      let seed := optNat j "seed0"
      let mn ← getNat j "mode_no"
      let arr ← (← j.getObjVal? "ops").getArr?
      let opl ← arr.toList.mapM parseOp
      let mut s := init m seed mn
      let mut out : Array Json := #[]
      for o in opl do
        let (s', r) := step s o
        match r with
        | some r =>
          -- what a freshly built object with the current settings would derive its arrays from
          let fresh := derive s'.srfModel s'.seed s'.modeNo s'.epoch
          out := out.push (Json.mkObj [("out", outJson r), ("fresh", derivedJson fresh),
            ("recipe", recipeJson (recipe (preGen s o))), ("stored_pos", optJ s'.pos)])
        | none =>
          match o with
          | .srfCall _ _ _ =>     -- a field-level call without output: `ValueError` (no positions stored)
            out := out.push (Json.mkObj [("error", Json.str "no_pos"), ("stored_pos", optJ s'.pos)])
          | _ => pure ()
        s := s'
      return Json.arr out)
  | "gen_randmeth" => some (do
      let dim ← getNat j "dim"; let n ← getNat j "N"; let x ← getNat j "X"
      let cov ← getFloats j "cov"; let z1 ← getFloats j "z1"; let z2 ← getFloats j "z2"; let pos ← getFloats j "pos"
      let var ← getFloat j "var"
      let f := fun i => randmethField var (ofList2 cov n) (ofList z1) (ofList z2) (ofList2 pos x) dim n x i
      return fl (tab f x))
  | "gen_fourier" => some (do
      let dim ← getNat j "dim"; let n ← getNat j "N"; let x ← getNat j "X"
      let sp ← getFloats j "S"; let dk ← getFloats j "dk"
      let modes ← getFloats j "modes"; let z1 ← getFloats j "z1"; let z2 ← getFloats j "z2"; let pos ← getFloats j "pos"
      let sf := fun jj => spectrumFactor (ofList sp) (ofList dk) dim jj
      let sfa := (Array.range n).map sf
      let f := fun i => fourierField (ofList sfa) (ofList2 modes n) (ofList z1) (ofList z2) (ofList2 pos x) dim n x i
      return Json.arr #[fl (tab sf n), fl (tab f x)])
  | "gen_sphere" => some (do
      let dim ← getNat j "dim"
      let s ← getFloats j "s"; let a ← getFloats j "a"; let z ← getFloats j "z"
      let out := (List.range dim).map fun d => (List.range s.size).map fun i => sampleSphere dim s[i]! a[i]! z[i]! d
      return fl2 out)
  | _ => none

end GSV.Model.Gen
