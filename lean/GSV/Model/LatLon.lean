/- Hand-written executable model (tie B): LatLon.  Core Lean only — no Mathlib import in this file.

   What is modelled (gstools/tools/geometric.py, covmodel/base.py, covmodel/tools.py, variogram/binning.py):
   * `latlon2pos`, `pos2latlon` (with the optional appended time axis), `chordal_to_great_circle`,
     `great_circle_to_chordal`;
   * `CovModel.isometrize / anisometrize` of lat-lon (+ temporal) models and the constructor rules that
     force `dim = 3 (+1)`, spatial isotropy and zero angles;
   * the general-dimension `matrix_isometrize` (Givens product over `rotation_planes`) together with the
     rule of `set_model_angles` that zeroes every angle of a plane touching the time axis;
   * `CovModel.cov_yadrenko`-style composition, the lat-lon branch of `standard_bins`, the lag conversion of
     `fit_variogram`, and the way the kriging matrix / right-hand side are assembled from isometrized positions.
   The haversine kernel itself is NOT re-modelled here: `GSV.Estimator.dist_haversine` (generated from
   estimator.pyx) is used directly. -/
import GSV.Proto
import GSV.Gen.Estimator
open Lean GSV GSV.Proto GSV.Transc
namespace GSV.Model.LatLon

/-- `arcsin` is not part of `Transc`; local operation-only class (Float here, ℝ in `Lemmas/LatLon.lean`). -/
class Asin (α : Type) where
  asin : α → α
export Asin (asin)

instance : Asin Float := ⟨Float.asin⟩

variable {α : Type} [Arith α] [Transc α] [Asin α] [DecidableLT α] [DecidableLE α]

/-! ### scalar helpers -/

/-- `np.deg2rad` : `x * (π / 180)` -/
def deg2rad (x : α) : α := x * ((Transc.pi : α) / ((180:Nat):α))

/-- `np.rad2deg` : `x * (180 / π)` -/
def rad2deg (x : α) : α := x * (((180:Nat):α) / (Transc.pi : α))

/-- `np.maximum(np.minimum(x, hi), lo)` -/
def clip (lo hi x : α) : α :=
  let m : α := if hi < x then hi else x
  if m < lo then lo else m

/-- a point of 3-space -/
structure P3 (α : Type) where
  x : α
  y : α
  z : α

def P3.sub (p q : P3 α) : P3 α := ⟨p.x - q.x, p.y - q.y, p.z - q.z⟩
def P3.normSq (p : P3 α) : α := p.x * p.x + p.y * p.y + p.z * p.z
def P3.dot (p q : P3 α) : α := p.x * q.x + p.y * q.y + p.z * q.z
def P3.toList (p : P3 α) : List α := [p.x, p.y, p.z]

/-- Euclidean (chordal) distance of two points of 3-space -/
def chord (p q : P3 α) : α := sqrt (P3.normSq (P3.sub p q))

/-! ### `latlon2pos` / `pos2latlon` -/

/-- `latlon2pos(latlon, radius)` for one point (degrees in) -/
def latlon2pos (R lat lon : α) : P3 α :=
  let la : α := deg2rad lat
  let lo : α := deg2rad lon
  ⟨R * cos la * cos lo, R * cos la * sin lo, R * sin la * ((1:Nat):α)⟩

/-- `pos2latlon(pos, radius)` for one point (degrees out) -/
def pos2latlon (R : α) (p : P3 α) : α × α :=
  let lat : α := asin (clip (-((1:Nat):α)) ((1:Nat):α) (p.z / R))
  let lon : α := atan2 p.y p.x
  (rad2deg lat, rad2deg lon)

/-- `latlon2pos(…, temporal=True, time_scale=ts)` : the time axis is appended and divided by `ts` -/
def latlon2posT (R ts lat lon t : α) : P3 α × α := (latlon2pos R lat lon, t / ts)

/-- `pos2latlon(…, temporal=True, time_scale=ts)` -/
def pos2latlonT (R ts : α) (p : P3 α) (w : α) : α × α × α :=
  let ll := pos2latlon R p
  (ll.1, ll.2, w * ts)

/-! ### chordal ↔ great-circle -/

/-- `chordal_to_great_circle(dist, radius)` -/
def chordal_to_great_circle (R d : α) : α :=
  let diameter : α := ((2:Nat):α) * R
  diameter * asin (clip ((0:Nat):α) ((1:Nat):α) (d / diameter))

/-- `great_circle_to_chordal(dist, radius)` -/
def great_circle_to_chordal (R d : α) : α :=
  let diameter : α := ((2:Nat):α) * R
  diameter * sin (d / diameter)

/-- `CovModel.cov_yadrenko(zeta)` for a model with isotropic covariance `cov` and `geo_scale = R` -/
def cov_yadrenko (cov : α → α) (R zeta : α) : α := cov (great_circle_to_chordal R zeta)

/-- the haversine kernel of the estimator applied to two lat-lon points (radians out) -/
def haversine (lat1 lon1 lat2 lon2 : α) : α :=
  Estimator.dist_haversine 2 (fun d k => if d = 0 then (if k = 0 then lat1 else lat2) else (if k = 0 then lon1 else lon2)) 2 2 0 1

/-- the argument `a` of the haversine formula, written with squares (used in the theorems) -/
def havArg (lat1 lon1 lat2 lon2 : α) : α :=
  let s1 : α := sin (deg2rad (lat2 - lat1) / ((2:Nat):α))
  let s2 : α := sin (deg2rad (lon2 - lon1) / ((2:Nat):α))
  s1 * s1 + cos (deg2rad lat1) * cos (deg2rad lat2) * (s2 * s2)

/-! ### model state of a lat-lon (+ temporal) `CovModel` -/

/-- `no_of_angles(dim)` -/
def noa (d : Nat) : Nat := d * (d - 1) / 2

/-- `set_dim`: lat-lon forces `3 (+1 if temporal)` -/
def modelDim (latlon temporal : Bool) (dim : Nat) : Nat :=
  if latlon then 3 + (if temporal then 1 else 0) else dim

/-- `field_dim` -/
def fieldDim (latlon temporal : Bool) (dim : Nat) : Nat :=
  if latlon then 2 + (if temporal then 1 else 0) else dim

/-- last clause of `set_len_anis`: "no spatial anisotropy for latlon" (`out_anis[:2] = 1.0`);
    `anis` is the full list of `dim - 1` ratios -/
def modelAnis (latlon : Bool) (anis : List α) : List α :=
  if latlon then (anis.zipIdx).map (fun p => if p.2 < 2 then ((1:Nat):α) else p.1) else anis

/-- `set_model_angles`: lat-lon → all zero; temporal → angles of planes touching the time axis zeroed;
    `angles` is the full list of `no_of_angles(dim)` angles -/
def modelAngles (latlon temporal : Bool) (dim : Nat) (angles : List α) : List α :=
  if latlon then List.replicate (noa dim) ((0:Nat):α)
  else if temporal then (angles.zipIdx).map (fun p => if p.2 < noa (dim - 1) then p.1 else ((0:Nat):α))
  else angles

/-- `anis[-1]` (time scale of a temporal model) -/
def lastAnis (anis : List α) : α := anis.getLastD ((1:Nat):α)

/-- `CovModel.isometrize` of a lat-lon model, one point `[lat, lon]` or `[lat, lon, t]` → list of 3 / 4 coordinates -/
def isometrizeLL (R : α) (temporal : Bool) (anis : List α) (lat lon t : α) : List α :=
  if temporal then
    let r := latlon2posT R (lastAnis anis) lat lon t
    r.1.toList ++ [r.2]
  else (latlon2pos R lat lon).toList

/-- `CovModel.anisometrize` of a lat-lon model -/
def anisometrizeLL (R : α) (temporal : Bool) (anis : List α) (p : P3 α) (w : α) : List α :=
  if temporal then
    let r := pos2latlonT R (lastAnis anis) p w
    [r.1, r.2.1, r.2.2]
  else
    let r := pos2latlon R p
    [r.1, r.2]

/-! ### general-dimension rotation / stretching matrices (`Nat → Nat → α`, entries outside `d × d` unused) -/

abbrev Mat (α : Type) := Nat → Nat → α

def eye : Mat α := fun i j => if i = j then ((1:Nat):α) else ((0:Nat):α)

/-- `rotation_planes(dim)` = `[(i, j) for j in range(1, dim) for i in range(j)]` -/
def planes (d : Nat) : List (Nat × Nat) :=
  (List.range' 1 (d - 1)).flatMap fun j => (List.range j).map fun i => (i, j)

/-- `givens_rotation(dim, plane, angle)` -/
def givens (p : Nat × Nat) (θ : α) : Mat α := fun i j =>
  if i = p.1 ∧ j = p.1 then cos θ
  else if i = p.2 ∧ j = p.2 then cos θ
  else if i = p.1 ∧ j = p.2 then -(sin θ)
  else if i = p.2 ∧ j = p.1 then sin θ
  else eye i j

/-- `np.matmul` of `d × d` matrices -/
def matmul (d : Nat) (A B : Mat α) : Mat α := fun i j =>
  forRange 0 d ((0:Nat):α) fun k acc => acc + A i k * B k j

/-- `(-1) ** i` -/
def altSign (i : Nat) : α := if i % 2 = 0 then ((1:Nat):α) else -((1:Nat):α)

/-- `matrix_derotate(dim, angles)`: `result = result · G(plane_i, (-1)^i · (-angle_i))`, left to right -/
def derotate (d : Nat) (angles : List α) : Mat α :=
  (((angles.zip (planes d)).zipIdx).foldl
    (fun (res : Mat α) (q : (α × (Nat × Nat)) × Nat) => matmul d res (givens q.1.2 (altSign q.2 * (-q.1.1)))) eye)

/-- `matrix_isotropify(dim, anis)` = `diag(1, 1/anis…)` -/
def isotropify (anis : List α) : Mat α := fun i j =>
  if i = j then (if i = 0 then ((1:Nat):α) else ((1:Nat):α) / anis.getD (i - 1) ((1:Nat):α)) else ((0:Nat):α)

/-- `matrix_isometrize(dim, angles, anis)` -/
def matIsometrize (d : Nat) (angles anis : List α) : Mat α :=
  matmul d (isotropify anis) (derotate d angles)

/-- `np.dot(M, pos)` for one point -/
def applyMat (d : Nat) (M : Mat α) (x : Nat → α) : Nat → α := fun i =>
  forRange 0 d ((0:Nat):α) fun k acc => acc + M i k * x k

/-- `CovModel.isometrize` of a metric (non lat-lon) model whose parameters went through the constructor rules -/
def isometrizeMetric (temporal : Bool) (d : Nat) (angles anis : List α) (x : Nat → α) : Nat → α :=
  applyMat d (matIsometrize d (modelAngles false temporal d angles) anis) x

/-- `matrix_rotate(dim, angles)`: `result = G(plane_i, (-1)^i · angle_i) · result`, left to right -/
def rotate (d : Nat) (angles : List α) : Mat α :=
  (((angles.zip (planes d)).zipIdx).foldl
    (fun (res : Mat α) (q : (α × (Nat × Nat)) × Nat) => matmul d (givens q.1.2 (altSign q.2 * q.1.1)) res) eye)

/-- `matrix_anisotropify(dim, anis)` = `diag(1, anis…)` -/
def anisotropify (anis : List α) : Mat α := fun i j =>
  if i = j then (if i = 0 then ((1:Nat):α) else anis.getD (i - 1) ((1:Nat):α)) else ((0:Nat):α)

/-- `matrix_anisometrize(dim, angles, anis)` -/
def matAnisometrize (d : Nat) (angles anis : List α) : Mat α :=
  matmul d (rotate d angles) (anisotropify anis)

/-! ### setters: in-place histories of a lat-lon / temporal / plain `CovModel`

`covmodel/tools.py`: `set_len_anis(dim, len_scale, anis, latlon)`, `set_model_angles(dim, angles, latlon, temporal)`,
`set_dim(model, dim)`; `covmodel/base.py`: the `dim`, `len_scale`, `anis`, `angles` setters.  `latlon`, `temporal`
and `geo_scale` cannot be changed after construction.  A setter that raises leaves the model as it was. -/

/-- `set_angles(dim, angles)`: cut to `no_of_angles(dim)` entries, pad behind with `0` -/
def setAngles (dim : Nat) (angles : List α) : List α :=
  let a := angles.take (noa dim)
  a ++ List.replicate (noa dim - a.length) ((0:Nat):α)

/-- `set_anis(dim, anis)`: cut to `dim - 1` entries, pad in front with `1` -/
def setAnis (dim : Nat) (anis : List α) : List α :=
  let a := anis.take (dim - 1)
  List.replicate (dim - 1 - a.length) ((1:Nat):α) ++ a

/-- `set_model_angles(dim, angles, latlon, temporal)` on what the caller wrote -/
def setModelAngles (latlon temporal : Bool) (dim : Nat) (angles : List α) : List α :=
  modelAngles latlon temporal dim (setAngles dim angles)

/-- `set_len_anis(dim, len_scale, anis, latlon)`: one length scale keeps (pads / cuts) the ratios, several (edge padded
    to `dim`) redefine them as `l[i] / l[0]`; every ratio must be `> 0` (`ValueError`); lat-lon: the two spatial
    ratios are forced to `1` afterwards, the time ratio stays -/
def setLenAnis (latlon : Bool) (dim : Nat) (lenScale anis : List α) : Except String (α × List α) :=
  match lenScale.take dim with
  | [] => .error "IndexError"
  | l0 :: rest =>
    let outAnis :=
      if rest.length = 0 then setAnis dim anis
      else
        let ls := (l0 :: rest) ++ List.replicate (dim - (rest.length + 1)) ((l0 :: rest).getLastD l0)
        (List.range' 1 (dim - 1)).map fun i => ls.getD i l0 / l0
    if outAnis.all (fun a => decide (((0:Nat):α) < a)) then .ok (l0, modelAnis latlon outAnis) else .error "ValueError"

/-- what the geometry of a model object depends on -/
structure MS (α : Type) where
  latlon : Bool
  temporal : Bool
  dim : Nat
  lenScale : α
  anis : List α
  angles : List α

inductive MOp (α : Type) where
  | setAnis (v : List α)
  | setAngles (v : List α)
  | setLenScale (v : List α)
  | setDim (d : Nat)

/-- `CovModel.__init__`: `set_dim` (lat-lon forces 3 (+1)), `set_len_anis`, `set_model_angles`; `dim` is the full
    dimension (`spatial_dim + 1` for temporal models) -/
def msInit (latlon temporal : Bool) (dim : Nat) (ls anis angles : List α) : Except String (MS α) :=
  let d := modelDim latlon temporal dim
  if d < 1 then .error "ValueError" else
  match setLenAnis latlon d ls anis with
  | .error e => .error e
  | .ok (l0, an) => .ok ⟨latlon, temporal, d, l0, an, setModelAngles latlon temporal d angles⟩

/-- one setter call.  `set_dim` re-pads the ratios with `set_len_anis(dim, len_scale, anis)` (without the lat-lon flag:
    the dimension of a lat-lon model cannot change, so nothing moves) and re-normalises the angles with
    `set_model_angles(dim, angles, latlon, temporal)` — a spatial plane of the old dimension can be a space-time
    plane of the new one and is then zeroed. -/
def msStep (s : MS α) : MOp α → Except String (MS α)
  | .setAnis v =>
    match setLenAnis s.latlon s.dim [s.lenScale] v with
    | .error e => .error e
    | .ok (l0, an) => .ok { s with lenScale := l0, anis := an }
  | .setAngles v => .ok { s with angles := setModelAngles s.latlon s.temporal s.dim v }
  | .setLenScale v =>
    match setLenAnis s.latlon s.dim v s.anis with
    | .error e => .error e
    | .ok (l0, an) => .ok { s with lenScale := l0, anis := an }
  | .setDim d =>
    let d' := modelDim s.latlon s.temporal d
    if d' < 1 then .error "ValueError" else
    match setLenAnis false d' [s.lenScale] s.anis with
    | .error e => .error e
    | .ok (l0, an) =>
      .ok { s with dim := d', lenScale := l0, anis := an, angles := setModelAngles s.latlon s.temporal d' s.angles }

def msStepKeep (s : MS α) (op : MOp α) : MS α × String :=
  match msStep s op with
  | .ok s' => (s', "ok")
  | .error e => (s, e)

/-- the states a history walks through, with the status of every call -/
def msRun (s : MS α) : List (MOp α) → List (MS α × String)
  | [] => []
  | op :: rest => let r := msStepKeep s op; r :: msRun r.1 rest

def msFinal (s : MS α) (ops : List (MOp α)) : MS α := ops.foldl (fun st op => (msStepKeep st op).1) s

/-! numpy arrays are data, not closures: the loops of `matrix_rotate` / `matrix_derotate` keep their running `result`
as a table.  `derotateA` … are the same loops as `derotate` … with the `d × d` block materialised after every step
(`Lemmas/LatLon.lean`: they agree with the closure forms on the block); the driver runs these. -/

/-- materialise the `d × d` block of `f` row-major -/
def tabArr (d : Nat) (f : Mat α) : Array α :=
  Array.ofFn (n := d * d) fun k => f (k.val / d) (k.val % d)

/-- read a `d × d` row-major table -/
def ofArr (d : Nat) (a : Array α) : Mat α :=
  fun i j => if h : j < d ∧ j + i * d < a.size then a[j + i * d]'h.2 else ((0:Nat):α)

def derotateA (d : Nat) (angles : List α) : Array α :=
  (((angles.zip (planes d)).zipIdx).foldl
    (fun (res : Array α) (q : (α × (Nat × Nat)) × Nat) =>
      tabArr d (matmul d (ofArr d res) (givens q.1.2 (altSign q.2 * (-q.1.1))))) (tabArr d eye))

def rotateA (d : Nat) (angles : List α) : Array α :=
  (((angles.zip (planes d)).zipIdx).foldl
    (fun (res : Array α) (q : (α × (Nat × Nat)) × Nat) =>
      tabArr d (matmul d (givens q.1.2 (altSign q.2 * q.1.1)) (ofArr d res))) (tabArr d eye))

def matIsometrizeA (d : Nat) (angles anis : List α) : Array α :=
  tabArr d (matmul d (isotropify anis) (ofArr d (derotateA d angles)))

def matAnisometrizeA (d : Nat) (angles anis : List α) : Array α :=
  tabArr d (matmul d (ofArr d (rotateA d angles)) (anisotropify anis))

/-- `CovModel.isometrize` of the CURRENT state for a list of points, each given by its (up to four) coordinates
    (`lat, lon[, t]` for lat-lon models) -/
def msIsometrize (R : α) (s : MS α) (xs : List (Nat → α)) : List (List α) :=
  if s.latlon then xs.map fun x => isometrizeLL R s.temporal s.anis (x 0) (x 1) (x 2)
  else
    let M := matIsometrizeA s.dim s.angles s.anis
    xs.map fun x => tab (applyMat s.dim (ofArr s.dim M) x) s.dim

/-- `CovModel.anisometrize` of the CURRENT state -/
def msAnisometrize (R : α) (s : MS α) (xs : List (Nat → α)) : List (List α) :=
  if s.latlon then xs.map fun x => anisometrizeLL R s.temporal s.anis ⟨x 0, x 1, x 2⟩ (x 3)
  else
    let M := matAnisometrizeA s.dim s.angles s.anis
    xs.map fun x => tab (applyMat s.dim (ofArr s.dim M) x) s.dim

/-! ### kriging assembly on isometrized positions (covariance block only) -/


/-- entry `(i, j)` of the covariance block of the kriging matrix for lat-lon conditioning points:
    `model.covariance(cdist(krige_pos, krige_pos))` with `krige_pos = isometrize(cond_pos)` -/
def krigeEntry (cov : α → α) (R : α) (lat lon : Nat → α) (i j : Nat) : α :=
  cov (chord (latlon2pos R (lat i) (lon i)) (latlon2pos R (lat j) (lon j)))

/-- entry of the right-hand side for a target point -/
def krigeRhs (cov : α → α) (R : α) (lat lon : Nat → α) (tlat tlon : α) (i : Nat) : α :=
  cov (chord (latlon2pos R (lat i) (lon i)) (latlon2pos R tlat tlon))

/-- squared Euclidean distance of two coordinate lists (what `scipy.spatial.distance.cdist` sums) -/
def distSq (a b : List α) : α :=
  ((a.zip b).map fun p => (p.1 - p.2) * (p.1 - p.2)).foldl (fun acc d => acc + d) ((0:Nat):α)

/-- covariance-block entry of the kriging matrix of a lat-lon (+ temporal) model:
    `model.covariance(cdist(isometrize(cond_pos)))` -/
def krigeEntryLL (cov : α → α) (R : α) (temporal : Bool) (anis : List α) (lat lon t : Nat → α) (i j : Nat) : α :=
  cov (sqrt (distSq (isometrizeLL R temporal anis (lat i) (lon i) (t i)) (isometrizeLL R temporal anis (lat j) (lon j) (t j))))

/-- right-hand-side entry for a target `(tlat, tlon, tt)` -/
def krigeRhsLL (cov : α → α) (R : α) (temporal : Bool) (anis : List α) (lat lon t : Nat → α) (tlat tlon tt : α) (i : Nat) : α :=
  cov (sqrt (distSq (isometrizeLL R temporal anis (lat i) (lon i) (t i)) (isometrizeLL R temporal anis tlat tlon tt)))

/-! ### a kriging object on a lat-lon / temporal model between calls

`Krige.set_condition` computes `_krige_pos = model.isometrize(cond_pos)` with the model object AS IT IS AT THAT MOMENT
(`krige/base.py`); `set_condition()` without arguments is the documented refresh after model properties were changed.
`Krige.__call__` isometrizes the given / stored targets with the CURRENT model (`pre_pos`).  The object refers to a
model object: `krige.model.anis = …` changes it in place (`msStep`), `krige.model = m` swaps it (another `geo_scale`,
other parameters).  Nothing else about transformed coordinates is kept. -/

structure KS (α : Type) where
  /-- `geo_scale` of the model object currently held -/
  R : α
  model : MS α
  /-- `Krige.cond_pos`, one point per entry (`lat, lon[, t]` for lat-lon models) -/
  cond : List (Nat → α)
  /-- `Krige._krige_pos` -/
  kpos : List (List α)
  /-- `Field.pos`: the targets of the last call that was given positions -/
  pos : List (Nat → α)

inductive KOp (α : Type) where
  /-- `krige.model.<anis | angles | len_scale | dim> = v` -/
  | setter (op : MOp α)
  /-- `krige.model = Model(latlon, temporal, geo_scale=R, dim, len_scale, anis, angles)` (a raising constructor assigns nothing) -/
  | replace (R : α) (latlon temporal : Bool) (dim : Nat) (ls anis angles : List α)
  /-- `krige.set_condition(cond_pos, …)` / `krige.set_condition()` -/
  | setCond (c : Option (List (Nat → α)))
  /-- `krige(pos)` / `krige()` -/
  | call (p : Option (List (Nat → α)))

inductive KOut (α : Type) where
  | status (s : String)
  | kpos (k : List (List α))
  | iso (q : List (List α))

/-- `Krige(model, cond_pos, …)`: the constructor ends with `set_condition(cond_pos, …)` -/
def ksInit (R : α) (m : MS α) (cond : List (Nat → α)) : KS α := ⟨R, m, cond, msIsometrize R m cond, []⟩

def ksStep (s : KS α) : KOp α → KS α × KOut α
  | .setter op => let r := msStepKeep s.model op; ({ s with model := r.1 }, .status r.2)
  | .replace R ll tm d ls an ag =>
    match msInit ll tm d ls an ag with
    | .ok m => ({ s with R := R, model := m }, .status "ok")
    | .error e => (s, .status e)
  | .setCond (some c) => ({ s with cond := c, kpos := msIsometrize s.R s.model c }, .kpos (msIsometrize s.R s.model c))
  | .setCond none => ({ s with kpos := msIsometrize s.R s.model s.cond }, .kpos (msIsometrize s.R s.model s.cond))
  | .call (some p) => ({ s with pos := p }, .iso (msIsometrize s.R s.model p))
  | .call none => (s, .iso (msIsometrize s.R s.model s.pos))

def ksRun (s : KS α) : List (KOp α) → List (KS α × KOut α)
  | [] => []
  | op :: rest => let r := ksStep s op; r :: ksRun r.1 rest

def ksFinal (s : KS α) (ops : List (KOp α)) : KS α := ops.foldl (fun st op => (ksStep st op).1) s

/-- the distances the covariance block / the right-hand sides are evaluated on: `cdist(_krige_pos, iso_pos)` -/
def distTab (a b : List (List α)) : List (List α) := a.map fun x => b.map fun y => sqrt (distSq x y)

/-- covariance of `gs.Exponential(var, len_scale)` (driver instance of the abstract `cov`) -/
def expCov (var len r : α) : α := var * exp (-(r / len))

/-- `_pre_fitting`: lags of a lat-lon model are converted from great-circle to chordal before the curve fit -/
def fitLag (latlon : Bool) (R x : α) : α := if latlon then great_circle_to_chordal R x else x

/-! ### lat-lon branch of `standard_bins` -/

/-- `int(np.ceil(2 * np.log2(n) + 1))` for `n ≥ 1`, in integer arithmetic:
    the least `k` with `2^(k-1) ≥ n²` -/
def sturges (n : Nat) : Nat :=
  let m := n * n
  let l := Nat.log2 m
  1 + (if 2 ^ l = m then l else l + 1)

def minList (l : List α) (d : α) : α := l.foldl (fun a b => if b < a then b else a) d
def maxList (l : List α) (d : α) : α := l.foldl (fun a b => if a < b then b else a) d

/-- diameter of the bounding box of the 3-D points, converted to a great-circle distance, divided by 3 -/
def stdMaxDist (R : α) (lats lons : List α) : α :=
  let ps : List (P3 α) := (lats.zip lons).map fun q => latlon2pos R q.1 q.2
  let ext (f : P3 α → α) : α :=
    let xs := ps.map f
    let x0 := xs.headD ((0:Nat):α)
    minList xs x0 - maxList xs x0
  let dx := ext P3.x
  let dy := ext P3.y
  let dz := ext P3.z
  let diam : α := sqrt (dx * dx + dy * dy + dz * dz)
  chordal_to_great_circle R diam / ((3:Nat):α)

/-- `np.linspace(0, max_dist, num = n + 1)` : `i * (max_dist / n)`, last entry exactly `max_dist`
    (`num = 1`: the single entry is the start `0`) -/
def linspace0 (maxd : α) (n : Nat) : List α :=
  if n = 0 then [((0:Nat):α)]
  else (List.range (n + 1)).map fun i => if i = n then maxd else ((i:Nat):α) * (maxd / ((n:Nat):α))

/-! ### `standard_bins` with all its arguments (`bin_no`, `max_dist`, `latlon`, `geo_scale`, `pos`)

Every length crossing this interface is in the unit of `geo_scale` (`R`): the `max_dist` argument and the
returned edges.  The automatic cut-off of the lat-lon branch is computed on the sphere of radius `R`
(`latlon2pos(pos, radius = geo_scale)`, `chordal_to_great_circle(diam, geo_scale)`), so it is in that unit
too; a given `max_dist` is used as it is. -/

/-- `box[:, 0] - box[:, 1]` of one axis: `min − max` -/
def axisExt (xs : List α) : α :=
  let x0 := xs.headD ((0:Nat):α)
  minList xs x0 - maxList xs x0

/-- `np.linalg.norm(box[:, 0] - box[:, 1])`, `axes` = list of coordinate axes (`dim` lists of `pnt_cnt` values) -/
def boxDiam (axes : List (List α)) : α :=
  sqrt ((axes.map fun xs => axisExt xs * axisExt xs).foldl (fun a b => a + b) ((0:Nat):α))

/-- the three coordinate axes of `latlon2pos(pos, radius = R)` for `axes = [lats, lons]` -/
def sphereAxes (R : α) (axes : List (List α)) : List (List α) :=
  let ps : List (P3 α) := ((axes.getD 0 []).zip (axes.getD 1 [])).map fun q => latlon2pos R q.1 q.2
  [ps.map P3.x, ps.map P3.y, ps.map P3.z]

/-- `diam` of `standard_bins`: bounding-box diameter; for lat-lon input of the 3-D points on the sphere of radius
    `geo_scale`, converted to a great-circle distance (unit of `geo_scale`) -/
def stdDiam (latlon : Bool) (R : α) (axes : List (List α)) : α :=
  if latlon then chordal_to_great_circle R (boxDiam (sphereAxes R axes)) else boxDiam axes

/-- `standard_bins(pos, dim, latlon, bin_no = binNo, max_dist = maxDist, geo_scale = R)` for unstructured `pos`
    (`pos = none`: no position tuple; for lat-lon `axes = [lats, lons]`).  The position tuple is only looked at when
    one of `bin_no` / `max_dist` is missing; then its absence is a `ValueError`. -/
def standardBins (latlon : Bool) (R : α) (pos : Option (List (List α))) (binNo : Option Nat) (maxDist : Option α) :
    Except String (List α) :=
  match binNo, maxDist with
  | some n, some m => .ok (linspace0 m n)
  | _, _ =>
    match pos with
    | none => .error "ValueError"
    | some axes =>
      let n : Nat := match binNo with
        | some n => n
        | none => sturges (axes.headD []).length
      let m : α := match maxDist with
        | some m => m
        | none => stdDiam latlon R axes / ((3:Nat):α)
      .ok (linspace0 m n)

/-! ### driver operations -/

private def getF (j : Json) (k : String) : Except String Float := getFloat j k

/-- line-protocol operations of this model; `none` = not one of mine -/
def ops (op : String) (j : Json) : Option (Except String Json) :=
  match op with
  | "ll_latlon2pos" => some (do
      let R ← getF j "R"; let lat ← getFloats j "lat"; let lon ← getFloats j "lon"
      let ps := (lat.toList.zip lon.toList).map fun q => (latlon2pos R q.1 q.2).toList
      return fl2 ps)
  | "ll_pos2latlon" => some (do
      let R ← getF j "R"; let x ← getFloats j "x"; let y ← getFloats j "y"; let z ← getFloats j "z"
      let ps := (x.toList.zip (y.toList.zip z.toList)).map fun q =>
        let r := pos2latlon R ⟨q.1, q.2.1, q.2.2⟩
        [r.1, r.2]
      return fl2 ps)
  | "ll_c2g" => some (do
      let R ← getF j "R"; let d ← getFloats j "d"
      return fl (d.toList.map (chordal_to_great_circle R)))
  | "ll_g2c" => some (do
      let R ← getF j "R"; let d ← getFloats j "d"
      return fl (d.toList.map (great_circle_to_chordal R)))
  | "ll_haversine" => some (do
      let a ← getFloats j "lat1"; let b ← getFloats j "lon1"; let c ← getFloats j "lat2"; let d ← getFloats j "lon2"
      let n := a.size
      return fl ((List.range n).map fun i => haversine a[i]! b[i]! c[i]! d[i]!))
  | "ll_havarg" => some (do
      let a ← getFloats j "lat1"; let b ← getFloats j "lon1"; let c ← getFloats j "lat2"; let d ← getFloats j "lon2"
      let n := a.size
      return fl ((List.range n).map fun i => havArg a[i]! b[i]! c[i]! d[i]!))
  | "ll_chord" => some (do
      let R ← getF j "R"
      let a ← getFloats j "lat1"; let b ← getFloats j "lon1"; let c ← getFloats j "lat2"; let d ← getFloats j "lon2"
      let n := a.size
      return fl ((List.range n).map fun i => chord (latlon2pos R a[i]! b[i]!) (latlon2pos R c[i]! d[i]!)))
  | "ll_model" => some (do
      -- constructor rules: dim, field_dim, anis, angles
      let latlon ← getBool j "latlon"; let temporal ← getBool j "temporal"; let dim ← getNat j "dim"
      let anis ← getFloats j "anis"; let angles ← getFloats j "angles"
      let d := modelDim latlon temporal dim
      return Json.arr #[Json.num (JsonNumber.fromNat d), Json.num (JsonNumber.fromNat (fieldDim latlon temporal dim)),
        fl (modelAnis latlon anis.toList), fl (modelAngles latlon temporal d angles.toList)])
  | "ll_isometrize" => some (do
      let R ← getF j "R"; let temporal ← getBool j "temporal"; let anis ← getFloats j "anis"
      let lat ← getFloats j "lat"; let lon ← getFloats j "lon"; let t ← getFloats j "t"
      let n := lat.size
      return fl2 ((List.range n).map fun i => isometrizeLL R temporal anis.toList lat[i]! lon[i]! (t.getD i 0.0)))
  | "ll_anisometrize" => some (do
      let R ← getF j "R"; let temporal ← getBool j "temporal"; let anis ← getFloats j "anis"
      let x ← getFloats j "x"; let y ← getFloats j "y"; let z ← getFloats j "z"; let w ← getFloats j "w"
      let n := x.size
      return fl2 ((List.range n).map fun i => anisometrizeLL R temporal anis.toList ⟨x[i]!, y[i]!, z[i]!⟩ (w.getD i 0.0)))
  | "ll_iso_metric" => some (do
      let temporal ← getBool j "temporal"; let d ← getNat j "dim"
      let anis ← getFloats j "anis"; let angles ← getFloats j "angles"; let x ← getFloats j "x"
      let n := x.size / d
      -- x is point-major: point p has coordinates x[p*d .. p*d+d)
      return fl2 ((List.range n).map fun p =>
        tab (isometrizeMetric temporal d angles.toList anis.toList (fun k => x[p * d + k]!)) d))
  | "ll_iso_matrix" => some (do
      let temporal ← getBool j "temporal"; let d ← getNat j "dim"
      let anis ← getFloats j "anis"; let angles ← getFloats j "angles"
      return fl2 (tab2 (matIsometrize d (modelAngles false temporal d angles.toList) anis.toList) d d))
  | "ll_std_bins" => some (do
      let R ← getF j "R"; let lat ← getFloats j "lat"; let lon ← getFloats j "lon"
      let n := sturges lat.size
      return Json.arr #[Json.num (JsonNumber.fromNat n), fl (linspace0 (stdMaxDist R lat.toList lon.toList) n)])
  | "ll_std_bins2" => some (do
      -- standard_bins with all arguments; absent keys = None; pos is axis-major (dim axes of P values)
      let latlon ← getBool j "latlon"; let R ← getF j "R"
      let pos : Option (List (List Float)) ← match j.getObjVal? "pos" with
        | .ok (Json.arr _) => do
            let dim ← getNat j "dim"; let np ← getNat j "P"; let x ← getFloats j "pos"
            pure (some ((List.range dim).map fun d => (List.range np).map fun p => x[d * np + p]!))
        | _ => pure none
      let binNo : Option Nat ← match j.getObjVal? "bin_no" with
        | .ok (Json.num _) => do let n ← getNat j "bin_no"; pure (some n)
        | _ => pure none
      let maxDist : Option Float ← match j.getObjVal? "max_dist" with
        | .ok (Json.num _) => do let m ← getF j "max_dist"; pure (some m)
        | _ => pure none
      match standardBins latlon R pos binNo maxDist with
      | .ok e => return fl e
      | .error e => return Json.str e)
  | "ll_krige" => some (do
      -- covariance block of the kriging matrix and right-hand side, Exponential covariance
      let R ← getF j "R"; let temporal ← getBool j "temporal"; let anis ← getFloats j "anis"
      let var ← getF j "var"; let len ← getF j "len"
      let lat ← getFloats j "lat"; let lon ← getFloats j "lon"; let t ← getFloats j "t"
      let tlat ← getFloats j "tlat"; let tlon ← getFloats j "tlon"; let tt ← getFloats j "tt"
      let n := lat.size; let nt := tlat.size
      let la := fun i => lat[i]!; let lo := fun i => lon[i]!; let ti := fun i => t.getD i 0.0
      let mat := (List.range n).map fun i => (List.range n).map fun k =>
        krigeEntryLL (expCov var len) R temporal anis.toList la lo ti i k
      let rhs := (List.range n).map fun i => (List.range nt).map fun k =>
        krigeRhsLL (expCov var len) R temporal anis.toList la lo ti tlat[k]! tlon[k]! (tt.getD k 0.0) i
      return Json.arr #[fl2 mat, fl2 rhs])
  | "ll_hist" => some (do
      -- constructor + setter history of a lat-lon / temporal / plain model; after every step: status, state, isometrize of
      -- the points `pos` and anisometrize of the points `q` (both 4 × n row-major tables, first rows used)
      let latlon ← getBool j "latlon"; let temporal ← getBool j "temporal"; let dim ← getNat j "dim"
      let R ← getF j "R"
      let ls ← getFloats j "len_scale"; let anis ← getFloats j "anis"; let angles ← getFloats j "angles"
      let n ← getNat j "n"; let pos ← getFloats j "pos"; let q ← getFloats j "q"
      let ov ← j.getObjVal? "ops"
      let oa ← ov.getArr?
      let ops ← oa.mapM fun o => do
        let k ← getStr o "k"
        match k with
        | "anis" => do let v ← getFloats o "v"; pure (MOp.setAnis v.toList)
        | "angles" => do let v ← getFloats o "v"; pure (MOp.setAngles v.toList)
        | "len" => do let v ← getFloats o "v"; pure (MOp.setLenScale v.toList)
        | "dim" => do let d ← getNat o "d"; pure (MOp.setDim d)
        | _ => throw s!"unknown history op {k}"
      match msInit latlon temporal dim ls.toList anis.toList angles.toList with
      | .error e => return Json.str e
      | .ok s0 =>
        let obs (st : MS Float) (status : String) : Json :=
          let iso := msIsometrize R st ((List.range n).map fun c => fun i => pos.getD (i * n + c) 0.0)
          let ani := msAnisometrize R st ((List.range n).map fun c => fun i => q.getD (i * n + c) 0.0)
          Json.arr #[Json.str status, Json.num (JsonNumber.fromNat st.dim), fbits st.lenScale, fl st.anis, fl st.angles,
            fl2 iso, fl2 ani]
        return Json.arr ((obs s0 "ok") :: (msRun s0 ops.toList).map fun r => obs r.1 r.2).toArray)
  | "ll_krige_hist" => some (do
      -- a Krige object on a lat-lon / temporal / plain model: constructor (= set_condition with positions), then in-place
      -- setters, model replacement (other geo_scale / parameters), set_condition with / without positions, calls with / without
      -- targets; per operation: status | _krige_pos + distances among it | isometrized targets + distances _krige_pos -> targets
      let latlon ← getBool j "latlon"; let temporal ← getBool j "temporal"; let dim ← getNat j "dim"
      let R ← getF j "R"
      let ls ← getFloats j "len_scale"; let anis ← getFloats j "anis"; let angles ← getFloats j "angles"
      let ptsOf (o : Json) : Except String (Option (List (Nat → Float))) :=
        match o.getObjVal? "pos" with
        | .ok (Json.arr _) => do
          let n ← getNat o "n"; let p ← getFloats o "pos"      -- 4 × n row-major table, first rows used
          pure (some ((List.range n).map fun c => fun i => p.getD (i * n + c) 0.0))
        | _ => pure none
      let c0 ← ptsOf j
      let ov ← j.getObjVal? "ops"
      let oa ← ov.getArr?
      let ops ← oa.mapM fun o => do
        let k ← getStr o "k"
        match k with
        | "anis" => do let v ← getFloats o "v"; pure (KOp.setter (MOp.setAnis v.toList))
        | "angles" => do let v ← getFloats o "v"; pure (KOp.setter (MOp.setAngles v.toList))
        | "len" => do let v ← getFloats o "v"; pure (KOp.setter (MOp.setLenScale v.toList))
        | "dim" => do let d ← getNat o "d"; pure (KOp.setter (MOp.setDim d))
        | "replace" => do
          let r ← getF o "R"; let ll ← getBool o "latlon"; let tm ← getBool o "temporal"; let d ← getNat o "dim"
          let l ← getFloats o "len_scale"; let an ← getFloats o "anis"; let ag ← getFloats o "angles"
          pure (KOp.replace r ll tm d l.toList an.toList ag.toList)
        | "cond" => do let p ← ptsOf o; pure (KOp.setCond p)
        | "call" => do let p ← ptsOf o; pure (KOp.call p)
        | _ => throw s!"unknown kriging-history op {k}"
      match msInit latlon temporal dim ls.toList anis.toList angles.toList with
      | .error e => return Json.str e
      | .ok m0 =>
        let s0 := ksInit R m0 (c0.getD [])
        let first := Json.arr #[Json.str "kpos", fl2 s0.kpos, fl2 (distTab s0.kpos s0.kpos)]
        let outs := (ksRun s0 ops.toList).map fun (r : KS Float × KOut Float) =>
          match r.2 with
          | .status st => Json.str st
          | .kpos k => Json.arr #[Json.str "kpos", fl2 k, fl2 (distTab k k)]
          | .iso q => Json.arr #[Json.str "iso", fl2 q, fl2 (distTab r.1.kpos q)]
        return Json.arr (first :: outs).toArray)
  | "ll_fitlag" => some (do
      let R ← getF j "R"; let latlon ← getBool j "latlon"; let x ← getFloats j "x"
      return fl (x.toList.map (fitLag latlon R)))
  | _ => none

end GSV.Model.LatLon
