/- Hand-written executable model (tie B): LatLon.  Core Lean only — no Mathlib import in this file. -/
import GSV.Proto
open Lean GSV GSV.Proto GSV.Transc
namespace GSV.Model.LatLon

/-- line-protocol operations of this model; `none` = not one of mine -/
def ops (op : String) (j : Json) : Option (Except String Json) :=
  match op with
  | _ => none

end GSV.Model.LatLon
