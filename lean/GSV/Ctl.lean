/-
  Control combinators the translator `pyx2lean` targets, and the mutable-array model.
  Core Lean only.  Arrays are total functions on indices (`Nat → β`); an in-place write is `upd`.
  Cython's `boundscheck=False` leaves out-of-range accesses undefined, so nothing is lost by totality;
  the shapes travel as separate `Nat` arguments.
-/
namespace GSV

/-- run `body` over the indices of `l`, left to right -/
def foldIdx {σ : Type} (l : List Nat) (st : σ) (body : Nat → σ → σ) : σ :=
  l.foldl (fun s i => body i s) st

/-- the index list of `range(lo, hi)` -/
def idxRange (lo hi : Nat) : List Nat := List.range' lo (hi - lo)

/-- `for i in range(lo, hi): st = body i st` -/
def forRange {σ : Type} (lo hi : Nat) (st : σ) (body : Nat → σ → σ) : σ :=
  foldIdx (idxRange lo hi) st body

/-- A schedule: the order in which the iterations of a `prange` loop are executed.
    `id` is the sequential meaning.  (Ownership + data-race freedom reduce every OpenMP execution to
    one of these; that reduction is in the trusted base, DESIGN §6.) -/
abbrev Sched := List Nat → List Nat

/-- `for i in prange(lo, hi)` executed in the order chosen by `sched` -/
def parRange {σ : Type} (sched : Sched) (lo hi : Nat) (st : σ) (body : Nat → σ → σ) : σ :=
  foldIdx (sched (idxRange lo hi)) st body

/-- a schedule is admissible when it only reorders the iterations -/
def Sched.Admissible (s : Sched) : Prop := ∀ l, (s l).Perm l

/-- loop with `break`: `body` returns the new state and whether `break` was executed -/
def forRangeBrk {σ : Type} (lo hi : Nat) (st : σ) (body : Nat → σ → σ × Bool) : σ :=
  ((idxRange lo hi).foldl (fun (sb : σ × Bool) i => if sb.2 then sb else body i sb.1) (st, false)).1

/-- `a[i] = v` -/
def upd {β : Type} (a : Nat → β) (i : Nat) (v : β) : Nat → β :=
  fun j => if j = i then v else a j

/-- `a[i, j] = v` -/
def upd2 {β : Type} (a : Nat → Nat → β) (i j : Nat) (v : β) : Nat → Nat → β :=
  fun i' j' => if i' = i ∧ j' = j then v else a i' j'

/-- write a row back: `a[i, :] = r` -/
def setRow {β : Type} (a : Nat → Nat → β) (i : Nat) (r : Nat → β) : Nat → Nat → β :=
  fun i' => if i' = i then r else a i'

/-- tabulate the first `n` cells -/
def tab {β : Type} (a : Nat → β) (n : Nat) : List β := (List.range n).map a

def tab2 {β : Type} (a : Nat → Nat → β) (n m : Nat) : List (List β) :=
  (List.range n).map fun i => tab (a i) m

/-- read-only array from a list (driver side) -/
def ofList {β : Type} [Inhabited β] (l : Array β) : Nat → β := fun i => l[i]!

def ofList2 {β : Type} [Inhabited β] (l : Array β) (cols : Nat) : Nat → Nat → β :=
  fun i j => l[i * cols + j]!

end GSV
