/-
  Operation-only scalar interface.  Model definitions ask for *operations*, never for laws, so the
  same text runs on `Float` (driver), on `Rat` (exact correspondences) and is reasoned about on `ℝ`
  (GSV/RealInst.lean, Mathlib) or on an arbitrary carrier (law-free theorems).
  Core Lean only: no Mathlib import here.
-/
namespace GSV

/-- Non-algebraic operations used by GSTools kernels and closed forms. -/
class Transc (α : Type) where
  sqrt  : α → α
  exp   : α → α
  log   : α → α
  sin   : α → α
  cos   : α → α
  acos  : α → α
  atan2 : α → α → α
  /-- C `pow(x, y)` with a floating exponent -/
  rpow  : α → α → α
  /-- `x ** n` with a literal non-negative integer exponent -/
  npow  : α → Nat → α
  fabs  : α → α
  pi    : α
  /-- C `isnan`; constant `false` on carriers without NaN -/
  isnan : α → Bool

export Transc (sqrt exp log sin cos acos atan2 rpow npow fabs isnan)

/-- The bundle of instances every generated / hand-written model definition is parametrised by.
    Kept as separate standard classes so that at `ℝ` the arithmetic is *syntactically* Mathlib's. -/
class abbrev Arith (α : Type) := Add α, Sub α, Mul α, Div α, Neg α, NatCast α, IntCast α, OfScientific α, LT α, LE α

instance : NatCast Float := ⟨Float.ofNat⟩
instance : IntCast Float := ⟨Float.ofInt⟩

instance : Transc Float where
  sqrt := Float.sqrt
  exp := Float.exp
  log := Float.log
  sin := Float.sin
  cos := Float.cos
  acos := Float.acos
  atan2 := Float.atan2
  rpow x y := if y == 2.0 then x * x else Float.pow x y   -- gcc folds `pow(x, 2.0)` into `x * x`
  -- gcc folds `pow(x, 2.0)` into `x * x` (exactly rounded); other exponents call libm `pow`
  npow x n := if n = 2 then x * x else Float.pow x (Float.ofNat n)
  fabs := Float.abs
  pi := 3.141592653589793
  isnan := Float.isNaN

end GSV
