"""Definitional (pair-enumeration) references for the empirical variogram — used by searches."""
import math
import numpy as np


def haversine(p, i, j):
    d2r = math.pi / 180.0
    dlat = (p[0, j] - p[0, i]) * d2r
    dlon = (p[1, j] - p[1, i]) * d2r
    a = math.sin(dlat / 2) ** 2 + math.cos(p[0, i] * d2r) * math.cos(p[0, j] * d2r) * math.sin(dlon / 2) ** 2
    return 2.0 * math.atan2(math.sqrt(a), math.sqrt(1.0 - a))


def euclid(p, i, j):
    return math.sqrt(sum((p[d, i] - p[d, j]) * (p[d, i] - p[d, j]) for d in range(p.shape[0])))


def normalise(est, s, c):
    c1 = max(c, 1)
    if est == "m":
        return s / (2.0 * c1)
    return 0.5 * (1.0 / c1 * s) ** 4 / (0.457 + 0.494 / c1 + 0.045 / c1 ** 2)


def term(est, d):
    return d * d if est == "m" else math.sqrt(abs(d))


def dir_ok(p, dist, direction, tol, bw, i, j):
    """documented direction test for the pair (i, j): angle to the direction (mod sign) < tol and,
    if bandwidth > 0, distance from the direction line < bandwidth; zero-length pairs always pass"""
    diff = p[:, i] - p[:, j]
    s = float(np.dot(diff, direction))
    in_band = True
    if bw > 0:
        perp = diff - s * direction
        in_band = math.sqrt(float(np.dot(perp, perp))) < bw
    in_angle = True
    if dist > 0:
        t = abs(s) / dist
        if t < 1.0:
            in_angle = math.acos(t) < tol
    return in_band and in_angle


def unstructured(f, bins, pos, est="m", dist="e", scale=1.0):
    """`scale`: length unit of the bins (distance * scale is compared with the edges; 1.0 = the unit of the distance function,
    i.e. radians for dist="h")"""
    nb = len(bins) - 1
    s = np.zeros(nb)
    c = np.zeros(nb, dtype=np.int64)
    P = pos.shape[1]
    dfun = euclid if dist == "e" else haversine
    for j in range(P - 1):
        for k in range(j + 1, P):
            d = dfun(pos, j, k)
            if scale != 1.0:
                d = d * scale
            for i in range(nb):
                if bins[i] <= d < bins[i + 1]:
                    for m in range(f.shape[0]):
                        if not (math.isnan(f[m, k]) or math.isnan(f[m, j])):
                            c[i] += 1
                            s[i] += term(est, f[m, k] - f[m, j])
    return np.array([normalise(est, s[i], c[i]) for i in range(nb)]), c


def great_circle_box_diameter(latlon):
    """great-circle length (radians) of the diagonal of the bounding box of the points on the unit sphere
    (x = cos lat cos lon, y = cos lat sin lon, z = sin lat): the documented 'box diameter' of lat-lon standard bins"""
    la, lo = np.deg2rad(np.asarray(latlon[0], float)), np.deg2rad(np.asarray(latlon[1], float))
    xyz = np.array([np.cos(la) * np.cos(lo), np.cos(la) * np.sin(lo), np.sin(la)])
    chord = math.sqrt(float(np.sum((xyz.max(axis=1) - xyz.min(axis=1)) ** 2)))
    return 2.0 * math.asin(min(chord / 2.0, 1.0))


def directional(f, bins, pos, direction, tol, bw, est="m", first_only=False, zero_first_only=False):
    """every accepting direction is credited (documented); `first_only` credits the first accepting
    direction only; `zero_first_only` does so for zero-length pairs only (finding D15)"""
    nb = len(bins) - 1
    D = direction.shape[0]
    s = np.zeros((D, nb))
    c = np.zeros((D, nb), dtype=np.int64)
    P = pos.shape[1]
    for j in range(P - 1):
        for k in range(j + 1, P):
            d = euclid(pos, j, k)
            for i in range(nb):
                if bins[i] <= d < bins[i + 1]:
                    for dd in range(D):
                        if dir_ok(pos, d, direction[dd], tol, bw, k, j):
                            for m in range(f.shape[0]):
                                if not (math.isnan(f[m, k]) or math.isnan(f[m, j])):
                                    c[dd, i] += 1
                                    s[dd, i] += term(est, f[m, k] - f[m, j])
                            if first_only or (zero_first_only and d == 0):
                                break
    return np.array([[normalise(est, s[dd, i], c[dd, i]) for i in range(nb)] for dd in range(D)]), c


def axis(field2d, est="m", mask=None):
    """field2d: (n0, n1), lags along axis 0"""
    n0, n1 = field2d.shape
    s = np.zeros(n0)
    c = np.zeros(n0, dtype=np.int64)
    for k in range(1, n0):
        for i in range(n0 - k):
            for j in range(n1):
                if mask is not None and (mask[i, j] or mask[i + k, j]):
                    continue
                c[k] += 1
                s[k] += term(est, field2d[i, j] - field2d[i + k, j])
    return np.array([normalise(est, s[k], c[k]) for k in range(n0)])
