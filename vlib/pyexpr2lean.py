#!/usr/bin/env python3
"""pyexpr2lean — translate the one-line numpy formulas of GSTools into Lean 4 definitions (tie A, DESIGN §2.2).

The normalizer formulas (`normalizer/methods.py`), the elementary `cor` / `calc_integral_scale` / spectral
closed forms (`covmodel/models.py`, `covmodel/tpl_models.py`) and the one-line array transforms
(`transform/array.py`) are *regenerated from the current source text* on every run of ./check.  Theorems in
`lean/GSV/Props/GenTie*.lean` prove that the hand-written model functions all property theorems talk about are
equal, for all arguments, to the regenerated definitions; a semantic edit of a formula changes the generated
definition and the equality stops checking.

Method: the function body is executed *symbolically* on Python's own `ast`.  Every array argument stands for one
element (all supported numpy operations are element-wise).  The supported subset:

  * `return e`, local assignments (inlined: renaming or introducing a local variable leaves the output
    byte-identical), `if c: … [elif/else]` on scalar conditions (`np.isclose(self.lmbda, 0)`, `self.lmbda < 0`,
    `self.dim == 2`, `self.nu > 20.0`); an `if` without `return` is handled by continuing both branches;
  * arithmetic, unary minus, `**` / `np.power` (literal non-negative integer or `self.dim` exponent -> `npow`,
    anything else -> `rpow`), `np.exp log sqrt sin cos tan arccos arctan abs sign log1p expm1 minimum maximum add
    subtract multiply divide`, `np.pi`, `±np.inf` inside range tuples, `self.<attr>` (a parameter of the
    generated definition), `np.asarray / np.asanyarray / float` (identity);
  * the boolean-mask pattern `res = np.zeros_like(x)`, `m = x >= 0`, `res[m] = f(x[m])`, `res[~m] = g(x[~m])`,
    `return res`  ->  element-wise `if m then f x else …`; every operand of a masked assignment must be a scalar
    or an array restricted to the very same mask;
  * `sps.<f>(…)` / `erf` / `erfinv`: uninterpreted functions, fields of the parameter `sps : Sps α`;
  * `return None` beside numeric returns -> `Option`;
  * module-level functions (`transform/array.py`): the first argument is the array, the others are scalars; calls of
    other functions of the same module are executed symbolically (inlined); `np.mean(field)` / `np.var(field)` of the
    array argument become scalar parameters `mean_of_field` / `var_of_field`; optional arguments can be fixed per
    target (`static={"a": None}` / `{"conn": "high"}`), `x is None` and string comparisons on them are decided at
    translation time; `if …: warn(…)` statements are skipped (they do not change the returned value).

Nothing is simplified: the operator tree of the generated definition is the operator tree of the source.
Comments, docstrings, blank lines, line breaks, parenthesisation and names of local variables do not influence
the output.  Anything outside the subset raises `Unsupported`; the driver reports it as a broken tie.

usage: pyexpr2lean.py <src_root (…/src/gstools)> <gen_dir>      (writes only when content changes)
"""
import ast
import json
import os
import re
import sys


class Unsupported(Exception):
    pass


# ----------------------------------------------------------------------------- what is translated
# attribute of `self` -> type ('R' scalar of the carrier, 'N' natural number)
ATTR_TYPES = {
    "lmbda": "R", "shift": "R", "alpha": "R", "nu": "R", "hurst": "R",
    "len_rescaled": "R", "len_scale": "R", "len_low": "R", "len_up": "R",
    "len_low_rescaled": "R", "len_up_rescaled": "R", "rescale": "R", "var": "R", "nugget": "R",
    "dim": "N",
}

NORM_MEMBERS = ["normalize_range", "denormalize_range", "_denormalize", "_normalize", "_derivative"]

def T(file, cls, member, name=None, static=None):
    """one translation target.  `name`: name of the generated definition (default `Class.member` / `member`);
    `static`: arguments fixed at translation time, `{"conn": "high"}` (a string) or `{"a": None}` (argument omitted)"""
    return {"file": file, "cls": cls, "member": member,
            "name": name or (f"{cls}.{member}" if cls else member), "static": static or {}}


_M = "covmodel/models.py"
_A = "transform/array.py"

# generated module, the properties whose models are tied to it, targets
MODULES = [
    {"ns": "NormFormulas", "props": ["C18"], "targets": [
        T("normalizer/methods.py", c, m)
        for c in ["LogNormal", "BoxCox", "BoxCoxShift", "YeoJohnson", "Modulus", "Manly"]
        for m in NORM_MEMBERS] + [
        T("normalizer/base.py", "Normalizer", m)
        for m in ["normalize_range", "denormalize_range", "_denormalize", "_normalize"]]},
    {"ns": "CorFormulas", "props": ["C03"], "targets": [
        T(_M, "Gaussian", "cor"), T(_M, "Gaussian", "calc_integral_scale"),
        T(_M, "Exponential", "cor"), T(_M, "Exponential", "calc_integral_scale"),
        T(_M, "Stable", "cor"), T(_M, "Stable", "calc_integral_scale"),
        T(_M, "Matern", "calc_integral_scale"),
        T(_M, "Integral", "calc_integral_scale"),
        T(_M, "Rational", "cor"), T(_M, "Rational", "calc_integral_scale"),
        T(_M, "Cubic", "cor"), T(_M, "Linear", "cor"), T(_M, "Circular", "cor"), T(_M, "Spherical", "cor"),
        T(_M, "HyperSpherical", "cor"), T(_M, "SuperSpherical", "cor"), T(_M, "JBessel", "cor"),
        T("covmodel/tpl_models.py", "TPLSimple", "cor")]},
    {"ns": "SpectralFormulas", "props": ["C04"], "targets": [
        T(_M, "Gaussian", "spectral_density"), T(_M, "Gaussian", "spectral_rad_cdf"),
        T(_M, "Gaussian", "spectral_rad_ppf"),
        T(_M, "Exponential", "spectral_density"), T(_M, "Exponential", "spectral_rad_cdf"),
        T(_M, "Matern", "spectral_density"), T(_M, "JBessel", "spectral_density")]},
    {"ns": "TransformFormulas", "props": ["C19"], "targets": [
        T(_A, None, "array_to_lognormal"),
        T(_A, None, "array_boxcox"),
        T(_A, None, "array_force_moments"),
        T(_A, None, "array_to_uniform"),
        T(_A, None, "_uniform_to_arcsin"),
        T(_A, None, "_uniform_to_uquad"),
        T(_A, None, "array_to_arcsin"),
        T(_A, None, "array_to_arcsin", name="array_to_arcsin_default", static={"a": None, "b": None}),
        T(_A, None, "array_to_uquad"),
        T(_A, None, "array_to_uquad", name="array_to_uquad_default", static={"a": None, "b": None}),
        T(_A, None, "array_zinnharvey", name="array_zinnharvey_high", static={"conn": "high"}),
        T(_A, None, "array_zinnharvey", name="array_zinnharvey_low", static={"conn": "low"})]},
]

# classes whose members may be inherited from a base class defined in another file
BASE_FILES = {"Normalizer": "normalizer/base.py"}

LEAN_KEYWORDS = {"at", "from", "fun", "end", "in", "if", "then", "else", "let", "do", "by", "have", "show", "with",
                 "match", "open", "def", "theorem", "where", "instance", "class", "structure", "local", "export",
                 "import", "namespace", "section", "variable", "universe", "return", "for", "deriving", "using",
                 "sps", "pi"}

# element-wise numpy functions of one argument -> Lean function (scalar interface or GSV/PyExpr.lean)
UNARY = {"exp": "exp", "log": "log", "sqrt": "sqrt", "sin": "sin", "cos": "cos", "arccos": "acos",
         "abs": "fabs", "absolute": "fabs", "fabs": "fabs",
         "sign": "sign", "log1p": "log1p", "expm1": "expm1", "arctan": "arctan", "tan": "tan"}
BINARY_FN = {"minimum": "minimum", "maximum": "maximum"}
ARITH_FN = {"add": "+", "subtract": "-", "multiply": "*", "divide": "/", "true_divide": "/"}
SPS_FN = {"erf": 1, "erfinv": 1, "gamma": 1, "loggamma": 1, "beta": 2, "kv": 2, "jv": 2, "hyp2f1": 4}
IDENTITY_FN = {"asarray", "asanyarray"}
FLOAT_DTYPES = {"np.double", "np.float64", "float", "np.float_"}


# ----------------------------------------------------------------------------- symbolic values
class Val:
    """expr: IR tuple; ty: 'R' | 'N' | 'B' | 'X' (±inf) | 'T' (tuple) | 'O' (None);
    shape: 's' (scalar) | 'e' (one element of an array) | ('m', mask_ir) (array restricted to a mask)"""
    __slots__ = ("expr", "ty", "shape")

    def __init__(self, expr, ty, shape="s"):
        self.expr, self.ty, self.shape = expr, ty, shape


def join_shapes(shapes, what):
    out = "s"
    for s in shapes:
        if s == "s":
            continue
        if out == "s":
            out = s
        elif out != s:
            raise Unsupported(f"{what}: operands live on different index sets (full array vs. masked, or two masks)")
    return out


def dotted(node):
    if isinstance(node, ast.Name):
        return node.id
    if isinstance(node, ast.Attribute):
        b = dotted(node.value)
        return None if b is None else b + "." + node.attr
    return None


class Fn:
    """symbolic execution of one function / class attribute"""

    def __init__(self, modinfo, label, source=None, rel=None):
        self.mod = modinfo      # dict: 'np' alias set, 'sps' alias set, bare sps names
        self.label = label
        self.attrs = {}         # attribute name -> type, in use
        self.reductions = []    # scalar parameters standing for np.mean(<array argument>) / np.var(…)
        self.uses_sps = False
        self.source, self.rel = source, rel     # for inlining calls of functions of the same module
        self.depth = 0

    # ---- coercions
    def to_R(self, v, what):
        if v.ty == "R":
            return v
        if v.ty == "N":
            return Val(("cast", v.expr), "R", v.shape)
        raise Unsupported(f"{self.label}: {what}: expected a number, got type {v.ty}")

    def to_B(self, v, what):
        if v.ty != "B":
            raise Unsupported(f"{self.label}: {what}: expected a boolean")
        return v

    # ---- expressions
    def ev(self, node, env):
        m = getattr(self, "ev_" + type(node).__name__, None)
        if m is None:
            raise Unsupported(f"{self.label}: expression {type(node).__name__}: {ast.unparse(node)}")
        return m(node, env)

    def ev_Constant(self, node, env):
        v = node.value
        if v is None:
            return Val(("none",), "O")
        if isinstance(v, bool):
            raise Unsupported(f"{self.label}: boolean constant")
        if isinstance(v, str):
            return Val(("str", v), "S")
        if isinstance(v, int):
            return Val(("nat", v), "N")
        if isinstance(v, float):
            if v != v or v in (float("inf"), float("-inf")):
                raise Unsupported(f"{self.label}: non-finite literal")
            if v.is_integer() and abs(v) < 2 ** 53:
                return Val(("cast", ("nat", int(v))), "R")
            return Val(("dec", dec_literal(v)), "R")
        raise Unsupported(f"{self.label}: constant {v!r}")

    def ev_Name(self, node, env):
        if node.id in env:
            return env[node.id]
        raise Unsupported(f"{self.label}: unknown name {node.id}")

    def ev_Attribute(self, node, env):
        d = dotted(node)
        if d is None:
            raise Unsupported(f"{self.label}: attribute {ast.unparse(node)}")
        head, _, attr = d.partition(".")
        if head == "self" and "." not in attr:
            if attr not in ATTR_TYPES:
                raise Unsupported(f"{self.label}: unknown attribute self.{attr}")
            self.attrs[attr] = ATTR_TYPES[attr]
            return Val(("var", attr), ATTR_TYPES[attr])
        if head in self.mod["np"]:
            if attr == "pi":
                return Val(("pi",), "R")
            if attr == "inf":
                return Val(("posinf",), "X")
        raise Unsupported(f"{self.label}: attribute {d}")

    def ev_UnaryOp(self, node, env):
        v = self.ev(node.operand, env)
        if isinstance(node.op, ast.USub):
            if v.ty == "X":
                return Val(("neginf",) if v.expr == ("posinf",) else ("posinf",), "X")
            v = self.to_R(v, "unary minus")
            return Val(("neg", v.expr), "R", v.shape)
        if isinstance(node.op, ast.UAdd):
            return self.to_R(v, "unary plus")
        if isinstance(node.op, (ast.Invert, ast.Not)):
            v = self.to_B(v, "negation")
            if isinstance(node.op, ast.Not) and v.shape != "s":
                raise Unsupported(f"{self.label}: `not` on an array")
            if v.expr[0] == "lit":
                return Val(("lit", not v.expr[1]), "B")
            return Val(("not", v.expr), "B", v.shape)
        raise Unsupported(f"{self.label}: unary operator {type(node.op).__name__}")

    def arith(self, op, a, b, what):
        shape = join_shapes([a.shape, b.shape], f"{self.label}: {what}")
        if op in "+*" and a.ty == "N" and b.ty == "N":
            return Val(("bin", op, a.expr, b.expr), "N", shape)
        a, b = self.to_R(a, what), self.to_R(b, what)
        return Val(("bin", op, a.expr, b.expr), "R", shape)

    def power(self, a, b, what):
        shape = join_shapes([a.shape, b.shape], f"{self.label}: {what}")
        a = self.to_R(a, what)
        if b.ty == "N":
            return Val(("npow", a.expr, b.expr), "R", shape)
        b = self.to_R(b, what)
        return Val(("rpow", a.expr, b.expr), "R", shape)

    def ev_BinOp(self, node, env):
        a, b = self.ev(node.left, env), self.ev(node.right, env)
        ops = {ast.Add: "+", ast.Sub: "-", ast.Mult: "*", ast.Div: "/"}
        if type(node.op) in ops:
            return self.arith(ops[type(node.op)], a, b, f"`{ops[type(node.op)]}`")
        if isinstance(node.op, ast.Pow):
            return self.power(a, b, "`**`")
        raise Unsupported(f"{self.label}: binary operator {type(node.op).__name__}")

    def ev_Compare(self, node, env):
        if len(node.ops) != 1:
            raise Unsupported(f"{self.label}: chained comparison")
        a, b = self.ev(node.left, env), self.ev(node.comparators[0], env)
        op = node.ops[0]
        if isinstance(op, (ast.Is, ast.IsNot)) and b.ty == "O":
            return Val(("lit", (a.ty == "O") == isinstance(op, ast.Is)), "B")
        if isinstance(op, (ast.Eq, ast.NotEq)) and a.ty == "S" and b.ty == "S":
            return Val(("lit", (a.expr == b.expr) == isinstance(op, ast.Eq)), "B")
        shape = join_shapes([a.shape, b.shape], f"{self.label}: comparison")
        rel = {ast.Lt: "<", ast.LtE: "≤", ast.Gt: ">", ast.GtE: "≥"}
        if type(op) in rel:
            a, b = self.to_R(a, "comparison"), self.to_R(b, "comparison")
            return Val(("cmp", rel[type(op)], a.expr, b.expr), "B", shape)
        if isinstance(op, (ast.Eq, ast.NotEq)) and a.ty == "N" and b.ty == "N":
            e = ("eqn", a.expr, b.expr)
            return Val(e if isinstance(op, ast.Eq) else ("not", e), "B", shape)
        raise Unsupported(f"{self.label}: comparison {ast.unparse(node)}")

    def ev_BoolOp(self, node, env):
        vals = [self.to_B(self.ev(v, env), "and/or") for v in node.values]
        if any(v.shape != "s" for v in vals):
            raise Unsupported(f"{self.label}: `and`/`or` on arrays")
        tag = "and" if isinstance(node.op, ast.And) else "or"
        e = vals[0].expr
        for v in vals[1:]:
            e = (tag, e, v.expr)
        return Val(e, "B")

    def ev_IfExp(self, node, env):
        c = self.to_B(self.ev(node.test, env), "conditional expression")
        if c.shape != "s":
            raise Unsupported(f"{self.label}: conditional expression on an array condition")
        if c.expr[0] == "lit":
            return self.ev(node.body if c.expr[1] else node.orelse, env)
        a, b = self.ev(node.body, env), self.ev(node.orelse, env)
        if a.ty != b.ty:
            a, b = self.to_R(a, "conditional expression"), self.to_R(b, "conditional expression")
        shape = join_shapes([a.shape, b.shape], f"{self.label}: conditional expression")
        return Val(("ite", c.expr, a.expr, b.expr), a.ty, shape)

    def ev_Tuple(self, node, env):
        elts = []
        for e in node.elts:
            v = self.ev(e, env)
            if v.ty == "X":
                elts.append(v.expr)
            else:
                v = self.to_R(v, "tuple element")
                if v.shape != "s":
                    raise Unsupported(f"{self.label}: array inside a tuple")
                elts.append(("fin", v.expr))
        return Val(("tuple", tuple(elts)), "T")

    def ev_Subscript(self, node, env):
        x = self.ev(node.value, env)
        m = self.ev(node.slice, env)
        if m.ty != "B" or m.shape != "e" or x.shape != "e" or x.ty not in ("R", "B"):
            raise Unsupported(f"{self.label}: subscript {ast.unparse(node)} is not array[boolean mask of the same array]")
        return Val(x.expr, x.ty, ("m", m.expr))

    def kwargs_ok(self, node, allowed_dtype=True):
        for kw in node.keywords:
            if kw.arg == "dtype" and allowed_dtype and dotted(kw.value) in FLOAT_DTYPES:
                continue
            raise Unsupported(f"{self.label}: keyword argument {kw.arg} in {ast.unparse(node)}")

    def ev_Call(self, node, env):
        d = dotted(node.func)
        if d is None:
            raise Unsupported(f"{self.label}: call {ast.unparse(node)}")
        head, _, name = d.rpartition(".")
        args = node.args
        if any(isinstance(a, ast.Starred) for a in args):
            raise Unsupported(f"{self.label}: starred argument")
        is_np = head in self.mod["np"]
        is_sps = head in self.mod["sps"] or (head == "" and name in self.mod["sps_bare"])
        if head == "" and name == "abs":
            is_np = True
        if head == "" and name == "float" and len(args) == 1 and not node.keywords:
            return self.to_R(self.ev(args[0], env), "float()")
        if is_np and name in IDENTITY_FN and len(args) == 1:
            self.kwargs_ok(node)
            return self.ev(args[0], env)
        if is_np and name in ("zeros_like", "ones_like") and len(args) == 1:
            self.kwargs_ok(node)
            x = self.ev(args[0], env)
            if x.shape != "e":
                raise Unsupported(f"{self.label}: {name} of something that is not a full array")
            return Val(("cast", ("nat", 0 if name == "zeros_like" else 1)), "R", "e")
        if is_np and name in UNARY and len(args) == 1:
            self.kwargs_ok(node)
            x = self.to_R(self.ev(args[0], env), name)
            return Val(("call", UNARY[name], (x.expr,)), "R", x.shape)
        if is_np and name in BINARY_FN and len(args) == 2:
            self.kwargs_ok(node, allowed_dtype=False)
            a, b = (self.to_R(self.ev(x, env), name) for x in args)
            shape = join_shapes([a.shape, b.shape], f"{self.label}: np.{name}")
            return Val(("call", BINARY_FN[name], (a.expr, b.expr)), "R", shape)
        if is_np and name in ARITH_FN and len(args) == 2:
            self.kwargs_ok(node, allowed_dtype=False)
            return self.arith(ARITH_FN[name], self.ev(args[0], env), self.ev(args[1], env), f"np.{name}")
        if is_np and name == "power" and len(args) == 2:
            self.kwargs_ok(node, allowed_dtype=False)
            return self.power(self.ev(args[0], env), self.ev(args[1], env), "np.power")
        if is_np and name == "isclose" and len(args) == 2:
            self.kwargs_ok(node, allowed_dtype=False)
            a, b = (self.to_R(self.ev(x, env), "np.isclose") for x in args)
            shape = join_shapes([a.shape, b.shape], f"{self.label}: np.isclose")
            return Val(("isclose", a.expr, b.expr), "B", shape)
        if is_np and name == "logical_not" and len(args) == 1:
            self.kwargs_ok(node, allowed_dtype=False)
            x = self.to_B(self.ev(args[0], env), "np.logical_not")
            return Val(("not", x.expr), "B", x.shape)
        if is_np and name in ("logical_and", "logical_or") and len(args) == 2:
            self.kwargs_ok(node, allowed_dtype=False)
            a, b = (self.to_B(self.ev(x, env), name) for x in args)
            shape = join_shapes([a.shape, b.shape], f"{self.label}: np.{name}")
            return Val(("and" if name == "logical_and" else "or", a.expr, b.expr), "B", shape)
        if is_np and name == "where" and len(args) == 3:
            self.kwargs_ok(node, allowed_dtype=False)
            c = self.to_B(self.ev(args[0], env), "np.where")
            a, b = (self.to_R(self.ev(x, env), "np.where") for x in args[1:])
            shape = join_shapes([c.shape, a.shape, b.shape], f"{self.label}: np.where")
            return Val(("ite", c.expr, a.expr, b.expr), "R", shape)
        if is_sps and name in SPS_FN and len(args) == SPS_FN[name]:
            self.kwargs_ok(node, allowed_dtype=False)
            vs = [self.to_R(self.ev(x, env), name) for x in args]
            shape = join_shapes([v.shape for v in vs], f"{self.label}: {name}")
            self.uses_sps = True
            return Val(("sps", name, tuple(v.expr for v in vs)), "R", shape)
        if is_np and name in ("mean", "var") and len(args) == 1 and not node.keywords:
            x = self.ev(args[0], env)
            if x.expr[0] != "var" or x.shape != "e":
                raise Unsupported(f"{self.label}: np.{name} of something that is not an array argument")
            pname = f"{name}_of_{x.expr[1]}"
            if pname not in self.reductions:
                self.reductions.append(pname)
            return Val(("var", pname), "R", "s")
        if head == "" and self.source is not None and not node.keywords:
            return self.inline(name, [self.ev(a, env) for a in args], node)
        raise Unsupported(f"{self.label}: call {ast.unparse(node)}")

    def inline(self, name, argvals, node):
        """call of another function of the same module: executed symbolically on the argument values"""
        try:
            callee, _, _, _ = self.source.find_member(self.rel, None, name)
        except Unsupported:
            raise Unsupported(f"{self.label}: call {ast.unparse(node)}")
        if self.depth >= 4:
            raise Unsupported(f"{self.label}: call depth")
        a = callee.args
        if a.vararg or a.kwarg or a.kwonlyargs or a.posonlyargs or callee.decorator_list:
            raise Unsupported(f"{self.label}: signature of {name}")
        names = [x.arg for x in a.args]
        if len(argvals) > len(names):
            raise Unsupported(f"{self.label}: too many arguments for {name}")
        env = dict(zip(names, argvals))
        defaults = dict(zip(names[len(names) - len(a.defaults):], a.defaults))
        for n in names[len(argvals):]:
            if n not in defaults:
                raise Unsupported(f"{self.label}: missing argument {n} of {name}")
            env[n] = self.ev(defaults[n], {})
        self.depth += 1
        old_label = self.label
        self.label = f"{old_label} -> {name}"
        try:
            return self.run(list(callee.body), env)
        finally:
            self.depth -= 1
            self.label = old_label

    # ---- statements: returns the IR of the returned value (every path must return)
    def run(self, stmts, env):
        if not stmts:
            raise Unsupported(f"{self.label}: a path through the function does not end in `return`")
        s, rest = stmts[0], stmts[1:]
        if isinstance(s, ast.Expr) and isinstance(s.value, ast.Constant) and isinstance(s.value.value, str):
            return self.run(rest, env)          # docstring / string statement
        if isinstance(s, ast.Pass):
            return self.run(rest, env)
        if isinstance(s, ast.Return):
            if s.value is None:
                return Val(("none",), "O")
            return self.ev(s.value, env)
        if isinstance(s, ast.If) and not s.orelse and all(
                isinstance(x, ast.Expr) and isinstance(x.value, ast.Call)
                and dotted(x.value.func) in ("warn", "warnings.warn") for x in s.body):
            return self.run(rest, env)          # a warning does not change the returned value
        if isinstance(s, ast.If):
            c = self.to_B(self.ev(s.test, env), "if")
            if c.expr[0] == "lit":
                return self.run(list(s.body if c.expr[1] else s.orelse) + rest, env)
            if c.shape != "s":
                raise Unsupported(f"{self.label}: `if` on an array condition")
            a = self.run(list(s.body) + rest, dict(env))
            b = self.run(list(s.orelse) + rest, dict(env))
            return self.merge(c, a, b)
        if isinstance(s, (ast.Assign, ast.AugAssign)):
            if isinstance(s, ast.Assign):
                if len(s.targets) != 1:
                    raise Unsupported(f"{self.label}: multiple assignment targets")
                tgt, val = s.targets[0], self.ev(s.value, env)
            else:
                ops = {ast.Add: "+", ast.Sub: "-", ast.Mult: "*", ast.Div: "/"}
                if type(s.op) not in ops:
                    raise Unsupported(f"{self.label}: augmented assignment {type(s.op).__name__}")
                tgt = s.target
                load = ast.parse(ast.unparse(tgt), mode="eval").body      # same target in load context
                val = self.arith(ops[type(s.op)], self.ev(load, env), self.ev(s.value, env), "augmented assignment")
            env = dict(env)
            if isinstance(tgt, ast.Name):
                env[tgt.id] = val
            elif isinstance(tgt, (ast.Tuple, ast.List)) and all(isinstance(x, ast.Name) for x in tgt.elts) \
                    and val.ty == "T" and val.expr[0] == "tuple" and len(val.expr[1]) == len(tgt.elts):
                # tuple unpacking of a (helper's) returned tuple of scalars
                for x, e in zip(tgt.elts, val.expr[1]):
                    env[x.id] = Val(e[1], "R", "s") if e[0] == "fin" else Val(e, "X")
            elif isinstance(tgt, ast.Subscript) and isinstance(tgt.value, ast.Name):
                old = self.ev(tgt.value, env)
                m = self.ev(tgt.slice, env)
                if old.shape != "e" or old.ty != "R" or m.ty != "B" or m.shape != "e":
                    raise Unsupported(f"{self.label}: assignment {ast.unparse(tgt)} is not array[boolean mask] = …")
                val = self.to_R(val, "masked assignment")
                if val.shape not in ("s", ("m", m.expr)):
                    raise Unsupported(f"{self.label}: right-hand side of {ast.unparse(tgt)} = … is not restricted to the same mask")
                env[tgt.value.id] = Val(("ite", m.expr, val.expr, old.expr), "R", "e")
            else:
                raise Unsupported(f"{self.label}: assignment target {ast.unparse(tgt)}")
            return self.run(rest, env)
        raise Unsupported(f"{self.label}: statement {type(s).__name__}: {ast.unparse(s).splitlines()[0]}")

    def merge(self, c, a, b):
        tys = {a.ty, b.ty}
        if tys <= {"R", "N"}:
            if a.ty != b.ty:
                a, b = self.to_R(a, "return"), self.to_R(b, "return")
            ty = a.ty
        elif tys <= {"R", "N", "O", "O?"}:
            a = self.to_R(a, "return") if a.ty == "N" else a
            b = self.to_R(b, "return") if b.ty == "N" else b
            ty = "O" if tys == {"O"} else "O?"
        elif a.ty == b.ty:
            ty = a.ty
        else:
            raise Unsupported(f"{self.label}: branches return different kinds of values")
        if a.shape != "s" and b.shape != "s" and a.shape != b.shape:
            raise Unsupported(f"{self.label}: branches return arrays on different index sets")
        shape = a.shape if a.shape != "s" else b.shape
        return Val(("site", c.expr, a.expr, b.expr), ty, shape)


def dec_literal(v):
    """deterministic Lean scientific literal of a non-integral finite double (shortest round-trip digits)"""
    r = repr(v)
    if "e" in r or "E" in r:
        mant, _, ex = r.lower().partition("e")
        return f"{mant}e{int(ex)}"
    return r


# ----------------------------------------------------------------------------- rendering
def nat_expr(e):
    k = e[0]
    if k == "nat":
        return str(e[1])
    if k == "var":
        return lean_name(e[1])
    if k == "bin":
        return f"({nat_expr(e[2])} {e[1]} {nat_expr(e[3])})"
    raise Unsupported(f"natural-number expression {e!r}")


def lean_name(n):
    return n + "_" if n in LEAN_KEYWORDS else n


def rx(e):
    """IR -> Lean term (fully parenthesised)"""
    k = e[0]
    if k == "cast":
        return f"(({nat_expr(e[1])}:Nat):α)"
    if k == "dec":
        return f"({e[1]}:α)"
    if k == "var":
        return lean_name(e[1])
    if k == "pi":
        return "(pi : α)"
    if k == "neg":
        return f"(-{rx(e[1])})"
    if k == "bin":
        return f"({rx(e[2])} {e[1]} {rx(e[3])})"
    if k == "npow":
        return f"(npow {rx(e[1])} {nat_expr(e[2])})"
    if k == "rpow":
        return f"(rpow {rx(e[1])} {rx(e[2])})"
    if k == "call":
        return "(" + e[1] + "".join(" " + rx(a) for a in e[2]) + ")"
    if k == "sps":
        return "(sps." + e[1] + "".join(" " + rx(a) for a in e[2]) + ")"
    if k in ("ite", "site"):
        return f"(if {bx(e[1])} then {rx(e[2])} else {rx(e[3])})"
    if k == "tuple":
        return "(" + ", ".join(rx(x) for x in e[1]) + ")"
    if k == "fin":
        return f"Ext.fin {rx(e[1])}"
    if k == "posinf":
        return "Ext.posInf"
    if k == "neginf":
        return "Ext.negInf"
    if k == "none":
        return "none"
    if k in ("nat",):
        raise Unsupported("a bare integer where a number of the carrier is needed")
    raise Unsupported(f"cannot render {e!r}")


def bx(e):
    """boolean IR -> Lean proposition"""
    k = e[0]
    if k == "cmp":
        return f"{rx(e[2])} {e[1]} {rx(e[3])}"
    if k == "eqn":
        return f"{nat_expr(e[1])} = {nat_expr(e[2])}"
    if k == "isclose":
        return f"isclose {rx(e[1])} {rx(e[2])} = true"
    if k == "not":
        return f"¬({bx(e[1])})"
    if k in ("and", "or"):
        return f"({bx(e[1])}) {'∧' if k == 'and' else '∨'} ({bx(e[2])})"
    raise Unsupported(f"cannot render condition {e!r}")


def strip_outer(e):
    """render without the redundant outer pair of parentheses of a composite term"""
    s = rx(e)
    if e[0] in ("bin", "npow", "rpow", "call", "sps", "ite") and s.startswith("(") and s.endswith(")"):
        return s[1:-1]
    return s


def render_body(e, option, ind):
    """statement-level rendering: `site` (python `if`) chains over several lines"""
    pad = " " * ind
    if e[0] == "site":
        return (f"{pad}if {bx(e[1])} then\n{render_body(e[2], option, ind + 2)}\n"
                f"{pad}else\n{render_body(e[3], option, ind + 2)}")
    if option and e[0] != "none":
        return f"{pad}some {rx(e)}"
    return pad + strip_outer(e)


def render_def(name, fn, val, args):
    params = []
    if fn.uses_sps:
        params.append("(sps : Sps α)")
    for a in sorted(fn.attrs):
        params.append(f"({lean_name(a)} : {'Nat' if fn.attrs[a] == 'N' else 'α'})")
    for a in sorted(fn.reductions):
        params.append(f"({lean_name(a)} : α)")
    for a in args:
        params.append(f"({lean_name(a)} : α)")
    clash = (set(lean_name(a) for a in fn.attrs) | set(fn.reductions)) & set(lean_name(a) for a in args)
    if clash:
        raise Unsupported(f"{fn.label}: argument and attribute share the name {sorted(clash)}")
    if val.ty == "T":
        n = tuple_arity(val.expr)
        rty = " × ".join(["Ext α"] * n)
        option = False
    elif val.ty == "O?":
        rty, option = "Option α", True
    elif val.ty in ("R", "N"):
        rty, option = "α", False
    else:
        raise Unsupported(f"{fn.label}: returns a value of kind {val.ty}")
    e = val.expr
    if val.ty == "N":
        e = ("cast", e)
    sig = f"def {name}" + "".join(" " + p for p in params) + f" : {rty} :="
    return sig + "\n" + render_body(e, option, 2) + "\n"


def tuple_arity(e):
    if e[0] == "tuple":
        return len(e[1])
    if e[0] in ("site", "ite"):
        a, b = tuple_arity(e[2]), tuple_arity(e[3])
        if a != b:
            raise Unsupported("tuples of different lengths")
        return a
    raise Unsupported("mixed tuple / non-tuple returns")


# ----------------------------------------------------------------------------- front end
def module_info(tree):
    info = {"np": set(), "sps": set(), "sps_bare": set()}
    for s in tree.body:
        if isinstance(s, ast.Import):
            for a in s.names:
                if a.name == "numpy":
                    info["np"].add(a.asname or "numpy")
                if a.name == "scipy.special" and a.asname:
                    info["sps"].add(a.asname)
        elif isinstance(s, ast.ImportFrom):
            if s.module == "scipy":
                for a in s.names:
                    if a.name == "special":
                        info["sps"].add(a.asname or "special")
            if s.module == "scipy.special":
                for a in s.names:
                    if a.name in SPS_FN and a.asname in (None, a.name):
                        info["sps_bare"].add(a.name)
    return info


class Source:
    def __init__(self, src_root):
        self.root = src_root
        self.cache = {}

    def load(self, rel):
        if rel not in self.cache:
            with open(os.path.join(self.root, rel)) as fh:
                tree = ast.parse(fh.read())
            self.cache[rel] = (tree, module_info(tree))
        return self.cache[rel]

    def find_class(self, rel, cls):
        tree, info = self.load(rel)
        for s in tree.body:
            if isinstance(s, ast.ClassDef) and s.name == cls:
                return s, info
        raise Unsupported(f"class {cls} not found in {rel}")

    def find_member(self, rel, cls, member, depth=0):
        """-> (node, module info, rel file it was found in, defining class)"""
        if cls is None:
            tree, info = self.load(rel)
            for s in tree.body:
                if isinstance(s, ast.FunctionDef) and s.name == member:
                    return s, info, rel, None
            raise Unsupported(f"function {member} not found in {rel}")
        node, info = self.find_class(rel, cls)
        found = None
        for s in node.body:
            if isinstance(s, ast.FunctionDef) and s.name == member:
                found = s
            elif isinstance(s, ast.Assign) and len(s.targets) == 1 and isinstance(s.targets[0], ast.Name) \
                    and s.targets[0].id == member:
                found = s
            elif isinstance(s, ast.AnnAssign) and isinstance(s.target, ast.Name) and s.target.id == member \
                    and s.value is not None:
                found = s
        if found is not None:
            return found, info, rel, cls
        if depth < 3:
            for b in node.bases:
                bname = dotted(b)
                if bname is None:
                    continue
                bname = bname.split(".")[-1]
                tree, _ = self.load(rel)
                if any(isinstance(s, ast.ClassDef) and s.name == bname for s in tree.body):
                    return self.find_member(rel, bname, member, depth + 1)
                if bname in BASE_FILES:
                    return self.find_member(BASE_FILES[bname], bname, member, depth + 1)
        raise Unsupported(f"{cls}.{member} not found in {rel} (nor in a known base class)")


def translate_member(source, t):
    """-> lean definition text (with its provenance comment)"""
    rel, cls, member, name = t["file"], t["cls"], t["member"], t["name"]
    node, info, where, defcls = source.find_member(rel, cls, member)
    label = f"{cls}.{member}" if cls else member
    fn = Fn(info, label, source, where)      # module-level helpers of the defining file are inlined (methods too)
    static = ""
    if isinstance(node, ast.FunctionDef):
        a = node.args
        if a.vararg or a.kwarg or a.kwonlyargs or a.posonlyargs:
            raise Unsupported(f"{label}: unusual signature")
        names = [x.arg for x in a.args]
        if cls is not None:
            if not names or names[0] != "self":
                raise Unsupported(f"{label}: first argument is not self")
            names = names[1:]
        deco = [dotted(d) for d in node.decorator_list]
        if any(d != "property" for d in deco):
            raise Unsupported(f"{label}: decorator {deco}")
        if "property" in deco and names:
            raise Unsupported(f"{label}: property with arguments")
        for k in t["static"]:
            if k not in names:
                raise Unsupported(f"{label}: no argument {k}")
        # the first argument is the array (one element of it), the others are scalars
        env, params = {}, []
        for pos, n in enumerate(names):
            if n in t["static"]:
                v = t["static"][n]
                env[n] = Val(("none",), "O") if v is None else Val(("str", v), "S")
            else:
                env[n] = Val(("var", n), "R", "e" if pos == 0 else "s")
                params.append(n)
        if t["static"]:
            static = " with " + ", ".join(f"{k}={v!r}" for k, v in sorted(t["static"].items()))
        names = params
        val = fn.run(list(node.body), env)
        kind = "property" if "property" in deco else ("method" if cls else "function")
    else:
        names = []
        val = fn.ev(node.value, {})
        kind = "class attribute"
    inherited = "" if defcls == cls else f", inherited from {defcls} ({source_path(source.root, where)})"
    text = render_def(name, fn, val, names)
    return f"/-- {kind} `{label}`{static}{inherited} -/\n" + text


def source_path(src_root, rel):
    """path named in the generated header: relative to the repo root"""
    path = os.path.join(src_root, rel)
    root = os.environ.get("GSV_REPO", "/repo")
    if os.path.abspath(path).startswith(os.path.abspath(root) + os.sep):
        return os.path.relpath(os.path.abspath(path), os.path.abspath(root))
    return os.path.join("src", "gstools", rel)


HEADER = """/- GENERATED by vlib/pyexpr2lean.py from {files} — do not edit.
   Regenerated from the current source on every run of ./check (tie A, DESIGN §2.2).
   Every array argument stands for one element; the numpy vocabulary is defined in GSV/PyExpr.lean. -/
import GSV.Scalar
import GSV.PyExpr

set_option linter.unusedVariables false

namespace GSV.Gen.{ns}
open GSV GSV.Transc GSV.PyExpr

variable {{α : Type}} [Arith α] [Transc α] [DecidableLT α] [DecidableLE α]

"""


def translate_module(src_root, mod):
    """-> (text, broken list)"""
    source = Source(src_root)
    ns, targets = mod["ns"], mod["targets"]
    files = []
    for t in targets:
        if t["file"] not in files:
            files.append(t["file"])
    out = [HEADER.format(files=", ".join(source_path(src_root, f) for f in files), ns=ns)]
    broken = []
    for t in targets:
        rel = t["file"]
        label = f"{t['cls']}.{t['member']}" if t["cls"] else t["member"]
        try:
            out.append(translate_member(source, t) + "\n")
        except Unsupported as e:
            stale = baseline_blocks().get(ns, {}).get(t["name"])
            if stale is not None:
                # the member is written in a construct outside the supported subset.  The definition translated from the last
                # supported revision is kept, so the theorems keep talking about the same function; whether the code still computes
                # that function is then decided by the Float correspondence of the hand model (tie B) alone.  Reported as a degraded
                # tie, not as a broken one.
                broken.append({"kind": "translator-degraded", "file": rel, "props": mod["props"], "member": label,
                               "detail": f"pyexpr2lean: unsupported: {e} — definition of the last supported revision kept, tie B decides"})
                out.append(f"-- STALE: `{label}` ({source_path(src_root, rel)}) is outside the supported subset; the definition below is "
                           f"the translation of the last supported revision (vlib/gen_baseline.json)\n" + stale.rstrip("\n") + "\n\n")
                continue
            broken.append({"kind": "translator", "file": rel, "props": mod["props"],
                           "detail": f"pyexpr2lean: unsupported: {e}"})
            out.append(f"-- `{label}` ({source_path(src_root, rel)}) is outside the supported subset: "
                       f"no definition `{t['name']}` generated\n\n")
        except Exception as e:  # syntax errors, missing files
            broken.append({"kind": "translator", "file": rel, "props": mod["props"],
                           "detail": f"pyexpr2lean: {label}: {type(e).__name__}: {e}"})
            out.append(f"-- `{label}` ({source_path(src_root, rel)}) could not be read: "
                       f"no definition `{t['name']}` generated\n\n")
    out.append(f"end GSV.Gen.{ns}\n")
    return "".join(out), broken


_BASELINE = None


def blocks_of(text):
    """generated file -> {definition name: its block (docstring + def)}"""
    out = {}
    parts = re.split(r"(?m)^(?=/-- (?:method|function|property|class attribute) )", text)
    for part in parts[1:]:
        part = re.split(r"(?m)^end GSV\.Gen\.", part)[0]
        m = re.search(r"(?m)^(?:noncomputable )?def ([^\s(]+)", part)
        if m:
            out[m.group(1)] = part.rstrip("\n") + "\n"
    return out


def baseline_blocks():
    """translation of the last supported revision of every member (written by `pyexpr2lean.py --baseline <src> `)"""
    global _BASELINE
    if _BASELINE is None:
        p = os.path.join(os.path.dirname(os.path.abspath(__file__)), "gen_baseline.json")
        try:
            with open(p) as fh:
                _BASELINE = json.load(fh)
        except Exception:
            _BASELINE = {}
    return _BASELINE


def write_baseline(src_root):
    base = {}
    for mod in MODULES:
        txt, b = translate_module(src_root, mod)
        if any(x["kind"] != "translator-degraded" for x in b) or b:
            raise SystemExit(f"baseline: {mod['ns']} does not translate completely: {b}")
        base[mod["ns"]] = blocks_of(txt)
    with open(os.path.join(os.path.dirname(os.path.abspath(__file__)), "gen_baseline.json"), "w") as fh:
        json.dump(base, fh, indent=0, sort_keys=True)
    print("baseline:", {k: len(v) for k, v in base.items()})


def regenerate_all(src_root, gen_dir):
    """translate every module; write files whose content changed.  -> (broken, changed)
    `broken` entries carry `props`: the properties whose models are tied to the failing definition."""
    broken, changed = [], []
    for mod in MODULES:
        txt, b = translate_module(src_root, mod)
        broken += b
        dst = os.path.join(gen_dir, mod["ns"] + ".lean")
        old = None
        if os.path.exists(dst):
            with open(dst) as fh:
                old = fh.read()
        if old != txt:
            with open(dst, "w") as fh:
                fh.write(txt)
            changed.append(mod["ns"])
    return broken, changed


def main():
    if sys.argv[1] == "--baseline":
        global _BASELINE
        _BASELINE = {}
        write_baseline(sys.argv[2])
        return
    src_root, gen_dir = sys.argv[1:3]
    os.makedirs(gen_dir, exist_ok=True)
    broken, changed = regenerate_all(src_root, gen_dir)
    for b in broken:
        print(f"pyexpr2lean: {'DEGRADED' if b['kind'] == 'translator-degraded' else 'BROKEN'} {b['file']}: {b['detail']}", file=sys.stderr)
    print("pyexpr2lean: changed:", changed)
    sys.exit(3 if any(b["kind"] != "translator-degraded" for b in broken) else 0)


if __name__ == "__main__":
    main()
