"""Common machinery of ./check: regenerate (tie A), build, audit, correspondence, search, verdict, evidence."""
import fcntl
import hashlib
import importlib
import json
import os
import re
import subprocess
import sys
import time
import traceback

VERIF = os.path.dirname(os.path.dirname(os.path.abspath(__file__)))
LEAN = os.environ.get("GSV_LEAN") or os.path.join(VERIF, "lean")   # GSV_LEAN: private copy of the Lean project (development aid: scratch-tree runs)
REPO = os.environ.get("GSV_REPO", "/repo")
OUT = os.environ.get("GSV_OUT", VERIF)     # where evidence/ and replays/ are written (development aid: mutant runs)
SRC = os.path.join(REPO, "src", "gstools")
ALLOWED_AXIOMS = {"propext", "Classical.choice", "Quot.sound"}
FORBIDDEN = re.compile(r"\b(sorry|admit|native_decide|bv_decide|implemented_by|unsafe)\b|^\s*axiom\s|maxHeartbeats\s+0\b")

KERNELS = [("field/summator.pyx", "Summator"), ("krige/krigesum.pyx", "Krigesum"),
           ("variogram/estimator.pyx", "Estimator")]

TRUSTED_BASE = [
    "Lean 4.33 kernel and Mathlib v4.33 as compiled on the image; axioms propext, Classical.choice, Quot.sound only",
    "translators vlib/pyx2lean.py, vlib/pyexpr2lean.py and the combinators of GSV/Ctl.lean define what the Cython subset / numpy one-liners mean",
    "correspondence harnesses (vlib/props/*.py), their generators and tolerances; the compiled driver lean/Driver.lean",
    "same definition executed on Float/Rat and proved on the reals (parametricity); IEEE rounding is not modelled except in law-free theorems",
    "scipy/numpy/hankel/emcee, Cython code generation, OpenMP runtime, gcc, glibc libm are parameters with stated assumptions",
]


def lake_lock():
    fh = open(os.path.join(LEAN, ".lake.lock"), "w")
    fcntl.flock(fh, fcntl.LOCK_EX)
    return fh


def sh(cmd, cwd=None, timeout=3600, env=None):
    p = subprocess.run(cmd, cwd=cwd, capture_output=True, text=True, timeout=timeout, env=env)
    out = "\n".join(l for l in (p.stdout + p.stderr).split("\n") if "conda.cli.condarc" not in l)
    return p.returncode, out


class Ctx:
    def __init__(self, prop, tier, seed):
        self.prop, self.tier, self.seed = prop, tier, seed
        self.t0 = time.time()
        self.notes = []
        self.quick = tier == "quick"

    def log(self, *a):
        print(f"[{self.prop} {time.time() - self.t0:6.1f}s]", *a, flush=True)

    def scale(self, quick, thorough):
        return quick if self.quick else thorough


# ------------------------------------------------------------------ tie A: regenerate
def regenerate(ctx):
    """run the translators on the current /repo sources; returns list of broken-tie descriptions"""
    sys.path.insert(0, os.path.join(VERIF, "vlib"))
    import pyx2lean
    broken = []
    changed = []
    for rel, ns in KERNELS:
        src = os.path.join(SRC, rel)
        dst = os.path.join(LEAN, "GSV", "Gen", ns + ".lean")
        try:
            txt = pyx2lean.translate_file(src, ns)
        except pyx2lean.Unsupported as e:
            broken.append({"kind": "translator", "file": rel, "detail": f"pyx2lean: unsupported: {e}"})
            continue
        except Exception as e:  # syntax errors etc.
            broken.append({"kind": "translator", "file": rel, "detail": f"pyx2lean: {type(e).__name__}: {e}"})
            continue
        old = open(dst).read() if os.path.exists(dst) else None
        if old != txt:
            with open(dst, "w") as fh:
                fh.write(txt)
            changed.append(ns)
    try:
        import pyexpr2lean
    except ImportError:
        pyexpr2lean = None
    if pyexpr2lean is not None:
        try:
            b, c = pyexpr2lean.regenerate_all(SRC, os.path.join(LEAN, "GSV", "Gen"))
            # a formula file concerns only the properties whose models are tied to it (setup: report everything)
            broken += [x for x in b if not re.match(r"C\d\d$", ctx.prop)
                       or ctx.prop in x.get("props", [ctx.prop])]
            changed += c
        except Exception as e:
            broken.append({"kind": "translator", "file": "pyexpr2lean", "detail": f"pyexpr2lean: {type(e).__name__}: {e}"})
    if changed:
        ctx.log("generated definitions changed:", changed)
    return broken, changed



# ------------------------------------------------------------------ development aid: runs against scratch trees share lean/GSV/Gen
def _gen_would_change():
    """would regenerating from the tree under test (SRC) rewrite any file of lean/GSV/Gen?"""
    import tempfile, shutil
    sys.path.insert(0, os.path.join(VERIF, "vlib"))
    import pyx2lean
    gen = os.path.join(LEAN, "GSV", "Gen")
    for rel, ns in KERNELS:
        try:
            txt = pyx2lean.translate_file(os.path.join(SRC, rel), ns)
        except Exception:
            return True
        dst = os.path.join(gen, ns + ".lean")
        if not os.path.exists(dst) or open(dst).read() != txt:
            return True
    try:
        import pyexpr2lean
    except ImportError:
        return False
    tmp = tempfile.mkdtemp(prefix="gsv_gen_")
    try:
        try:
            pyexpr2lean.regenerate_all(SRC, tmp)
        except Exception:
            return True
        for f in os.listdir(tmp):
            dst = os.path.join(gen, f)
            if not os.path.exists(dst) or open(dst).read() != open(os.path.join(tmp, f)).read():
                return True
    finally:
        shutil.rmtree(tmp, ignore_errors=True)
    return False


class GenGuard:
    """Checks that do not change the generated Lean files run concurrently (shared lock); a run whose tree regenerates them
    differently (a scratch tree given by GSV_REPO with edited kernels / formulas, or /repo itself after such an edit) runs alone
    (exclusive lock) and, if it was a scratch tree, puts the translation of /repo back before releasing the lock."""

    def __enter__(self):
        self.fh = open(os.path.join(LEAN, ".gen.lock"), "w")
        if os.environ.get("GSV_LEAN"):          # a private copy of the Lean project: nothing is shared, nothing to restore
            self.exclusive = False
            return self
        fcntl.flock(self.fh, fcntl.LOCK_SH)
        self.exclusive = False
        if _gen_would_change():
            fcntl.flock(self.fh, fcntl.LOCK_UN)
            fcntl.flock(self.fh, fcntl.LOCK_EX)
            self.exclusive = True
        return self

    def __exit__(self, *a):
        try:
            if self.exclusive and os.path.realpath(REPO) != "/repo":
                env = {k: v for k, v in os.environ.items() if k not in ("GSV_REPO", "GSV_OUT")}
                subprocess.run([sys.executable, "-c", "import sys; sys.path.insert(0, %r); import core; core.regenerate(core.Ctx('restore', 'quick', 0))"
                                % os.path.join(VERIF, "vlib")], env=env, cwd=VERIF, capture_output=True)
        finally:
            self.fh.close()
        return False

# ------------------------------------------------------------------ build + audit
def lake_build(targets, ctx, timeout=5400):
    lock = lake_lock()
    try:
        rc, out = sh(["lake", "build"] + targets, cwd=LEAN, timeout=timeout)
    finally:
        lock.close()
    return rc, out


class _Registry:
    def __getitem__(self, prop):
        with open(os.path.join(VERIF, "vlib", "registry", prop + ".json")) as fh:
            return json.load(fh)


def registry():
    return _Registry()


def grep_forbidden(modules):
    hits = []
    for m in modules:
        path = os.path.join(LEAN, *m.split(".")) + ".lean"
        if not os.path.exists(path):
            continue
        in_block = 0
        for n, line in enumerate(open(path), 1):
            # strip comments (line and simple block comments)
            code = line
            if in_block:
                if "-/" in code:
                    code = code.split("-/", 1)[1]
                    in_block = 0
                else:
                    continue
            while "/-" in code:
                pre, post = code.split("/-", 1)
                if "-/" in post:
                    code = pre + post.split("-/", 1)[1]
                else:
                    code = pre
                    in_block = 1
                    break
            code = code.split("--", 1)[0]
            if FORBIDDEN.search(code):
                hits.append(f"{m}:{n}: {line.strip()}")
    return hits


def module_closure(modules):
    """the project-local (GSV.*) import closure of the given modules"""
    seen, todo = [], list(modules)
    while todo:
        m = todo.pop()
        if m in seen:
            continue
        seen.append(m)
        path = os.path.join(LEAN, *m.split(".")) + ".lean"
        if os.path.exists(path):
            for line in open(path):
                mm = re.match(r"^import\s+(GSV\.[\w\.]+)", line)
                if mm:
                    todo.append(mm.group(1))
    return seen


def audit(ctx, entry):
    """returns dict theorem -> {'ok': bool, 'axioms': [...], 'why': str}"""
    modules = entry["modules"]
    theorems = entry["theorems"]
    res = {}
    rc, out = lake_build(modules, ctx)
    build_ok = rc == 0
    tmpdir = os.path.join(LEAN, ".lake", "tmp")
    os.makedirs(tmpdir, exist_ok=True)
    tmp = os.path.join(tmpdir, f"Audit_{ctx.prop}_{os.getpid()}.lean")
    if build_ok:
        body = "".join(f"import {m}\n" for m in modules)
    else:
        ctx.log("build of", modules, "failed; auditing per theorem with error recovery")
        # elaborate copies of the modules in one file (error recovery keeps later theorems checkable)
        body = ""
        imports, texts = [], []
        local = set(modules)
        for m in modules:
            path = os.path.join(LEAN, *m.split(".")) + ".lean"
            txt = open(path).read()
            for line in txt.split("\n"):
                mm = re.match(r"^import\s+(\S+)", line)
                if mm and mm.group(1) not in local and mm.group(1) not in imports:
                    imports.append(mm.group(1))
            texts.append("\n".join(l for l in txt.split("\n") if not l.startswith("import ")))
        # dependencies must be built for this to work
        rc2, out2 = lake_build([i for i in imports if i.startswith("GSV.")], ctx)
        if rc2 != 0:
            for t in theorems:
                res[t] = {"ok": False, "axioms": [], "why": "dependency build failed: " + tail_err(out2)}
            return res, False, out + "\n" + out2
        body = "".join(f"import {i}\n" for i in imports) + "\n".join(texts) + "\n"
    body += "".join(f"#print axioms {t}\n" for t in theorems)
    with open(tmp, "w") as fh:
        fh.write(body)
    lock = lake_lock()
    try:
        rc3, out3 = sh(["lake", "env", "lean", tmp], cwd=LEAN, timeout=5400)
    finally:
        lock.close()
    os.remove(tmp)
    for t in theorems:
        m = re.search(r"'" + re.escape(t) + r"' depends on axioms: \[([^\]]*)\]", out3.replace("\n", " "))
        if m:
            ax = [a.strip() for a in m.group(1).split(",") if a.strip()]
            bad = [a for a in ax if a not in ALLOWED_AXIOMS]
            res[t] = {"ok": not bad, "axioms": ax, "why": "" if not bad else f"uses {bad}"}
        elif re.search(r"'" + re.escape(t) + r"' does not depend on any axioms", out3):
            res[t] = {"ok": True, "axioms": [], "why": ""}
        else:
            res[t] = {"ok": False, "axioms": [], "why": "theorem not found in the built environment"}
    hits = grep_forbidden(module_closure(modules))
    if hits:
        for t in theorems:
            res[t]["ok"] = False
            res[t]["why"] += " forbidden token in sources: " + "; ".join(hits[:3])
    return res, build_ok, out if not build_ok else ""


def audit_informative(ctx, reg):
    """theorems registered under "informative" (e.g. the carrier-polymorphic `rfl` form of tie A: the model text IS the
    source text) are audited like obligations - build with error recovery, #print axioms, forbidden-token grep - and
    reported, but they are no obligations: a failing one never enters `broken` and never changes the exit status."""
    info = reg.get("informative")
    if not info or not info.get("theorems"):
        return None
    names = list(info["theorems"])
    try:
        # registered modules the informative ones import are elaborated with them when the build needs error recovery
        deps = [m for m in reg["modules"] if m in module_closure(info["modules"]) and m not in info["modules"]]
        aud, _, _ = audit(ctx, {"modules": deps + list(info["modules"]), "theorems": names})
        failing = [t for t in names if not aud[t]["ok"]]
        res = {"checked": len(names), "holding": len(names) - len(failing), "failing": failing,
               "modules": list(info["modules"])}
    except Exception as e:   # never let the informative part disturb the verdict
        res = {"checked": len(names), "holding": 0, "failing": names, "modules": list(info["modules"]),
               "error": f"{type(e).__name__}: {e}"}
    ctx.log(f"informative theorems {res['holding']}/{res['checked']} holding (not obligations)"
            + (f"; failing: {res['failing'][:6]}{' ...' if len(res['failing']) > 6 else ''}" if res["failing"] else ""))
    return res


def tail_err(out, n=12):
    lines = [l for l in out.split("\n") if "error" in l.lower()]
    return " | ".join(lines[:n])[:1500]


# ------------------------------------------------------------------ known findings
def known_findings():
    p = os.path.join(VERIF, "known_findings.json")
    if not os.path.exists(p):
        return {"known": [], "fixed": []}
    return json.load(open(p))


def match_known(prop, key):
    for k in known_findings().get("known", []):
        if prop in k["property"] if isinstance(k["property"], list) else k["property"] == prop:
            if re.search(k["match"], key):
                return k
    return None


# ------------------------------------------------------------------ main driver
def write_replay(prop, payload):
    os.makedirs(os.path.join(OUT, "replays"), exist_ok=True)
    h = hashlib.sha1(json.dumps(payload, sort_keys=True, default=str).encode()).hexdigest()[:10]
    path = os.path.join("replays", f"{prop}-{h}.json")
    with open(os.path.join(OUT, path), "w") as fh:
        json.dump(payload, fh, indent=1, default=str)
    return path


def run_check(prop, tier, seed, replay=None):
    with GenGuard():
        return _run_check(prop, tier, seed, replay)


def _run_check(prop, tier, seed, replay=None):
    ctx = Ctx(prop, tier, seed)
    sys.path.insert(0, os.path.join(VERIF, "vlib"))
    mod = importlib.import_module(f"props.{prop}")
    reg = registry()[prop]
    if replay:
        return mod.replay(ctx, json.load(open(replay)))
    broken = []           # things that no longer check (obligations / tie)
    violations = []       # concrete failing inputs: dicts with key, what, case
    # 1. tie A
    b, changed = regenerate(ctx)
    relevant = set(getattr(mod, "KERNEL_FILES", []))
    degraded = [x for x in b if x["kind"] == "translator-degraded"]
    b = [x for x in b if x["kind"] != "translator-degraded"]
    broken += [x for x in b if not relevant or x.get("file") in relevant or x["kind"] != "translator"]
    for x in degraded:
        ctx.log(f"NOTE tie A degraded to tie B for {x.get('member')} ({x['file']}): {x['detail'][:160]}")
    # 2. build driver (needed by correspondences)
    rc, out = lake_build(["gsvdriver"], ctx)
    for _ in range(int(os.environ.get("GSV_DRIVER_RETRIES", "0"))):   # development aid: another builder may be mid-edit
        if rc == 0:
            break
        time.sleep(30)
        rc, out = lake_build(["gsvdriver"], ctx)
    driver_ok = rc == 0
    if not driver_ok:
        broken.append({"kind": "driver-build", "detail": tail_err(out)})
    # 3. obligations
    aud, build_ok, bout = audit(ctx, reg)
    obligations = len(reg["theorems"])
    discharged = sum(1 for t in reg["theorems"] if aud[t]["ok"])
    for t in reg["theorems"]:
        if not aud[t]["ok"]:
            broken.append({"kind": "theorem", "name": t, "detail": aud[t]["why"]})
    if not build_ok:
        ctx.log("proof build errors:", tail_err(bout, 5))
    ctx.log(f"obligations {discharged}/{obligations} discharged")
    informative = audit_informative(ctx, reg)
    if not ctx.quick and build_ok:
        # thorough tier: independent re-check of the compiled modules (replays every declaration through the kernel)
        try:
            rc_lc, out_lc = run_leanchecker(ctx, reg["modules"])
            ctx.leanchecker = {"modules": reg["modules"], "exit": rc_lc, "tail": out_lc.strip().split("\n")[-1][:200] if out_lc.strip() else ""}
            if rc_lc != 0:
                broken.append({"kind": "leanchecker", "detail": tail_err(out_lc) or out_lc[-400:]})
            ctx.log(f"leanchecker exit {rc_lc}")
        except Exception as e:   # timeouts etc. are machinery errors, not violations
            ctx.leanchecker = {"error": f"{type(e).__name__}: {e}"}
            ctx.log("leanchecker did not finish:", e)
    # 4. correspondence
    corr = {"evaluations": 0, "distinct_nontrivial": 0, "rule": "", "samples": [], "disagreements": []}
    if driver_ok or getattr(mod, "NEEDS_DRIVER", True) is False:
        try:
            corr = mod.correspondence(ctx)
        except Exception as e:
            traceback.print_exc()
            broken.append({"kind": "correspondence-error", "detail": f"{type(e).__name__}: {e}"})
    for d in corr.get("disagreements", []):
        if getattr(mod, "DISAGREEMENT_IS_VIOLATION", False):
            violations.append({"key": "correspondence:" + d.get("what", ""), "what": d.get("what", ""), "case": d})
        broken.append({"kind": "correspondence", "name": d.get("what", "model/implementation disagreement"), "case": d})
    ctx.log(f"correspondence: {corr.get('evaluations', 0)} cases, {len(corr.get('disagreements', []))} disagreements")
    if degraded and corr.get("evaluations", 0) == 0:
        broken.append({"kind": "translator", "detail": "tie A degraded and the correspondence evaluated nothing: nothing ties the model to the code: "
                       + "; ".join(x["detail"][:120] for x in degraded)})
    # 5. search (always a light one; deeper when something is broken)
    srch = {"evaluations": 0, "violations": [], "summary": ""}
    try:
        srch = mod.search(ctx, deep=bool(broken or degraded))
    except Exception as e:
        traceback.print_exc()
        ctx.log("search raised", e)
        tb = traceback.extract_tb(e.__traceback__)
        inner = tb[-1] if tb else None
        src_root = os.path.realpath(os.path.join(REPO, "src")) + os.sep
        if inner is not None and os.path.realpath(inner.filename).startswith(src_root) \
                and isinstance(e, (TypeError, AttributeError, IndexError, KeyError, NameError, UnboundLocalError, ZeroDivisionError)):
            # the code under test itself failed with a programming error on an input the harness uses on every run (on the unchanged
            # tree this search runs to the end): that is a failing input, not a machinery error.  ValueError / LinAlgError etc. are
            # gstools' own way of rejecting input and stay machinery errors (exit 2) when a harness does not expect them.
            rel = os.path.realpath(inner.filename)[len(src_root):]
            srch = {"evaluations": 0, "summary": f"search stopped by {type(e).__name__} raised inside {rel}",
                    "violations": [{"key": f"exception-in-gstools:{type(e).__name__}:{rel}:{inner.name}",
                                    "what": f"{type(e).__name__}: {e} — raised inside {rel}:{inner.lineno} ({inner.name}) while the search of this "
                                            "property was calling the public API with inputs that are accepted on the unchanged tree",
                                    "case": {"traceback": [f"{f.filename}:{f.lineno} {f.name}" for f in tb[-8:]]}}]}
        else:
            srch = {"evaluations": 0, "violations": [], "summary": f"search error {type(e).__name__}: {e}", "error": True}
    violations += srch.get("violations", [])
    ctx.log(f"search: {srch.get('evaluations', 0)} evaluations, {len(violations)} violations")
    # 6. verdict
    status = 0
    lines = []
    unknown = []
    for v in violations:
        k = match_known(prop, v["key"])
        if k:
            lines.append(f"KNOWN-FINDING: property={prop} {k['id']} {k['what']}")
        else:
            unknown.append(v)
    lines = sorted(set(lines))
    if unknown:
        path = write_replay(prop, {"property": prop, "kind": "failing-input", "violations": unknown[:5],
                                   "broken": broken[:10]})
        lines.append(f"VIOLATION property={prop} replay={path}")
        status = 1
    elif broken:
        path = write_replay(prop, {"property": prop, "kind": "no-longer-checks", "broken": broken[:20],
                                   "note": "a theorem or correspondence no longer checks; the failing-input search found no concrete input"})
        lines.append(f"VIOLATION property={prop} replay={path} no-failing-input-found")
        status = 1
    if status == 0 and srch.get("error"):
        # the failing-input search crashed: a machinery error, never a pass and never a VIOLATION
        lines.append(f"ERROR property={prop} the search raised: {srch.get('summary', '')[:300]}")
        status = 2
    wall = time.time() - ctx.t0
    cov = {
        "obligations": obligations, "discharged": discharged,
        "checker_cmd": f"cd lean && lake build {' '.join(reg['modules'])} && lake env lean <#print axioms per theorem>"
                       + ("" if ctx.quick else " && lake env leanchecker " + " ".join(reg["modules"])),
        "trusted_base": TRUSTED_BASE + getattr(mod, "TRUSTED_EXTRA", []),
        "theorems": {t: aud[t]["axioms"] for t in reg["theorems"]},
        "not_yet_proved": reg.get("not_yet_proved", []),
        "evaluations": corr.get("evaluations", 0),
        "distinct_nontrivial": corr.get("distinct_nontrivial", 0),
        "rule": corr.get("rule", ""),
        "samples": corr.get("samples", [])[:5] or [{"obligation": t} for t in reg["theorems"][:3]],
        "traces_validated_against_impl": corr.get("evaluations", 0),
        "input_distribution": corr.get("distribution", {}),
        "support": {"search_evaluations": srch.get("evaluations", 0), "search_summary": srch.get("summary", "")},
        "generated_changed": changed,
    }
    if degraded:
        # members written in constructs the formula translator does not cover: their generated definitions are those of the last
        # supported revision; for them the tie to the current code is the correspondence (tie B) alone
        cov["degraded_ties"] = [{"member": x.get("member"), "file": x["file"], "detail": x["detail"][:300]} for x in degraded]
    if getattr(ctx, "leanchecker", None):
        cov["leanchecker"] = ctx.leanchecker
    if informative is not None:
        cov["informative"] = informative
    ev = {"property_id": prop, "tier": tier, "seed": seed, "level": "proof", "coverage": cov,
          "assumptions": getattr(mod, "ASSUMPTIONS", []), "wall_s": round(wall, 2),
          "violations": len(unknown) + (1 if (broken and not unknown) else 0)}
    os.makedirs(os.path.join(OUT, "evidence"), exist_ok=True)
    with open(os.path.join(OUT, "evidence", f"{prop}.json"), "w") as fh:
        json.dump(ev, fh, indent=1, default=str)
    for l in lines:
        print(l)
    ctx.log("exit", status)
    return status


def run_leanchecker(ctx, modules):
    lock = lake_lock()
    try:
        rc, out = sh(["lake", "env", "leanchecker"] + modules, cwd=LEAN, timeout=7200)
    finally:
        lock.close()
    return rc, out
