"""API-level sweep over gstools.config.NUM_THREADS (shared by C15, C16, C11, C08).

The kernels take `num_threads` as an argument; the public API reads it from `gstools.config.NUM_THREADS` in thin wrappers
(`field/generator.py::_summate*`, `variogram/variogram.py::_directional/_unstructured/_structured/_ma_structured`).  A result that
depends on that setting is a violation of 'every thread count' (C15), and of whatever the result is supposed to be (C16: divergence
free, C11: deterministic, C08: the definition).  Every kernel owns its output entries per loop index, so the results must be
bit-identical; we allow a few ulp so that a harmless re-association inside a wrapper is not reported."""
import contextlib
import numpy as np

THREADS = (1, 2, 3, 5)


@contextlib.contextmanager
def num_threads(n):
    import gstools as gs
    old = gs.config.NUM_THREADS
    gs.config.NUM_THREADS = n
    try:
        yield
    finally:
        gs.config.NUM_THREADS = old


def _same(a, b):
    a, b = np.asarray(a, dtype=float), np.asarray(b, dtype=float)
    if a.shape != b.shape:
        return False
    if np.array_equal(a, b, equal_nan=True):
        return True
    scale = max(float(np.nanmax(np.abs(a))) if a.size else 0.0, 1.0)
    return bool(np.allclose(a, b, rtol=0.0, atol=64 * np.finfo(float).eps * scale, equal_nan=True))


def _cases(rng, kinds):
    """(kind, description, thunk) — each thunk is deterministic and returns a tuple of arrays"""
    import gstools as gs
    out = []
    for kind in kinds:
        if kind in ("randmeth", "fourier", "incompr"):
            dim = int(rng.randint(2, 4)) if kind == "incompr" else int(rng.randint(1, 4))
            P = int(rng.choice([1, 2, 3, dim, 7, 40]))
            seed = int(rng.randint(1, 10 ** 6))
            anis = [float(x) for x in rng.uniform(0.4, 1.6, dim - 1)] if rng.rand() < 0.5 else 1.0
            ang = [float(x) for x in rng.uniform(-1, 1, {1: 0, 2: 1, 3: 3}[dim])] if (dim > 1 and rng.rand() < 0.5) else 0.0
            pos = rng.uniform(-5, 5, size=(dim, P))
            struct = bool(rng.rand() < 0.3)
            axes = [np.sort(rng.uniform(-3, 3, int(rng.randint(1, 5)))) for _ in range(dim)]
            desc = dict(kind=kind, dim=dim, points=P, seed=seed, anis=anis, angles=ang, structured=struct,
                        pos=(None if struct else pos.tolist()), axes=([a.tolist() for a in axes] if struct else None))

            def thunk(kind=kind, dim=dim, seed=seed, anis=anis, ang=ang, pos=pos, struct=struct, axes=axes):
                kw = dict(dim=dim, var=1.3, len_scale=1.7)
                if dim > 1:
                    kw.update(anis=anis, angles=ang)
                if kind == "incompr":
                    srf = gs.SRF(gs.Gaussian(**kw), generator="VectorField", seed=seed, mode_no=24, mean=(0.5,) + (0.0,) * (dim - 1))
                elif kind == "fourier":
                    srf = gs.SRF(gs.Gaussian(**kw), generator="Fourier", seed=seed, period=[9.0 + i for i in range(dim)], mode_no=[6] * dim)
                else:
                    srf = gs.SRF(gs.Exponential(**kw), seed=seed, mode_no=24)
                return (np.array(srf.structured(axes) if struct else srf(pos)),)
            out.append((kind, desc, thunk))
        elif kind in ("vario", "vario-dir", "vario-axis"):
            dim = int(rng.randint(2, 4))
            P = int(rng.randint(3, 25))
            pos = rng.randint(0, 5, size=(dim, P)).astype(float) if rng.rand() < 0.5 else rng.randn(dim, P) * 2
            f = rng.randint(-8, 9, size=P) / 4.0
            if rng.rand() < 0.3:
                f[rng.rand(P) < 0.2] = np.nan
            bins = np.array([0.0, 1.0, 2.0, 3.5, 6.0])
            est = str(rng.choice(["matheron", "cressie"]))
            if kind == "vario":
                desc = dict(kind=kind, pos=pos.tolist(), field=f.tolist(), bins=bins.tolist(), estimator=est)

                def thunk(pos=pos, f=f, bins=bins, est=est):
                    _, g, c = gs.vario_estimate(pos, f, bins, estimator=est, return_counts=True)
                    return (np.asarray(g), np.asarray(c))
            elif kind == "vario-dir":
                D = int(rng.randint(1, dim + 1))
                d = np.eye(dim)[rng.permutation(dim)[:D]] if rng.rand() < 0.5 else rng.randn(D, dim)
                tol = float(rng.choice([np.pi / 8, np.pi / 4, np.pi / 2]))
                bw = [None, 1.0, 2.5][int(rng.randint(3))]
                desc = dict(kind=kind, pos=pos.tolist(), field=f.tolist(), bins=bins.tolist(), estimator=est, direction=d.tolist(),
                            angles_tol=tol, bandwidth=bw)

                def thunk(pos=pos, f=f, bins=bins, est=est, d=d, tol=tol, bw=bw):
                    _, g, c = gs.vario_estimate(pos, f, bins, estimator=est, direction=d, angles_tol=tol, bandwidth=bw, return_counts=True)
                    return (np.asarray(g), np.asarray(c))
            else:
                shp = tuple(int(x) for x in rng.randint(1, 6, size=int(rng.randint(1, 4))))
                fld = rng.randint(-8, 9, size=shp) / 4.0
                masked = bool(rng.rand() < 0.5)
                if masked:
                    fld = np.ma.array(fld, mask=rng.rand(*shp) < 0.25)
                ax = int(rng.randint(0, len(shp)))
                desc = dict(kind=kind, field=np.ma.filled(np.ma.asarray(fld, dtype=float), np.nan).tolist(), axis=ax, estimator=est, masked=masked)

                def thunk(fld=fld, ax=ax, est=est):
                    return (np.asarray(gs.vario_estimate_axis(fld, direction=ax, estimator=est)),)
            out.append((kind, desc, thunk))
    return out


def api_thread_sweep(ctx, kinds, n, key_prefix="threads"):
    """every case is evaluated with NUM_THREADS = None and with 1, 2, 3, 5; all results must agree"""
    rng = np.random.RandomState(ctx.seed + 1515)
    viol, ev = [], 0
    for t in range(n):
        for kind, desc, thunk in _cases(rng, kinds):
            try:
                with num_threads(None):
                    ref = thunk()
            except Exception as ex:
                viol.append({"key": f"{key_prefix}:{kind}:exception", "what": f"NUM_THREADS=None: {type(ex).__name__}: {ex}", "case": desc})
                continue
            for nt in THREADS:
                ev += 1
                try:
                    with num_threads(nt):
                        got = thunk()
                except Exception as ex:
                    viol.append({"key": f"{key_prefix}:{kind}:exception", "what": f"NUM_THREADS={nt}: {type(ex).__name__}: {ex}",
                                 "case": dict(desc, num_threads=nt)})
                    break
                if len(got) != len(ref) or not all(_same(a, b) for a, b in zip(got, ref)):
                    viol.append({"key": f"{key_prefix}:{kind}:result-depends-on-NUM_THREADS",
                                 "what": f"{kind}: the result with gstools.config.NUM_THREADS={nt} differs from the result with NUM_THREADS=None",
                                 "case": dict(desc, num_threads=nt), "got": [np.asarray(a, dtype=float).tolist() for a in got],
                                 "want": [np.asarray(a, dtype=float).tolist() for a in ref]})
                    break
    return ev, viol


def api_copies_and_sizes(ctx, kinds, n, key_prefix="object"):
    """two further things a result must not depend on (shared by C16 and C11):
    (1) how many points ONE call evaluates: calls with more than 2**16 / 2**17 points against small calls at a random subset;
    (2) whether the object is the original or a duplicate: copy.deepcopy / copy.copy / pickle round trip of the SRF and of its
        generator must give the same field at the same points and the same public settings."""
    import copy
    import pickle
    import gstools as gs
    rng = np.random.RandomState(ctx.seed + 1616)
    viol, ev = [], 0

    def build(kind, dim, seed):
        kw = dict(dim=dim, var=1.3, len_scale=1.7)
        if dim > 1:
            kw.update(anis=[float(x) for x in rng.choice([0.5, 1.0, 1.6], size=dim - 1)])
        if kind == "incompr":
            return gs.SRF(gs.Gaussian(**kw), generator="VectorField", seed=seed, mode_no=16, mean_velocity=float(rng.choice([2.5, 0.4, -1.5])))
        if kind == "fourier":
            return gs.SRF(gs.Gaussian(**kw), generator="Fourier", seed=seed, period=[9.0 + i for i in range(dim)], mode_no=[4] * dim)
        return gs.SRF(gs.Exponential(**kw, nugget=0.0), seed=seed, mode_no=16, mean=0.7)

    for t in range(n):
        for kind in kinds:
            dim = int(rng.randint(2, 4)) if kind == "incompr" else int(rng.randint(1, 4))
            seed = int(rng.randint(1, 10 ** 6))
            desc = dict(kind=kind, dim=dim, seed=seed)
            try:
                srf = build(kind, dim, seed)
                # (1) one large call against small calls
                if t == 0:
                    P = int(rng.choice([2 ** 16 + 17, 70000, 2 ** 17 + 5]))
                    pos = rng.uniform(-20, 20, size=(dim, P))
                    big = np.asarray(srf(pos), dtype=float)
                    idx = rng.permutation(P)[:40]
                    small = np.asarray(srf(pos[:, idx]), dtype=float)
                    ev += 1
                    if not _same(big[..., idx], small):
                        viol.append({"key": f"{key_prefix}:{kind}:large-call", "case": dict(desc, points=P, subset=idx.tolist()[:10]),
                                     "what": f"{kind}: the values of one call at {P} points differ from a call at a subset of these points "
                                             f"(max abs diff {float(np.max(np.abs(big[..., idx] - small))):.3e})"})
                # (2) duplicates
                pos = rng.uniform(-5, 5, size=(dim, 7))
                ref = np.asarray(srf(pos), dtype=float)
                dups = {"deepcopy": lambda o: copy.deepcopy(o), "copy": lambda o: copy.copy(o),
                        "pickle": lambda o: pickle.loads(pickle.dumps(o))}
                for how, dup in dups.items():
                    ev += 1
                    try:
                        s2 = dup(srf)
                    except Exception as ex:          # not every object needs to be picklable: only a silent difference is a violation
                        continue
                    got = np.asarray(s2(pos), dtype=float)
                    attrs_ok = all(np.array_equal(np.asarray(getattr(s2.generator, a, None), dtype=object), np.asarray(getattr(srf.generator, a, None), dtype=object))
                                   for a in ("seed", "mode_no", "mean_u", "sampling") if hasattr(srf.generator, a))
                    if not (_same(got, ref) and attrs_ok):
                        viol.append({"key": f"{key_prefix}:{kind}:duplicate:{how}", "case": dict(desc, how=how, pos=pos.tolist()),
                                     "what": f"{kind}: a {how} duplicate of the SRF gives a different field / has different generator settings than the original",
                                     "got": got.tolist(), "want": ref.tolist()})
                    g2 = dup(srf.generator)
                    if hasattr(g2, "__call__"):
                        iso = srf.model.isometrize(pos) if dim > 1 else pos
                        a, b = np.asarray(g2(iso), dtype=float), np.asarray(srf.generator(iso), dtype=float)
                        if not _same(a, b):
                            viol.append({"key": f"{key_prefix}:{kind}:duplicate-generator:{how}", "case": dict(desc, how=how),
                                         "what": f"{kind}: a {how} duplicate of the generator evaluates differently from the original"})
            except Exception as ex:
                viol.append({"key": f"{key_prefix}:{kind}:exception", "what": f"{type(ex).__name__}: {ex}", "case": desc})
    return ev, viol
