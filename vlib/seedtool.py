#!/usr/bin/env python3
"""Development aid for seeded changes (DESIGN §10).

  seedtool.py confirm <dir>            # dir holds patch.diff + demo.py: pristine demo passes, patched demo fails,
                                       #   patched tree passes the whole test suite (scratch worktree, removed afterwards)
  seedtool.py run <dir> Cxx [Cyy ...]  # run ./check (quick) of the given properties against a scratch worktree with the
                                       #   patch applied (GSV_REPO/GSV_OUT), print exit codes and VIOLATION lines
Nothing is ever applied to /repo by this tool; registered checks always run against /repo itself.
"""
import json
import os
import subprocess
import sys
import tempfile
import shutil
import time

VERIF = os.path.dirname(os.path.dirname(os.path.abspath(__file__)))
PY = "/venv/bin/python"


def sh(cmd, **kw):
    return subprocess.run(cmd, shell=isinstance(cmd, str), capture_output=True, text=True, **kw)


def mkwt(patch):
    d = tempfile.mkdtemp(prefix="gsvmut_", dir="/tmp")
    os.rmdir(d)
    r = sh([os.path.join(VERIF, "vlib", "mkworktree.sh"), d])
    if r.returncode:
        raise SystemExit("worktree failed: " + r.stderr)
    if patch:
        r = sh(["git", "-C", d, "apply", "--whitespace=nowarn", os.path.abspath(patch)])
        if r.returncode:
            rmwt(d)
            raise SystemExit("patch does not apply: " + r.stderr)
        b = os.path.join(os.path.dirname(os.path.abspath(patch)), "build.sh")
        if os.path.exists(b):      # seeds that rebuild a compiled extension from (patched) generated C
            r = sh(["sh", b, d])
            if r.returncode:
                rmwt(d)
                raise SystemExit("build.sh failed: " + r.stdout + r.stderr)
    return d


def rmwt(d):
    sh(["git", "-C", "/repo", "worktree", "remove", "--force", d])
    shutil.rmtree(d, ignore_errors=True)
    sh(["git", "-C", "/repo", "worktree", "prune"])


def confirm(sd, tests=True):
    patch, demo = os.path.join(sd, "patch.diff"), os.path.join(sd, "demo.py")
    out = {}
    wt0 = mkwt(None)
    try:
        t = time.time()
        r = sh([PY, os.path.abspath(demo)], env=dict(os.environ, PYTHONPATH=wt0 + "/src"), cwd=wt0, timeout=1800)
        out["demo_pristine_exit"] = r.returncode
        out["demo_pristine_s"] = round(time.time() - t, 1)
        out["demo_pristine_tail"] = (r.stdout + r.stderr)[-400:]
    finally:
        rmwt(wt0)
    wt = mkwt(patch)
    try:
        r = sh([PY, os.path.abspath(demo)], env=dict(os.environ, PYTHONPATH=wt + "/src"), cwd=wt, timeout=1800)
        out["demo_patched_exit"] = r.returncode
        out["demo_patched_tail"] = (r.stdout + r.stderr)[-600:]
        if tests:
            t = time.time()
            r = sh([PY, "-m", "pytest", "-q", "-p", "no:cacheprovider", "--timeout=900", "-x", "-q"],
                   env=dict(os.environ, PYTHONPATH=wt + "/src"), cwd=wt, timeout=3600)
            out["tests_exit"] = r.returncode
            out["tests_tail"] = r.stdout.strip().split("\n")[-1]
            out["tests_s"] = round(time.time() - t, 1)
    finally:
        rmwt(wt)
    out["confirmed"] = (out["demo_pristine_exit"] == 0 and out["demo_patched_exit"] != 0 and (not tests or out.get("tests_exit") == 0))
    return out


def private_lean(dst):
    """copy of /verif/lean (sources + build output; lake does not rebuild a copied project) for ONE scratch-tree run, so that a tree
    whose kernels / formulas translate differently neither disturbs nor waits for the checks of /repo or of other scratch trees"""
    import fcntl
    src = os.path.join(VERIF, "lean")
    with open(os.path.join(src, ".gen.lock"), "w") as g, open(os.path.join(src, ".lake.lock"), "w") as l:
        fcntl.flock(g, fcntl.LOCK_SH)
        fcntl.flock(l, fcntl.LOCK_EX)
        r = sh(["cp", "-a", src, dst])
    if r.returncode:
        raise SystemExit("copy of the Lean project failed: " + r.stderr)
    return dst


def run(sd, props, tier="quick"):
    patch = os.path.join(sd, "patch.diff")
    wt = mkwt(patch)
    outdir = tempfile.mkdtemp(prefix="gsvout_", dir="/tmp")
    res = {}
    try:
        lean = private_lean(os.path.join(outdir, "lean"))
        for p in props:
            t = time.time()
            r = sh([os.path.join(VERIF, "check"), p, "--tier", tier],
                   env=dict(os.environ, GSV_REPO=wt, GSV_OUT=outdir, GSV_LEAN=lean), cwd=VERIF, timeout=7200)
            lines = [l for l in r.stdout.split("\n") if l.startswith("VIOLATION") or l.startswith("KNOWN-FINDING")]
            vio = [l for l in lines if l.startswith("VIOLATION")]
            detail = ""
            for l in vio:
                rp = l.split("replay=")[1].split()[0]
                try:
                    j = json.load(open(os.path.join(outdir, rp)))
                    if j.get("violations"):
                        detail = "; ".join(f"{v.get('key')}: {str(v.get('what'))[:160]}" for v in j["violations"][:3])
                    else:
                        detail = "; ".join(f"{b.get('kind')}:{b.get('name', '')} {str(b.get('detail', ''))[:120]}" for b in j.get("broken", [])[:3])
                except Exception as e:
                    detail = f"(replay unreadable: {e})"
            res[p] = {"exit": r.returncode, "violation": vio, "detail": detail, "wall_s": round(time.time() - t, 1)}
            if r.returncode not in (0, 1):
                res[p]["tail"] = (r.stdout + r.stderr)[-800:]
    finally:
        rmwt(wt)
        shutil.rmtree(outdir, ignore_errors=True)
    return res


if __name__ == "__main__":
    cmd, sd = sys.argv[1], sys.argv[2]
    if cmd == "confirm":
        print(json.dumps(confirm(sd, tests="--no-tests" not in sys.argv), indent=1))
    elif cmd == "run":
        print(json.dumps(run(sd, [a for a in sys.argv[3:] if not a.startswith("--")],
                             tier="thorough" if "--thorough" in sys.argv else "quick"), indent=1))
