"""development aid: which keyword parameters of gstools' Python functions do the check harnesses ever set to a NON-DEFAULT value?

Line coverage (vlib/covreport.py) does not show option paths that share their lines with the default path (`rescale`, `len_low`,
`sampling=`, `angles_tol`, `direction=` of the mesh glue, `exact=` of one kriging class, ...).  With GSV_KWCOV=<dir> in the environment
`check_main` calls `install()` before the check and `dump()` after it; `python3 vlib/kwcov.py <dir>` then lists, per function, the
parameters with a default that no check ever changed (and the distinct non-default values seen for the others, abbreviated)."""
import functools
import glob
import inspect
import json
import os
import sys

_REC = {}


def _abbr(v):
    try:
        import numpy as np
        if isinstance(v, np.ndarray):
            return f"ndarray{v.shape}:{v.dtype}"
    except Exception:
        pass
    if isinstance(v, (bool, int, float, str, type(None))):
        return repr(v)[:40]
    if isinstance(v, (list, tuple)):
        return f"{type(v).__name__}[{len(v)}]"
    return type(v).__name__


def _wrap(fn, qual):
    try:
        sig = inspect.signature(fn)
    except (TypeError, ValueError):
        return fn
    defaults = {k: p.default for k, p in sig.parameters.items() if p.default is not inspect.Parameter.empty}
    if not defaults:
        return fn
    rec = _REC.setdefault(qual, {k: {"calls": 0, "nondefault": 0, "values": []} for k in defaults})

    @functools.wraps(fn)
    def wrapper(*a, **kw):
        try:
            ba = sig.bind_partial(*a, **kw)
            for k, d in defaults.items():
                r = rec[k]
                r["calls"] += 1
                if k in ba.arguments:
                    v = ba.arguments[k]
                    same = v is d
                    if not same:
                        try:
                            same = bool(type(v) is type(d) and v == d)
                        except Exception:
                            same = False
                    if not same:
                        r["nondefault"] += 1
                        ab = _abbr(v)
                        if ab not in r["values"] and len(r["values"]) < 12:
                            r["values"].append(ab)
        except Exception:
            pass
        return fn(*a, **kw)
    wrapper.__gsv_kwcov__ = True
    return wrapper


def install():
    import importlib
    import pkgutil
    import gstools
    mods = [gstools]
    for m in pkgutil.walk_packages(gstools.__path__, "gstools."):
        try:
            mods.append(importlib.import_module(m.name))
        except Exception:
            pass
    seen = set()
    for mod in mods:
        for name, obj in list(vars(mod).items()):
            if inspect.isfunction(obj) and (obj.__module__ or "").startswith("gstools") and not getattr(obj, "__gsv_kwcov__", False):
                if id(obj) in seen:
                    continue
                seen.add(id(obj))
                w = _wrap(obj, f"{obj.__module__}.{obj.__qualname__}")
                for m2 in mods:                      # re-bind everywhere the function was imported by name
                    for n2, o2 in list(vars(m2).items()):
                        if o2 is obj:
                            setattr(m2, n2, w)
            elif inspect.isclass(obj) and (obj.__module__ or "").startswith("gstools") and id(obj) not in seen:
                seen.add(id(obj))
                for n2, o2 in list(vars(obj).items()):
                    if inspect.isfunction(o2) and not getattr(o2, "__gsv_kwcov__", False):
                        setattr(obj, n2, _wrap(o2, f"{obj.__module__}.{obj.__qualname__}.{n2}"))


def dump(directory, tag):
    os.makedirs(directory, exist_ok=True)
    json.dump(_REC, open(os.path.join(directory, f"kwcov.{tag}.{os.getpid()}.json"), "w"))


def report(directory):
    tot = {}
    for f in glob.glob(os.path.join(directory, "kwcov.*.json")):
        for q, ps in json.load(open(f)).items():
            t = tot.setdefault(q, {})
            for k, r in ps.items():
                u = t.setdefault(k, {"calls": 0, "nondefault": 0, "values": []})
                u["calls"] += r["calls"]
                u["nondefault"] += r["nondefault"]
                for v in r["values"]:
                    if v not in u["values"] and len(u["values"]) < 12:
                        u["values"].append(v)
    never_called, never_changed = [], []
    for q in sorted(tot):
        ps = tot[q]
        if all(r["calls"] == 0 for r in ps.values()):
            never_called.append(q)
            continue
        for k, r in ps.items():
            if r["nondefault"] == 0:
                never_changed.append(f"{q}({k}=)  [{r['calls']} calls]")
    print(f"{len(tot)} functions with defaulted parameters; never called: {len(never_called)}")
    for q in never_called:
        print("  never called:", q)
    print(f"parameters never given a non-default value: {len(never_changed)}")
    for x in never_changed:
        print("  ", x)


if __name__ == "__main__":
    report(sys.argv[1])
