"""Random kriging configurations on the real gstools API + observation by wrapping module attributes.

Also here (shared by C05 and C06): independent reference formulas for the normalizers, mean/trend/drift
specifications, an independent solve of the kriging system built from the configuration alone (never from
attributes of the Krige object under test), and random operation histories on one Krige object."""
import contextlib
import copy
import re
import itertools
import warnings
import numpy as np
import scipy.linalg as spl
from scipy.spatial.distance import cdist


MODELS = ["Gaussian", "Exponential", "Spherical", "Matern", "Stable", "Cubic", "Rational", "Linear", "Circular"]


def make_model(rng, dim, latlon=False, temporal=False, nugget=None, aniso=True, names=None, unit=1.0):
    """unit: length unit of the coordinates (the drawn length scale is multiplied by it; ignored for lat-lon)"""
    with warnings.catch_warnings():
        warnings.simplefilter("ignore")
        return _make_model(rng, dim, latlon, temporal, nugget, aniso, names, unit)


def _make_model(rng, dim, latlon=False, temporal=False, nugget=None, aniso=True, names=None, unit=1.0):
    import gstools as gs
    name = str(rng.choice(names or MODELS))
    if dim > 1 and name == "Linear":
        name = "Exponential"
    if dim > 2 and name == "Circular":
        name = "Gaussian"
    kw = dict(var=float(rng.choice([0.5, 1.0, 2.0])), len_scale=float(rng.choice([1.0, 2.0, 4.0])))
    if nugget is None:
        nugget = float(rng.choice([0.0, 0.0, 0.125, 0.5]))
    kw["nugget"] = nugget
    if latlon:
        kw.update(latlon=True, geo_scale=float(rng.choice([1.0, gs.KM_SCALE, gs.DEGREE_SCALE])))
        kw["len_scale"] = kw["len_scale"] * kw["geo_scale"] * 0.3
        if temporal:
            kw.update(temporal=True, anis=float(rng.choice([0.5, 1.0, 2.0])))
        return getattr(gs, name)(**kw)
    if unit != 1.0:
        kw["len_scale"] = kw["len_scale"] * float(unit)
    fdim = dim + (1 if temporal else 0)
    if temporal:
        kw.update(temporal=True, spatial_dim=dim)
    else:
        kw["dim"] = dim
    if aniso and fdim > 1 and rng.rand() < 0.6:
        kw["anis"] = [float(a) for a in rng.choice([0.25, 0.5, 2.0], size=fdim - 1)]
        kw["angles"] = [float(a) for a in rng.uniform(-1.5, 1.5, size=fdim * (fdim - 1) // 2)]
    return getattr(gs, name)(**kw)


# ------------------------------------------------------------------ normalizers: specs + independent formulas
NORMS = ["LogNormal", "BoxCox", "BoxCoxShift", "YeoJohnson", "Modulus", "Manly"]
NORM_LMBDA = {"BoxCox": [0.3, 0.5, 1.5, -0.5, 0.0], "BoxCoxShift": [0.3, 0.5, 1.5, -0.5, 0.0],
              "YeoJohnson": [0.5, 1.5, 0.0, 2.0, 0.3, 2.5], "Modulus": [0.5, 1.5, 0.0, -0.5], "Manly": [0.3, -0.3, 0.5]}
RESTRICTED = ("LogNormal", "BoxCox", "BoxCoxShift")     # normalizers whose input range is bounded below


def gen_norm(rng, p_none=0.4, kinds=None):
    """None (identity) or dict(kind, lmbda, shift)"""
    if rng.rand() < p_none:
        return None
    kind = str(rng.choice(kinds or NORMS))
    lm = float(rng.choice(NORM_LMBDA[kind])) if kind in NORM_LMBDA else 1.0
    sh = float(rng.choice([0.5, 1.5, -0.25])) if kind == "BoxCoxShift" else 0.0
    return dict(kind=kind, lmbda=lm, shift=sh)


def make_normalizer(spec):
    """a new gstools normalizer object for the spec (None -> None = identity)"""
    import gstools as gs
    if spec is None:
        return None
    kw = {}
    if spec["kind"] in NORM_LMBDA:
        kw["lmbda"] = spec["lmbda"]
    if spec["kind"] == "BoxCoxShift":
        kw["shift"] = spec["shift"]
    return getattr(gs.normalizer, spec["kind"])(**kw)


def norm_par(spec):
    """arguments of the Lean normaliser model"""
    from proto import fbits
    if spec is None:
        return dict(kind="Normalizer", lmbda=fbits([1.0])[0], shift=fbits([0.0])[0])
    return dict(kind=spec["kind"], lmbda=fbits([spec["lmbda"]])[0], shift=fbits([spec["shift"]])[0])


def _snap(l, kind):
    """the exponent with the documented limit forms: within np.isclose of 0 (and of 2 for Yeo-Johnson) the
    normalisers ARE the logarithmic / linear limit (C18 models this predicate); only fitted exponents ever fall
    strictly inside these bands, the generated ones are exactly on or far from them"""
    if abs(l) <= 1e-8:
        return 0.0
    if kind == "YeoJohnson" and abs(l - 2.0) <= 1e-8 + 2e-5:
        return 2.0
    return l


def ref_normalize(spec, x):
    """independent formulas (textbook definitions), NaN outside the input range"""
    x = np.asarray(x, dtype=float)
    if spec is None:
        return x.copy()
    k, l, s = spec["kind"], _snap(spec["lmbda"], spec["kind"]), spec["shift"]
    with np.errstate(all="ignore"):
        if k == "LogNormal":
            return np.where(x > 0, np.log(x), np.nan)
        if k in ("BoxCox", "BoxCoxShift"):
            xs = x + (s if k == "BoxCoxShift" else 0.0)
            r = np.log(xs) if l == 0 else (xs ** l - 1.0) / l
            return np.where(x > (-s if k == "BoxCoxShift" else 0.0), r, np.nan)
        if k == "YeoJohnson":
            xp, xm = np.maximum(x, 0), np.minimum(x, 0)
            pos = np.log1p(xp) if l == 0 else ((xp + 1.0) ** l - 1.0) / l
            neg = -np.log1p(-xm) if l == 2 else -((1.0 - xm) ** (2.0 - l) - 1.0) / (2.0 - l)
            return np.where(x >= 0, pos, neg)
        if k == "Modulus":
            a = np.abs(x)
            return np.sign(x) * (np.log1p(a) if l == 0 else ((a + 1.0) ** l - 1.0) / l)
        if k == "Manly":
            return x.copy() if l == 0 else (np.exp(l * x) - 1.0) / l
    raise ValueError(k)


def ref_denormalize(spec, y):
    """independent inverse formulas, NaN outside the image of the forward map"""
    y = np.asarray(y, dtype=float)
    if spec is None:
        return y.copy()
    k, l, s = spec["kind"], _snap(spec["lmbda"], spec["kind"]), spec["shift"]
    with np.errstate(all="ignore"):
        if k == "LogNormal":
            return np.exp(y)
        if k in ("BoxCox", "BoxCoxShift"):
            sh = s if k == "BoxCoxShift" else 0.0
            if l == 0:
                return np.exp(y) - sh
            b = 1.0 + l * y
            return np.where(b > 0, np.abs(b) ** (1.0 / l), np.nan) - sh
        if k == "YeoJohnson":
            yp, ym = np.maximum(y, 0), np.minimum(y, 0)
            pos = np.expm1(yp) if l == 0 else (l * yp + 1.0) ** (1.0 / l) - 1.0
            neg = -np.expm1(-ym) if l == 2 else 1.0 - (1.0 - (2.0 - l) * ym) ** (1.0 / (2.0 - l))
            return np.where(y >= 0, pos, neg)
        if k == "Modulus":
            a = np.abs(y)
            return np.sign(y) * (np.expm1(a) if l == 0 else (1.0 + l * a) ** (1.0 / l) - 1.0)
        if k == "Manly":
            if l == 0:
                return y.copy()
            b = 1.0 + l * y
            return np.where(b > 0, np.log(np.abs(b)), np.nan) / l
    raise ValueError(k)


def gauss_range(spec):
    """(lo, hi) interval of normalised values that the inverse map accepts with a safety margin"""
    if spec is None:
        return -np.inf, np.inf
    k, l = spec["kind"], _snap(spec["lmbda"], spec["kind"])
    if k in ("BoxCox", "BoxCoxShift", "Manly") and l != 0:
        return (-0.8 / l, np.inf) if l > 0 else (-np.inf, 0.8 / abs(l))
    if k in ("YeoJohnson", "Modulus") and l < 0:
        return -0.8 / abs(l), 0.8 / abs(l)
    if k == "YeoJohnson" and l > 2:
        return -0.8 / (l - 2), np.inf
    return -np.inf, np.inf


# ------------------------------------------------------------------ mean / trend / drift functions as data
class Frame:
    """coordinates of a configuration: raw = origin + unit * local (projected map coordinates with a large false
    easting / northing, millimetres, kilometres ...).  User functions (mean, trend, custom drifts) are written in
    local coordinates; `scale` is the divisor the mean / trend functions apply to them."""

    def __init__(self, scale, origin, unit):
        self.scale = np.asarray(scale, dtype=float)
        self.origin = np.asarray(origin, dtype=float)
        self.unit = float(unit)

    def loc(self, x, i, div=None):
        """local coordinate i of the position tuple x, divided by `div` (default: scale[i])"""
        d = self.scale[i] if div is None else div
        return (np.asarray(x[i], dtype=float) - self.origin[i]) / d


UNITS = [1e-3, 0.05, 1.0, 100.0, 100.0, 1e3]                       # length of one local unit in raw coordinates
ORIGIN_RATIOS = [0.0, 0.0, 12.5, 4.5e3, 5.7e4, -2.3e4, 1e4]        # |origin| / unit (UTM: 4.5e5 m / 5.7e6 m with unit 100 m)


def unit_of(cfg):
    fr = cfg.get("frame")
    return 1.0 if fr is None else float(fr["unit"])


def origin_of(cfg):
    fr = cfg.get("frame")
    return np.zeros(cfg["fdim"]) if fr is None else np.asarray(fr["origin"], dtype=float)


def to_raw(cfg, p):
    """local coordinates (fdim, m) -> raw coordinates of the configuration"""
    if cfg.get("frame") is None:
        return np.asarray(p, dtype=float)
    return origin_of(cfg)[:, None] + unit_of(cfg) * np.asarray(p, dtype=float)


def pos_scale(cfg):
    """the Frame of a configuration (opaque argument `scale` of func_of / eval_spec)"""
    if cfg["latlon"]:
        return Frame(np.array([90.0, 180.0, 4.0][: cfg["fdim"]]), np.zeros(cfg["fdim"]), 1.0)
    return Frame(np.full(cfg["fdim"], 8.0) * unit_of(cfg), origin_of(cfg), unit_of(cfg))


def gen_func(rng, fdim, amp, kinds=("none", "const", "lin", "sin"), p=None):
    """None | ("const", c) | ("lin", a0, coefs) | ("sin", a0, b, w): functions of the scaled coordinates"""
    k = str(rng.choice(kinds, p=p))
    if k == "none":
        return None
    a0 = float(np.round(rng.uniform(-1, 1) * amp, 3))
    if k == "const":
        return ("const", a0 if a0 != 0 else 0.25 * amp)
    if k == "lin":
        return ("lin", a0, [float(c) for c in np.round(rng.uniform(-1, 1, fdim) * amp, 3)])
    return ("sin", a0, float(np.round(rng.uniform(0.3, 1) * amp, 3)), float(rng.choice([2.0, 3.0, 5.0])))


def func_of(spec, scale):
    """the python object handed to gstools: None, a float, or a callable f(x, [y, z])"""
    if spec is None:
        return None
    if spec[0] == "const":
        return float(spec[1])
    if spec[0] == "lin":
        a0, c = spec[1], list(spec[2])
        return lambda *x: a0 + sum(ci * scale.loc(x, i) for i, ci in enumerate(c))
    if spec[0] == "sin":
        a0, b, w = spec[1:]
        return lambda *x: a0 + b * np.sin(w * scale.loc(x, 0)) + 0.5 * b * scale.loc(x, len(x) - 1)
    raise ValueError(spec)


def eval_spec(spec, pos, scale):
    """values of a mean/trend spec at raw positions (dim, m) -> (m,)"""
    pos = np.asarray(pos, dtype=float)
    m = pos.shape[1]
    f = func_of(spec, scale)
    if f is None:
        return np.zeros(m)
    if not callable(f):
        return np.full(m, f)
    return np.broadcast_to(np.asarray(f(*pos), dtype=float), (m,)).copy()


def drift_callables(cfg):
    """drift functions of the configuration as an independent list of callables (own monomial basis for the
    polynomial drifts, the user functions for custom drifts)"""
    d = cfg.get("drift")
    if d is None:
        return []
    if isinstance(d, tuple):    # ("custom", [specs])
        return [custom_drift(sp, pos_scale(cfg)) for sp in d[1]]
    order = {"linear": 1, "quadratic": 2}.get(d, d)
    out = []
    for deg in range(1, int(order) + 1):
        for sel in itertools.combinations_with_replacement(range(cfg["fdim"]), deg):
            out.append(lambda *x, _s=sel: np.prod([np.asarray(x[i], dtype=float) for i in _s], axis=0))
    return out


def custom_drift(sp, fr):
    """user drift functions of the local coordinates (x - origin) / unit"""
    u = fr.unit
    if sp[0] == "coord":
        i = sp[1]
        return lambda *x: fr.loc(x, i, u)
    if sp[0] == "sinmix":
        return lambda *x: np.sin(fr.loc(x, 0, u)) + 0.5 * fr.loc(x, len(x) - 1, u)
    if sp[0] == "sq":
        i = sp[1]
        return lambda *x: 0.1 * fr.loc(x, i, u) ** 2
    raise ValueError(sp)


def drift_arg(cfg):
    """the `drift_functions` argument handed to gstools"""
    d = cfg.get("drift")
    if isinstance(d, tuple):
        fs = [custom_drift(sp, pos_scale(cfg)) for sp in d[1]]
        return fs[0] if (len(fs) == 1 and d[2]) else fs     # a single callable may be passed bare
    return d


def is_unbiased(cfg):
    v = cfg["variant"]
    if v in ("Simple", "Detrended"):
        return False
    if v == "Krige":
        return bool(cfg["unbiased"])
    return True


def gen_values(rng, cfg, cp):
    """conditioning values that are valid for the configuration's normaliser / mean / trend:
    value = trend + denormalize(mean + gaussian)"""
    n = cp.shape[1]
    sc = pos_scale(cfg)
    if cfg.get("norm") is None:
        return rng.randn(n) * 2 + 1
    lo, hi = gauss_range(cfg["norm"])
    y = np.clip(np.clip(rng.randn(n) * 0.6, -1.3, 1.3) + eval_spec(cfg.get("mean"), cp, sc), lo, hi)
    return eval_spec(cfg.get("trend"), cp, sc) + ref_denormalize(cfg["norm"], y)


def gen_positions(rng, latlon, temporal, fdim, n, m):
    if latlon:
        cp = np.vstack([rng.uniform(-80, 80, n), rng.uniform(-170, 170, n)] + ([rng.uniform(0, 4, n)] if temporal else []))
        tp = np.vstack([rng.uniform(-80, 80, m), rng.uniform(-170, 170, m)] + ([rng.uniform(0, 4, m)] if temporal else []))
    else:
        # well separated conditioning points (jittered lattice) keep the system well conditioned
        grid = np.array(np.meshgrid(*([np.arange(4)] * fdim), indexing="ij")).reshape(fdim, -1)
        idx = rng.choice(grid.shape[1], size=min(n, grid.shape[1]), replace=False)
        n = len(idx)
        cp = grid[:, idx] * 2.0 + rng.uniform(-0.4, 0.4, size=(fdim, n))
        tp = rng.uniform(-1, 7, size=(fdim, m))
    return cp, tp


# raw offsets of (nearly) coincident points.  `CovModel.cov_nugget` treats lags inside numpy's isclose band of 0
# (|r| <= 1e-8 in ISOMETRISED coordinates: raw offsets divided by the anisotropy ratios / chordal distances scaled by
# geo_scale) as lag 0; the offsets straddle that band whatever the anisotropy / geo_scale is.  The class a pair falls
# into (same / in-band / near) is determined afterwards from the model's own isometrised distances (`coincidence`)
GROUP_OFFSETS = [0.0, 0.0, 0.0, 1e-9, 3e-9, 6e-9, 3e-8, 1e-7, 1e-6]
GROUP_OFFSETS_DEG = [0.0, 0.0, 0.0, 1e-11, 1e-10, 1e-9, 1e-7, 1e-5]
BAND = 1e-8


def near_offset(rng, fdim, latlon):
    """offset vector (fdim,) of one of the magnitudes above along one axis, all axes, or a random direction"""
    mag = float(rng.choice(GROUP_OFFSETS_DEG if latlon else GROUP_OFFSETS))
    if mag == 0.0:
        return np.zeros(fdim)
    mode = int(rng.randint(3))
    if mode == 0:
        v = np.zeros(fdim)
        v[int(rng.randint(fdim))] = float(rng.choice([-1.0, 1.0]))
    elif mode == 1:
        v = rng.choice([-1.0, 1.0], size=fdim) / np.sqrt(fdim)
    else:
        v = rng.randn(fdim)
        v /= max(np.linalg.norm(v), 1e-300)
    return mag * v


def add_groups(rng, cp, latlon, groups, extra_max=2):
    """`groups` anchors among the columns of `cp` get 1..extra_max further conditioning points at the anchor plus a
    near_offset (repeated / nearly repeated measurements at one station); the columns are shuffled afterwards so that
    coincident points are not adjacent.  Returns the new positions (fdim, n + extras)"""
    fdim, n = cp.shape
    groups = min(int(groups), n)
    if groups <= 0:
        return cp
    cols = [cp]
    for a in rng.permutation(n)[:groups]:
        for _ in range(int(rng.randint(1, extra_max + 1))):
            cols.append((cp[:, a] + near_offset(rng, fdim, latlon))[:, None])
    out = np.hstack(cols)
    return out[:, rng.permutation(out.shape[1])]


def iso_dists(model, a, b=None):
    """the lags the kriging system is built from: Euclidean distances of the isometrised positions"""
    ia = model.isometrize(a)
    ib = ia if b is None else model.isometrize(b)
    return cdist(ia.T, ib.T)


def coincidence(cfg, model, cond_pos=None):
    """classification of the conditioning layout by the model's isometrised lags: dict(
    same = number of pairs at lag exactly 0, band = pairs with 0 < lag <= 1e-8 (inside the isclose band of
    cov_nugget), near = pairs with 1e-8 < lag <= 1e-5, groups = number of connected groups of in-band points,
    isolated = boolean mask of the points with NO other conditioning point inside the band)"""
    cp = np.asarray(cfg["cond_pos"] if cond_pos is None else cond_pos, dtype=float)
    n = cp.shape[1]
    d = iso_dists(model, cp)
    off = ~np.eye(n, dtype=bool)
    inb = (d <= BAND) & off
    iu = np.triu_indices(n, 1)
    lab = np.arange(n)
    changed = True
    while changed:                          # connected components of the in-band relation (tiny n)
        changed = False
        for i, j in zip(*np.nonzero(inb)):
            lo = min(lab[i], lab[j])
            if lab[i] != lo or lab[j] != lo:
                lab[i] = lab[j] = lo
                changed = True
    grp = len({l for l in lab if np.sum(lab == l) > 1})
    return dict(same=int(np.sum(d[iu] == 0)), band=int(np.sum((d[iu] > 0) & (d[iu] <= BAND))),
                near=int(np.sum((d[iu] > BAND) & (d[iu] <= 1e-5))), groups=grp, isolated=~inb.any(axis=1), labels=lab)


def coin_tag(cfg, model, cond_pos=None):
    """short tag of the coincidence class of a layout x error kind x nugget, for the input distribution"""
    c = coincidence(cfg, model, cond_pos)
    ce = cfg["cond_err"]
    ek = "nugget" if isinstance(ce, str) else ("array" if isinstance(ce, np.ndarray) else "scalar")
    lay = "distinct" if not (c["same"] or c["band"] or c["near"]) else \
        "+".join(k for k in ("same", "band", "near") if c[k]) + f"/groups={min(c['groups'], 3)}"
    return f"coin:{lay}/err={ek}/nugget{'>0' if model.nugget > 0 else '=0'}/exact={cfg['exact']}"


VARIANTS = ("Simple", "Ordinary", "Universal", "ExtDrift", "Detrended", "Krige")
VARIANT_WEIGHT = {"Simple": 0.2, "Ordinary": 0.13, "Universal": 0.17, "ExtDrift": 0.15, "Detrended": 0.1, "Krige": 0.25}


def gen_config(rng, variants=VARIANTS, latlon_ok=True, max_n=9, mnt=True, frames=True, strat=None, groups=True):
    """returns dict describing a kriging problem (everything needed to rebuild it).
    mnt=True: non-identity normalizers, constant / callable means and trends wherever the variant accepts them
    frames=True: a third of the Cartesian problems live in an affine frame raw = origin + unit * local (magnitudes
    1e-3 .. 6e7, e.g. UTM-like 4.5e5 / 5.7e6 with a length unit of 100); the length scale carries the unit
    strat: index of the case in its loop.  Every second case is stratified: the variant cycles through `variants` and
    the combination (exact flag, model nugget > 0) cycles through its four values, so that every variant meets every
    such combination in every run however small; the other cases are drawn freely
    groups=True: layouts with 0..3 groups of coincident / nearly coincident conditioning points (repeated measurements
    at one station: lag exactly 0, inside and outside the isclose band of `cov_nugget`) x nugget {0, > 0} x error kind
    {model nugget, scalar, per-point} x exact flag; every fourth case is such a layout (variant and error kind cycle), a
    sixth of the freely drawn ones too.  `n_base` = number of stations, cond_pos holds the repeated points as well"""
    pv = np.array([VARIANT_WEIGHT[v] for v in variants], dtype=float)
    variant = str(rng.choice(variants, p=pv / pv.sum()))
    forced = None
    n_groups, err_kind = None, None          # None: drawn freely below
    if strat is not None and strat % 2 == 0:
        k = strat // 2
        variant = variants[k % len(variants)]
        c = (k // len(variants)) % 4
        forced = dict(exact=bool(c & 1), nugget=float(rng.choice([0.125, 0.5])) if c & 2 else 0.0)
    elif strat is not None and strat % 4 == 1 and groups:
        # every fourth case is a coincidence case: 1-3 groups of (nearly) coincident conditioning points; the variant and
        # the error kind (model nugget / nugget + exact / scalar error / per-point errors) cycle, the nugget is mostly
        # positive (the regular systems), the rest is drawn freely
        k = strat // 4
        variant = variants[k % len(variants)]
        c = (k // len(variants)) % 4
        n_groups = 1 + int(rng.randint(3))
        err_kind = ["nugget", "nugget", "scalar", "array"][c]
        forced = dict(exact=bool(c == 1), nugget=float(rng.choice([0.125, 0.5])) if rng.rand() < 0.7 else 0.0)
    generic = variant == "Krige"
    # (wave 6: geographic models also with functional drifts — Universal and the generic class; the drift functions act on (lat, lon[, t]))
    latlon = bool(latlon_ok and rng.rand() < (0.25 if variant == "Universal" else 0.15) and variant in ("Simple", "Ordinary", "Universal", "Krige"))
    temporal = bool(rng.rand() < 0.15)
    dim = 2 if latlon else int(rng.randint(1, 4))
    fdim = dim + (1 if temporal else 0)
    if fdim > 3 and not latlon:
        temporal = False
        fdim = dim
    # the generic class is drawn as one of the classical systems or a free combination of the options
    shape = str(rng.choice(["simple", "ordinary", "universal", "extdrift", "free"])) if generic else variant.lower()
    if latlon and shape == "extdrift":
        shape = "ordinary"
    wants_drift = variant == "Universal" or shape in ("universal", "free")
    n = int(rng.randint(2, max_n + (6 if wants_drift else 0)))
    m = int(rng.randint(1, 12))
    cp, tp = gen_positions(rng, latlon, temporal, fdim, n, m)
    n = n_base = cp.shape[1]          # stations; drift / external-drift choices below are made for this number
    if groups and n_groups is None and rng.rand() < 0.17:
        n_groups = 1 + int(rng.randint(3))
    cfg = dict(variant=variant, latlon=latlon, temporal=temporal, dim=dim, fdim=fdim, cond_pos=cp,
               pos=tp, seed=int(rng.randint(0, 2**31 - 1)), n_base=n_base, n_groups=int(n_groups or 0))
    cfg["frame"] = None
    if frames and not latlon and rng.rand() < 0.33:
        unit = float(rng.choice(UNITS))
        cfg["frame"] = dict(unit=unit, origin=[float(unit * r) for r in rng.choice(ORIGIN_RATIOS, size=fdim)])
        cp, tp = to_raw(cfg, cp), to_raw(cfg, tp)
        cfg.update(cond_pos=cp, pos=tp)
    if n_groups:
        # repeated stations: offsets are absolute raw lengths (the isclose band of cov_nugget is absolute)
        cp = add_groups(rng, cp, latlon, n_groups)
        cfg["cond_pos"] = cp
    n = cp.shape[1]
    cfg["exact"] = bool(rng.rand() < 0.3)
    cfg["nugget"] = None          # None: the model's nugget is drawn with the model
    if forced is not None:
        cfg.update(forced)
    cfg["cond_err"] = "nugget"
    if err_kind is None and not cfg["exact"] and rng.rand() < 0.3:
        err_kind = "scalar" if rng.rand() < 0.5 else "array"
    if err_kind == "scalar" and not cfg["exact"]:
        cfg["cond_err"] = float(rng.choice([0.0, 0.0625] if not n_groups else [0.0, 0.0625, 0.0625, 0.25]))
    elif err_kind == "array" and not cfg["exact"]:
        # per-point errors; with repeated stations mostly positive (regular systems), zeros stay possible
        cfg["cond_err"] = rng.randint(1 if (n_groups and rng.rand() < 0.7) else 0, 4 if n_groups else 3, n) / 16.0
    cfg["drift"] = None
    cfg["ext"] = None
    cfg["unbiased"] = None
    if generic:
        cfg["unbiased"] = {"simple": False, "ordinary": True, "universal": True, "extdrift": True}.get(shape, bool(rng.rand() < 0.5))
    if wants_drift:
        ch = str(rng.choice(["linear", "linear", "1", "0", "quadratic", "custom", "custom"])) if n_base > fdim + 2 else "0"
        if ch == "quadratic" and n_base <= (fdim + 1) * (fdim + 2) // 2 + 1:
            ch = "linear"
        if cfg["frame"] is not None and ch in ("linear", "quadratic", "1") and rng.rand() < 0.7:
            ch = "custom"     # polynomial drifts of raw map coordinates make the system numerically singular (discarded)
        if ch == "custom":
            pool = [("coord", int(rng.randint(0, fdim))), ("sinmix",), ("sq", int(rng.randint(0, fdim)))]
            k = int(rng.randint(1, 3))
            sel = [pool[i] for i in rng.permutation(3)[:k]]
            cfg["drift"] = ("custom", sel, bool(rng.rand() < 0.5))
        else:
            cfg["drift"] = ch if ch in ("linear", "quadratic") else int(ch)
        if generic and cfg["drift"] == 0:
            cfg["drift"] = None
    if variant == "ExtDrift" or shape == "extdrift" or (shape == "free" and rng.rand() < 0.4):
        room = n_base - len(drift_callables(cfg)) - 3
        k = int(rng.randint(1, 3)) if room >= 2 else 1
        if room >= 1 or shape != "free":
            cfg["ext"] = (rng.randn(k, n), rng.randn(k, m))
    # a quarter of the problems have some targets ON conditioning points (carrying the data's external drift): the only
    # targets where exact / non-exact kriging and the nugget-aware covariance differ
    if rng.rand() < (0.6 if n_groups else 0.25):
        j = rng.permutation(n)[: int(rng.randint(1, 1 + min(n, m, 3)))]
        idx = rng.permutation(m)[: len(j)]
        tp = np.array(cfg["pos"], copy=True)
        tp[:, idx] = cfg["cond_pos"][:, j]
        if rng.rand() < 0.4:      # ... or nearly on them: lags inside / outside the isclose band of the nugget-aware covariance
            tp[:, idx] += np.array([near_offset(rng, fdim, latlon) for _ in idx]).T
        cfg["pos"] = tp
        if cfg["ext"] is not None:
            et = np.array(cfg["ext"][1], copy=True)
            et[:, idx] = cfg["ext"][0][:, j]
            cfg["ext"] = (cfg["ext"][0], et)
    # mean / normalizer / trend wherever the variant accepts them
    cfg["mean"], cfg["norm"], cfg["trend"] = None, None, None
    takes_mean = variant == "Simple" or generic
    takes_norm = variant != "Detrended"
    if variant == "Detrended":
        cfg["trend"] = gen_func(rng, fdim, 1.0, kinds=("lin", "sin"))
    if mnt:
        if takes_mean:
            cfg["mean"] = gen_func(rng, fdim, 0.6, p=[0.25, 0.3, 0.25, 0.2])
        if takes_norm:
            cfg["norm"] = gen_norm(rng)
        if variant != "Detrended":
            cfg["trend"] = gen_func(rng, fdim, 1.0, p=[0.4, 0.15, 0.25, 0.2])
    elif variant == "Simple":
        cfg["mean"] = ("const", 1.5) if rng.rand() < 0.5 else None
    cfg["cond_val"] = gen_values(rng, cfg, cp)
    cfg["pinv"] = bool(rng.rand() < 0.5)
    cfg["pinv_type"] = str(rng.choice(["pinv", "pinvh"]))
    cfg["chunk"] = None if rng.rand() < 0.4 else int(rng.randint(1, m + 2))
    cfg["model_seed"] = int(rng.randint(0, 2**31 - 1))
    return cfg


def describe(cfg):
    """JSON-friendly description of a configuration"""
    out = {}
    for k, v in cfg.items():
        if k == "ext":
            out[k] = None if v is None else [np.asarray(a).tolist() for a in v]
        elif isinstance(v, np.ndarray):
            out[k] = v.tolist()
        else:
            out[k] = v
    return out


def mnt_tag(cfg):
    """which of mean / normalizer / trend are active: e.g. 'norm=BoxCox/mean=lin/trend=none'"""
    f = lambda s: "none" if s is None else s[0]
    return f"norm={'none' if cfg.get('norm') is None else cfg['norm']['kind']}/mean={f(cfg.get('mean'))}/trend={f(cfg.get('trend'))}"


def build(cfg, capture=None, cond_pos=None, cond_val=None, ext_cond=None, model=None, fit=None):
    """construct the Krige object described by cfg.  capture: list receiving the raw kriging matrices.
    fit: None | dict(variogram=bool, normalizer=bool) -> fit_variogram / fit_normalizer of the constructor"""
    import gstools as gs
    from gstools import krige
    mr = np.random.RandomState(cfg["model_seed"])
    if model is None:
        model = make_model(mr, cfg["dim"], cfg["latlon"], cfg["temporal"], nugget=cfg.get("nugget"), unit=unit_of(cfg))
    cp = cfg["cond_pos"] if cond_pos is None else cond_pos
    cv = cfg["cond_val"] if cond_val is None else cond_val
    kw = dict(exact=cfg["exact"], cond_err=cfg["cond_err"], pseudo_inv=cfg["pinv"], pseudo_inv_type=cfg["pinv_type"])
    if fit:
        kw.update(fit_variogram=bool(fit.get("variogram")), fit_normalizer=bool(fit.get("normalizer")))
    if capture is not None:
        def cap(mat, _t=cfg["pinv_type"], _p=cfg["pinv"]):
            capture.append(np.array(mat, copy=True))
            if not _p:
                return spl.inv(mat)
            return spl.pinv(mat) if _t == "pinv" else spl.pinvh(mat)
        kw.update(pseudo_inv=True, pseudo_inv_type=cap)
    sc = pos_scale(cfg)
    mean, trend = func_of(cfg.get("mean"), sc), func_of(cfg.get("trend"), sc)
    nt = dict(normalizer=make_normalizer(cfg.get("norm")), trend=trend)
    ext = None if cfg["ext"] is None else (cfg["ext"][0] if ext_cond is None else ext_cond)
    v = cfg["variant"]
    if v == "Simple":
        return krige.Simple(model, cp, cv, mean=0.0 if mean is None else mean, **nt, **kw)
    if v == "Ordinary":
        return krige.Ordinary(model, cp, cv, **nt, **kw)
    if v == "Universal":
        return krige.Universal(model, cp, cv, drift_functions=drift_arg(cfg), **nt, **kw)
    if v == "ExtDrift":
        return krige.ExtDrift(model, cp, cv, ext_drift=ext, **nt, **kw)
    if v == "Detrended":
        kw.pop("fit_normalizer", None)
        return krige.Detrended(model, cp, cv, trend=trend, **kw)
    if v == "Krige":
        return krige.Krige(model, cp, cv, drift_functions=drift_arg(cfg), ext_drift=ext, mean=mean,
                           unbiased=cfg["unbiased"], **nt, **kw)
    raise ValueError(v)


@contextlib.contextmanager
def capture_kernel(store):
    """wrap the kernel entry points of krige/base.py; store gets (name, krig_mat, k_vec, cond, result)"""
    from gstools.krige import base
    o1, o2 = base._calc_field_krige_and_variance, base._calc_field_krige

    def w1(mat, vec, cond, *a, **k):
        r = o1(mat, vec, cond, *a, **k)
        store.append(("fv", np.array(mat), np.array(vec), np.array(cond), (np.array(r[0]), np.array(r[1]))))
        return r

    def w2(mat, vec, cond, *a, **k):
        r = o2(mat, vec, cond, *a, **k)
        store.append(("f", np.array(mat), np.array(vec), np.array(cond), (np.array(r),)))
        return r
    base._calc_field_krige_and_variance, base._calc_field_krige = w1, w2
    try:
        yield
    finally:
        base._calc_field_krige_and_variance, base._calc_field_krige = o1, o2


def call(kr, cfg, pos=None, **kw):
    pos = cfg["pos"] if pos is None else pos
    args = dict(chunk_size=cfg["chunk"])
    if cfg["ext"] is not None:
        args["ext_drift"] = cfg["ext"][1]
    args.update(kw)
    return kr(pos, **args)


# ------------------------------------------------------------------ independent solve (from the configuration alone)
def cond_err_of(cfg, model, n):
    ce = cfg["cond_err"]
    if isinstance(ce, str):
        return np.full(n, float(model.nugget))
    return np.broadcast_to(np.asarray(ce, dtype=float), (n,)).copy()


def prepared_data(cfg, cond_pos=None, cond_val=None):
    """normalize(cond_val - trend(cond_pos)) - mean(cond_pos), with the reference formulas"""
    cp = cfg["cond_pos"] if cond_pos is None else cond_pos
    cv = cfg["cond_val"] if cond_val is None else cond_val
    sc = pos_scale(cfg)
    return ref_normalize(cfg.get("norm"), cv - eval_spec(cfg.get("trend"), cp, sc)) - eval_spec(cfg.get("mean"), cp, sc)


def ref_post(cfg, raw, pos):
    """trend(pos) + denormalize(mean(pos) + raw), with the reference formulas"""
    sc = pos_scale(cfg)
    pos = np.asarray(pos, dtype=float).reshape(cfg["fdim"], -1)
    raw = np.asarray(raw, dtype=float)
    y = raw.reshape(-1) + eval_spec(cfg.get("mean"), pos, sc)
    return (eval_spec(cfg.get("trend"), pos, sc) + ref_denormalize(cfg.get("norm"), y)).reshape(raw.shape)


def solve_direct(cfg, model, pos, ext_t=None, only_mean=False):
    """kriging by solving the system with numpy for each target.  Everything is derived from the configuration
    (variant, drift, errors, exact flag, mean / normalizer / trend specs) and the covariance model; nothing is
    read from a Krige object.  Returns dict(raw, var, cond, z)."""
    cp = np.asarray(cfg["cond_pos"], dtype=float)
    n = cp.shape[1]
    tp = np.asarray(pos, dtype=float).reshape(cfg["fdim"], -1)
    m = tp.shape[1]
    cp_iso, tp_iso = model.isometrize(cp), model.isometrize(tp)
    C = model.covariance(cdist(cp_iso.T, cp_iso.T)) + np.diag(cond_err_of(cfg, model, n))
    rows, trows = [], []
    if is_unbiased(cfg):
        rows.append(np.ones(n)); trows.append(np.ones(m))
    for f in drift_callables(cfg):
        rows.append(np.broadcast_to(f(*cp), (n,))); trows.append(np.broadcast_to(f(*tp), (m,)))
    if cfg["ext"] is not None:
        et = cfg["ext"][1] if ext_t is None else ext_t
        for a, b in zip(np.atleast_2d(cfg["ext"][0]), np.atleast_2d(et)):
            rows.append(a); trows.append(b)
    r = len(rows)
    B = np.array(rows, dtype=float).reshape(r, n)
    K = np.block([[C, B.T], [B, np.zeros((r, r))]])
    # right-hand side: plain covariance; in exact mode the nugget-aware one — the sill at lags inside numpy's isclose band
    # of 0 (own formula, not `model.cov_nugget`).  The error term never enters off the diagonal of C above, however
    # close two conditioning points are.
    lag = cdist(cp_iso.T, tp_iso.T)
    ck = np.zeros((n, m)) if only_mean else model.covariance(lag)
    if cfg["exact"] and not only_mean:
        ck = np.where(lag <= BAND, float(model.var) + float(model.nugget), ck)
    k = np.vstack([ck, np.array(trows, dtype=float).reshape(r, m)])
    z = np.concatenate([prepared_data(cfg), np.zeros(r)])
    sill = float(model.var) + float(model.nugget)
    try:
        cond = float(np.linalg.cond(K))
        W = np.linalg.solve(K, k)
    except np.linalg.LinAlgError:        # exactly singular (coincident points without measurement error): no system to compare with
        return dict(raw=np.full(m, np.nan), var=np.full(m, np.nan), cond=np.inf, z=z, K=K)
    if not np.isfinite(cond):
        cond = np.inf
    return dict(raw=z @ W, var=np.maximum(sill - np.einsum("ij,ij->j", k, W), 0), cond=cond, z=z, K=K)


def rebuild_model(m):
    """a new model object with the parameters read back from `m` (public attributes only); None if the copy
    does not compare equal (then the case is not used)"""
    kw = dict(var=float(m.var), len_scale=float(m.len_scale), nugget=float(m.nugget))
    for a in m.opt_arg:
        kw[a] = getattr(m, a)
    if m.latlon:
        kw.update(latlon=True, geo_scale=float(m.geo_scale))
        if m.temporal:
            kw.update(temporal=True, anis=float(m.anis[-1]))
    else:
        if m.temporal:
            kw.update(temporal=True, spatial_dim=int(m.spatial_dim))
        else:
            kw["dim"] = int(m.dim)
        if m.dim > 1:
            kw.update(anis=[float(a) for a in m.anis], angles=[float(a) for a in m.angles])
    try:
        with warnings.catch_warnings():
            warnings.simplefilter("ignore")
            c = type(m)(**kw)
    except Exception:
        return None
    same = (c == m and c.var == m.var and c.len_scale == m.len_scale and c.nugget == m.nugget
            and np.array_equal(c.anis, m.anis) and np.array_equal(c.angles, m.angles)
            and c.geo_scale == m.geo_scale and c.rescale == m.rescale)
    return c if same else None


# ------------------------------------------------------------------ operation histories on one Krige object
class History:
    """A random history of {model edits, mean/normalizer/trend re-assignments, set_condition in all argument forms,
    calls} on ONE Krige object.  `cur` is the configuration a freshly constructed object would be given now;
    `ops` is the same history over abstract version identifiers for the Lean protocol model (krige_history)."""

    def __init__(self, rng, cfg, zero_mode=None):
        self.rng = rng
        self.cur = copy.deepcopy(cfg)
        self.zero_mode = zero_mode          # C06: None | "exact" | "zero-err" | "no-nugget"
        self.log = []
        # construction with fit_variogram / fit_normalizer: the start model is fitted in place (directionally, along its
        # rotated main axes, when it is not isotropic), the normaliser's parameters are fitted to the detrended data
        fit = self.draw_fit(0.3)
        self.kr = build(cfg, model=make_hist_model(cfg, zero_mode), fit=fit)
        if fit:
            self.after_fit(fit, "constructed")
        self.counter = 1
        self.init_ids = dict(model=1, pos=1, val=1, err=1, ext=1 if cfg["ext"] is not None else 0, mnt=1)
        self.ops = []
        self.stale = False       # a model edit happened after the last set_condition
        self.need_val = False    # the current values may be outside the range of the current normalizer / trend
        self.last_sel = None     # indices of the conditioning points the last on-data call was placed on
        # target positions: identifier -> (positions, mesh type); unstructured positions are (fdim, m) arrays,
        # structured ones lists of fdim axes.  `given` = identifier of the positions last given to the object
        # (by a call that passed positions or by set_pos), None = never
        self.pos_ids = {}
        self.given = None
        self.data_call = None    # (sel) while the last given targets are conditioning points `sel` of the current cond_pos
        self.kinds = {}

    def _id(self):
        self.counter += 1
        return self.counter

    # -- fitting inside the constructor / set_condition
    def draw_fit(self, p):
        """None or dict(variogram, normalizer): which fits the next construction / set_condition asks for"""
        rng, cfg = self.rng, self.cur
        if rng.rand() >= p:
            return None
        # (the fit also fits the nugget: not used where the history must stay nugget-free)
        fv = not (cfg["latlon"] and cfg["temporal"]) and self.zero_mode != "no-nugget" and cfg["cond_pos"].shape[1] >= 4
        fn = cfg.get("norm") is not None and cfg["norm"]["kind"] in NORM_LMBDA and cfg["variant"] != "Detrended" \
            and cfg["cond_pos"].shape[1] >= 4
        fit = dict(variogram=bool(fv and rng.rand() < 0.8), normalizer=bool(fn and rng.rand() < 0.5))
        return fit if (fit["variogram"] or fit["normalizer"]) else None

    def after_fit(self, fit, where):
        """read the fitted normaliser parameters back into the current configuration (the fitted model is read back
        by `fresh` like every other model state)"""
        if fit.get("normalizer"):
            nz = self.kr.normalizer
            spec = dict(self.cur["norm"], lmbda=float(nz.lmbda))
            if spec["kind"] == "BoxCoxShift":
                spec["shift"] = float(nz.shift)
            self.cur["norm"] = spec
        self.log.append("fit:" + where + ":" + "+".join(k for k in ("variogram", "normalizer") if fit.get(k))
                        + (":aniso" if not self.kr.model.is_isotropic else ":iso"))

    # -- model edits
    def edit_model(self):
        rng, kr, cfg = self.rng, self.kr, self.cur
        m = kr.model
        kinds = ["len_scale", "var", "replace"]
        if self.zero_mode != "no-nugget":
            kinds.append("nugget")
        if not cfg["latlon"] and cfg["fdim"] > 1:
            kinds += ["anis", "angles"]
        k = str(rng.choice(kinds))
        if k == "len_scale":
            m.len_scale = float(m.len_scale) * float(rng.choice([0.5, 1.5, 2.0]))
        elif k == "var":
            m.var = float(m.var) * float(rng.choice([0.5, 2.0, 3.0]))
        elif k == "nugget":
            m.nugget = float(rng.choice([v for v in (0.0, 0.125, 0.5, 0.75) if v != m.nugget]))
        elif k == "anis":
            m.anis = [float(a) for a in rng.choice([0.25, 0.5, 2.0, 3.0], size=cfg["fdim"] - 1)]
        elif k == "angles":
            m.angles = [float(a) for a in rng.uniform(-1.5, 1.5, size=cfg["fdim"] * (cfg["fdim"] - 1) // 2)]
        else:
            kr.model = make_model(rng, cfg["dim"], cfg["latlon"], cfg["temporal"],
                                  nugget=0.0 if self.zero_mode == "no-nugget" else None, unit=unit_of(cfg))
        self.stale = True
        self.ops.append(dict(k="model", v=self._id()))
        self.log.append("model:" + k)

    # -- mean / normalizer / trend re-assignment
    def edit_mnt(self):
        rng, kr, cfg = self.rng, self.kr, self.cur
        v = cfg["variant"]
        kinds = []
        if v in ("Simple", "Krige"):
            kinds.append("mean")
        if v != "Detrended":
            kinds += ["norm", "trend"]
        else:
            kinds.append("trend")
        k = str(rng.choice(kinds))
        sc = pos_scale(cfg)
        if k == "mean":
            cfg["mean"] = gen_func(rng, cfg["fdim"], 0.6, kinds=("const", "lin", "sin"))
            kr.mean = func_of(cfg["mean"], sc)
            lo, hi = gauss_range(cfg.get("norm"))
            self.need_val |= np.isfinite(lo) or np.isfinite(hi)
        elif k == "trend":
            cfg["trend"] = gen_func(rng, cfg["fdim"], 1.0, kinds=("const", "lin", "sin") if v == "Detrended" else ("none", "const", "lin", "sin"))
            kr.trend = func_of(cfg["trend"], sc)
            self.need_val |= cfg.get("norm") is not None and cfg["norm"]["kind"] in RESTRICTED
        else:
            cfg["norm"] = gen_norm(rng, p_none=0.25)
            kr.normalizer = make_normalizer(cfg["norm"])
            self.need_val |= cfg["norm"] is not None
        self.ops.append(dict(k="mnt", v=self._id()))
        self.log.append("mnt:" + k)

    # -- set_condition in its argument forms
    def set_condition(self, form=None):
        rng, kr, cfg = self.rng, self.kr, self.cur
        forms = ["none", "val", "pos+val", "val+err", "all", "err"]
        if cfg["ext"] is not None:
            forms += ["ext", "pos+val+ext"]
        else:
            forms.append("pos+val")
        if self.need_val:
            forms = [f for f in forms if "val" in f or f == "all"]
        form = str(rng.choice(forms)) if form is None else form
        n = cfg["cond_pos"].shape[1]
        kw, op = {}, dict(k="set_condition")
        if form in ("pos+val", "pos+val+ext", "all"):
            arr_err = isinstance(cfg["cond_err"], np.ndarray)
            n_new = n if (arr_err and form != "all") or rng.rand() < 0.5 else int(rng.randint(max(2, n - 2), n + 3))
            cp, _ = gen_positions(rng, cfg["latlon"], cfg["temporal"], cfg["fdim"], n_new, 1)
            cp = to_raw(cfg, cp)
            if rng.rand() < (0.5 if cfg.get("n_groups") else 0.1):     # new stations with repeated measurements
                if arr_err and form != "all" and cp.shape[1] == n and n >= 4:
                    cp = add_groups(rng, cp[:, : n - 2], cfg["latlon"], 2, extra_max=1)     # same number of points
                else:
                    cp = add_groups(rng, cp, cfg["latlon"], 1 + int(rng.randint(2)))
            if arr_err and form != "all" and cp.shape[1] != n:
                cp = cfg["cond_pos"] + unit_of(cfg) * rng.uniform(-0.2, 0.2, size=cfg["cond_pos"].shape)
            self.data_call = None      # stored targets (if any) are no longer the conditioning points
            kw["cond_pos"] = cp
            cfg["cond_pos"] = cp
            op["pos"] = self._id()
            n = cp.shape[1]
        if "val" in form or form == "all":
            cv = gen_values(rng, cfg, cfg["cond_pos"])
            kw["cond_val"] = cv
            cfg["cond_val"] = cv
            op["val"] = self._id()
            self.need_val = False
        if form in ("ext", "pos+val+ext", "all") and cfg["ext"] is not None:
            k = cfg["ext"][0].shape[0]
            e = rng.randn(k, n)
            kw["ext_drift"] = e
            cfg["ext"] = (e, None)
            op["ext"] = self._id()
        elif "cond_pos" in kw and cfg["ext"] is not None:
            cfg["ext"] = None          # documented: the stored drift is only reused when no new positions are given
        if form in ("val+err", "all", "err"):
            if cfg["exact"] or self.zero_mode == "no-nugget":
                ce = "nugget"
            elif self.zero_mode == "zero-err":
                ce = 0.0
            else:
                ce = [float(rng.choice([0.0, 0.0625, 0.125])), rng.randint(0, 3, n) / 16.0, "nugget"][int(rng.randint(0, 3))]
            kw["cond_err"] = ce
            cfg["cond_err"] = ce
            op["err"] = self._id()
        if rng.rand() < 0.3 and "cond_pos" in kw and "cond_val" in kw:   # positional form
            args = [kw.pop("cond_pos"), kw.pop("cond_val")]
        else:
            args = []
        fit = self.draw_fit(0.25)
        if fit:
            kw.update(fit_variogram=fit["variogram"], fit_normalizer=fit["normalizer"])
            if fit["variogram"]:
                op["fitv"] = self._id()
            if fit["normalizer"]:
                op["fitn"] = self._id()
        kr.set_condition(*args, **kw)
        self.stale = False
        self.ops.append(op)
        self.log.append("set_condition:" + form)
        if fit:
            self.after_fit(fit, "set_condition")
        return form

    # -- target positions
    def _reg(self, pos, mesh):
        i = self._id()
        self.pos_ids[i] = (pos, mesh)
        return i

    def _far(self, structured):
        """well separated random targets (unstructured: 1-8 points; structured: 1-4 values per axis)"""
        rng, cfg = self.rng, self.cur
        if not structured:
            _, tp = gen_positions(rng, cfg["latlon"], cfg["temporal"], cfg["fdim"], 2, int(rng.randint(1, 9)))
            return to_raw(cfg, tp)
        _, tp = gen_positions(rng, cfg["latlon"], cfg["temporal"], cfg["fdim"], 2, 4)
        tp = to_raw(cfg, tp)
        axes = [tp[i, : int(rng.randint(1, 5))].copy() for i in range(cfg["fdim"])]
        return [np.sort(a) for a in axes] if rng.rand() < 0.5 else axes

    def _near(self, pos, mesh):
        """positions of identical shape that differ only slightly relative to their magnitude: relative changes
        1e-12 .. 1e-2 of all coordinates, of one axis, or of a single coordinate (never identical to `pos`)"""
        rng, cfg = self.rng, self.cur
        comps = [np.array(a, dtype=float, copy=True) for a in pos]
        r = 10.0 ** rng.uniform(-12, -2)
        mode = str(rng.choice(["rel", "shift", "shift-axis", "jitter", "one"]))
        which = range(len(comps)) if mode in ("rel", "shift", "jitter") else [int(rng.randint(len(comps)))]
        for i in which:
            a = comps[i]
            mag = max(float(np.abs(a).max()), 1e-3 * unit_of(cfg))
            sg = float(rng.choice([-1.0, 1.0]))
            if mode == "rel":
                a *= 1.0 + sg * r
            elif mode in ("shift", "shift-axis"):
                a += sg * r * mag
            elif mode == "jitter":
                a *= 1.0 + r * rng.uniform(-1, 1, size=a.shape)
            else:
                j = int(rng.randint(a.size))
                a[j] += sg * r * max(abs(a[j]), 1e-3 * unit_of(cfg))
        if all(np.array_equal(a, b) for a, b in zip(comps, pos)):      # r below the resolution: one ulp instead
            comps[0][0] = np.nextafter(comps[0][0], np.inf)
        return (comps if mesh else np.array(comps)), "near:" + mode + (":<1e-5" if r < 1e-5 else ":>=1e-5")

    def flat(self, pid):
        """the requested targets as an (fdim, m) array in the order of the returned (C-ordered) field"""
        pos, mesh = self.pos_ids[pid]
        if not mesh:
            return np.asarray(pos, dtype=float).reshape(self.cur["fdim"], -1)
        return np.array(np.meshgrid(*pos, indexing="ij")).reshape(self.cur["fdim"], -1)

    def stored_is(self, pid, obj=None):
        """the public `pos` / `mesh_type` of the object are exactly the positions `pid` (None: nothing stored)"""
        kr = self.kr if obj is None else obj
        if pid is None:
            return kr.pos is None
        pos, mesh = self.pos_ids[pid]
        if kr.pos is None or kr.mesh_type != ("structured" if mesh else "unstructured"):
            return False
        if not mesh:
            return isinstance(kr.pos, np.ndarray) and np.array_equal(kr.pos, np.asarray(pos, dtype=float).reshape(self.cur["fdim"], -1))
        return len(kr.pos) == len(pos) and all(np.array_equal(np.asarray(a), b) for a, b in zip(kr.pos, pos))

    def set_pos(self, pid):
        """`kr.set_pos(pos, mesh_type)`; returns whether the stored positions are the given ones afterwards"""
        pos, mesh = self.pos_ids[pid]
        self.kr.set_pos([a.copy() for a in pos] if mesh else pos.copy(), "structured" if mesh else "unstructured")
        self.given = pid
        self.data_call = None
        self.ops.append(dict(k="set_pos", p=pid, structured=bool(mesh)))
        self.log.append("set_pos")
        return self.stored_is(pid)

    # -- calls
    def plan_call(self, on_data=False):
        """chooses the positional part of the next call.  Returns dict(kind, pid (identifier of the positions passed
        or None), mesh (bool), via (bool), pre_set (identifier handed to set_pos before the call, or None))"""
        rng, cfg = self.rng, self.cur
        have = self.given is not None
        prev = self.pos_ids[self.given] if have else None
        if on_data:
            k = cfg["cond_pos"].shape[1]
            sel = rng.permutation(k)[: max(1, k // 2)]
            return dict(kind="data", pid=self._reg(cfg["cond_pos"][:, sel].copy(), False), mesh=False,
                        via=bool(rng.rand() < 0.3), pre_set=None, sel=sel)
        if have:
            kinds, p = ["far", "far-structured", "near", "none", "none-via", "switch", "grid", "repeat", "set_pos", "mixed"], \
                [0.15, 0.09, 0.25, 0.12, 0.05, 0.05, 0.05, 0.04, 0.07, 0.13]
        else:
            kinds, p = ["far", "far-structured", "none", "none-via", "set_pos", "mixed"], [0.4, 0.2, 0.04, 0.03, 0.13, 0.2]
        kind = str(rng.choice(kinds, p=p))
        via = bool(rng.rand() < 0.3)
        out = dict(kind=kind, pre_set=None, sel=None, via=via)
        if kind == "mixed":       # conditioning points followed by free targets
            k = cfg["cond_pos"].shape[1]
            sel = rng.permutation(k)[: max(1, k // 2)]
            out.update(pid=self._reg(np.hstack([cfg["cond_pos"][:, sel], self._far(False)]), False), mesh=False)
        elif kind in ("far", "far-structured"):
            mesh = kind == "far-structured"
            out.update(pid=self._reg(self._far(mesh), mesh), mesh=mesh)
        elif kind == "near":
            npos, tag = self._near(*prev)
            out.update(pid=self._reg(npos, prev[1]), mesh=prev[1], kind=tag)
        elif kind == "repeat":    # equal coordinates in a new array
            pos, mesh = prev
            out.update(pid=self._reg([a.copy() for a in pos] if mesh else pos.copy(), mesh), mesh=mesh)
            out["sel"] = self.data_call
        elif kind in ("none", "none-via"):
            # no positions: the stored ones are reused.  Plain calls ignore the mesh_type argument then; the methods
            # structured() / unstructured() refuse to reuse positions of the other type
            out.update(pid=None, mesh=bool(rng.rand() < 0.5), via=kind == "none-via")
            if kind == "none-via" and have and rng.rand() < 0.7:
                out["mesh"] = prev[1]
            out["sel"] = self.data_call
        elif kind == "switch":    # the same coordinate tuple under the other mesh type
            pos, mesh = prev
            if mesh and len({len(a) for a in pos}) == 1:
                out.update(pid=self._reg(np.array(pos), False), mesh=False)
            elif not mesh and pos.shape[1] <= (4 if cfg["fdim"] == 3 else 8):
                out.update(pid=self._reg([a.copy() for a in pos], True), mesh=True)
            else:
                out.update(kind="far", pid=self._reg(self._far(False), False), mesh=False)
        elif kind == "grid":      # unstructured call at the grid points of the stored axes
            pos, mesh = prev
            if mesh:
                out.update(pid=self._reg(self.flat(self.given), False), mesh=False)
            else:
                out.update(kind="far-structured", pid=self._reg(self._far(True), True), mesh=True)
        else:                     # set_pos with new / nearly equal positions, then a call without positions
            if have and rng.rand() < 0.5:
                npos, tag = self._near(*prev)
                out.update(pre_set=self._reg(npos, prev[1]), kind="set_pos:" + tag)
            else:
                mesh = bool(rng.rand() < 0.3)
                out.update(pre_set=self._reg(self._far(mesh), mesh))
            out.update(pid=None, mesh=bool(rng.rand() < 0.5), via=False)
        return out

    def call_args(self, on_data=False):
        """plans and prepares one call: returns the event dict (without the result).  A planned set_pos is executed."""
        rng, cfg = self.rng, self.cur
        plan = self.plan_call(on_data)
        ev = dict(plan, hist=self, stored_ok=True)
        if plan["pre_set"] is not None:
            ev["stored_ok"] = self.set_pos(plan["pre_set"])
        # the targets the call is asked to evaluate (specification side, tracked by the harness on its own)
        if plan["pid"] is not None:
            req = plan["pid"]
        elif self.given is not None and not (plan["via"] and self.pos_ids[self.given][1] != plan["mesh"]):
            req = self.given
        else:
            req = None
        ev["req"] = req
        ev["flat"] = None if req is None else self.flat(req)
        self.last_sel = plan["sel"] if (req is not None and plan["sel"] is not None) else None
        ev["sel"] = self.last_sel
        m = 1 if req is None else ev["flat"].shape[1]
        kw = dict(chunk_size=None if rng.rand() < 0.4 else int(rng.randint(1, m + 2)),
                  only_mean=bool(rng.rand() < 0.15), return_var=bool(rng.rand() < 0.7),
                  post_process=bool(rng.rand() < 0.6), store=bool(rng.rand() < 0.5))
        if self.last_sel is not None:
            kw.update(only_mean=False, return_var=True, post_process=True)
        if cfg["ext"] is not None:
            kw["ext_drift"] = rng.randn(cfg["ext"][0].shape[0], m)
            if self.last_sel is not None:     # targets on the data carry the data's external drift
                kw["ext_drift"] = np.asarray(cfg["ext"][0])[:, self.last_sel].copy()
        ev["kw"] = kw
        pos = None if plan["pid"] is None else self.pos_ids[plan["pid"]][0]
        ev["tp"] = pos
        self.kinds[plan["kind"]] = self.kinds.get(plan["kind"], 0) + 1
        return ev

    @staticmethod
    def _canon(fn):
        try:
            with warnings.catch_warnings():
                warnings.simplefilter("ignore")
                out = fn()
        except Exception as e:
            return ("error", type(e).__name__)
        if isinstance(out, tuple):
            return ("ok", np.array(out[0]), np.array(out[1]))
        return ("ok", np.array(out), None)

    def call(self, tp, kw, obj=None, mesh=False, via=False):
        """returns ("ok", field, var-or-None) or ("error", type name)"""
        kr = self.kr if obj is None else obj
        mt = "structured" if mesh else "unstructured"
        arg = None if tp is None else ([a.copy() for a in tp] if isinstance(tp, list) else np.array(tp, copy=True))
        if via:
            f = kr.structured if mesh else kr.unstructured
            return self._canon((lambda: f(**kw)) if arg is None else (lambda: f(arg, **kw)))
        return self._canon(lambda: kr(arg, mesh_type=mt, **kw))

    def do_call(self, ev):
        """executes the planned call on the object with the history and records it"""
        ev["res"] = self.call(ev["tp"], ev["kw"], mesh=ev["mesh"], via=ev["via"])
        op = dict(k="call", structured=bool(ev["mesh"]), via=bool(ev["via"]))
        if ev["pid"] is not None:
            op["pos"] = ev["pid"]
            self.given = ev["pid"]
            self.data_call = ev["sel"] if ev["kind"] in ("data", "repeat") else None
        self.ops.append(op)
        ev["given"] = self.given
        # public attributes afterwards: the stored positions are the ones last given
        ev["stored_ok"] = ev["stored_ok"] and self.stored_is(self.given)
        return ev

    def call_fresh(self, ev, obj):
        """the same call on another (freshly constructed) object, which is GIVEN the requested targets explicitly"""
        if ev["req"] is None:
            return self.call(None, ev["kw"], obj=obj, mesh=ev["mesh"], via=ev["via"])
        pos, mesh = self.pos_ids[ev["req"]]
        return self.call(pos, ev["kw"], obj=obj, mesh=mesh, via=False)

    def fresh(self):
        """a freshly constructed object with the current model parameters and conditions (or None)"""
        mod = rebuild_model(self.kr.model)
        if mod is None:
            return None, None
        with warnings.catch_warnings():
            warnings.simplefilter("ignore")
            return build(self.cur, model=mod), mod


def make_hist_model(cfg, zero_mode):
    mr = np.random.RandomState(cfg["model_seed"])
    return make_model(mr, cfg["dim"], cfg["latlon"], cfg["temporal"], nugget=0.0 if zero_mode == "no-nugget" else cfg.get("nugget"),
                      unit=unit_of(cfg))


def run_history(rng, cfg, segments=3, zero_mode=None):
    """generator: drives one History and yields, for every call made, the event dict
    (hist, kind, tp, mesh, via, req, flat, kw, res, synced, step, sel, stored_ok, given).  Calls in a stale state
    (model edited, no set_condition yet) are made and yielded with synced=False (nothing is claimed about their
    values; their positions count).  The calls use new, nearly equal, repeated or no positions, both mesh types,
    the methods structured()/unstructured() and set_pos (History.plan_call)."""
    with warnings.catch_warnings():
        warnings.simplefilter("ignore")
        h = History(rng, cfg, zero_mode)
    step = 0

    def one(on_data, synced=None):
        nonlocal step
        with warnings.catch_warnings():
            warnings.simplefilter("ignore")
            ev = h.do_call(h.call_args(on_data=on_data))
        step += 1
        ev.update(synced=(not h.stale) if synced is None else synced, step=step)
        return ev
    for seg in range(segments):
        # calls on the synced object (first segment: the freshly constructed one)
        for _ in range(int(rng.randint(1, 4))):
            if h.need_val:
                break
            yield one(bool(zero_mode) and rng.rand() < 0.4, True)
        # edits
        ne = int(rng.randint(0, 3))
        for _ in range(ne):
            with warnings.catch_warnings():
                warnings.simplefilter("ignore")
                (h.edit_model if rng.rand() < 0.7 else h.edit_mnt)()
            if rng.rand() < 0.3 and not h.need_val:      # a call between the edits and set_condition
                yield one(False)
        with warnings.catch_warnings():
            warnings.simplefilter("ignore")
            h.set_condition()
    for _ in range(int(rng.randint(1, 4))):
        yield one(bool(zero_mode) and rng.rand() < 0.4, True)


# ------------------------------------------------------------------ hand-written geometry and kriging (wave 6)
# Nothing below reads the geometry (isometrize / anis / angles caches) or the sill of a model object under test: distances
# come from `hand_iso`, the covariance profile from a freshly constructed ISOTROPIC model with scalar parameters (or from
# model.covariance for the variance-factor models), the sill is the reported variance + nugget.
def hand_iso(dim, anis, angles):
    """the linear map taking positions to the isotropic coordinates of a model whose main axes are rotated by the
    Tait-Bryan angles (planes xy, xz, yz with alternating signs) and whose transversal length scales are anis * len_scale"""
    rot = np.eye(dim)
    for i, (a, (p_, q_)) in enumerate(zip(list(angles)[: {1: 0, 2: 1, 3: 3}[dim]], [(0, 1), (0, 2), (1, 2)])):
        g = np.eye(dim)
        th = (-1) ** i * a
        g[p_, p_] = g[q_, q_] = np.cos(th)
        g[p_, q_], g[q_, p_] = -np.sin(th), np.sin(th)
        rot = g @ rot
    return np.diag(1.0 / np.array([1.0] + [float(x) for x in anis])) @ rot.T


def hand_solve(profile, sill, a, b, z, err, unbiased=False, rows_c=(), rows_t=(), exact=False, only_mean=False):
    """kriging system assembled and solved with numpy.  a (n, d), b (m, d): ISOTROPIC coordinates of conditioning points and
    targets; profile: covariance as a function of the lag; z: prepared data; err (n,): diagonal loading (measurement error /
    nugget).  Returns dict(raw, var, cond)"""
    n, m = a.shape[0], b.shape[0]
    rows_c = ([np.ones(n)] if unbiased else []) + [np.broadcast_to(np.asarray(r, dtype=float), (n,)) for r in rows_c]
    rows_t = ([np.ones(m)] if unbiased else []) + [np.broadcast_to(np.asarray(r, dtype=float), (m,)) for r in rows_t]
    r = len(rows_c)
    K = np.zeros((n + r, n + r))
    K[:n, :n] = profile(cdist(a, a)) + np.diag(np.broadcast_to(np.asarray(err, dtype=float), (n,)))
    lag = cdist(a, b)
    k = np.zeros((n + r, m))
    if not only_mean:
        k[:n] = np.where(lag <= BAND, sill, profile(lag)) if exact else profile(lag)
    for i, (rc, rt) in enumerate(zip(rows_c, rows_t)):
        K[n + i, :n] = K[:n, n + i] = rc
        k[n + i] = rt
    try:
        cond = float(np.linalg.cond(K))
        W = np.linalg.solve(K, k)
    except np.linalg.LinAlgError:
        return dict(raw=np.full(m, np.nan), var=np.full(m, np.nan), cond=np.inf)
    zz = np.concatenate([np.asarray(z, dtype=float), np.zeros(r)])
    return dict(raw=zz @ W, var=np.maximum(sill - np.einsum("ij,ij->j", k, W), 0.0), cond=cond if np.isfinite(cond) else np.inf)


# ------------------------------------------------------------------ (1) the conditions are the VALUES given at set time
# keys of the aliasing that the unchanged tree has (cond_err / ext_drift float64 arrays are kept by reference: visible through the
# public attributes at once, through the results after the argument-less refresh) — finding AL1 of known_findings.json
ALIAS_PRISTINE = re.compile(r"^\w+:caller-array-aliased:(cond_err|ext_drift)(\+(cond_err|ext_drift))*:"
                            r"(visible-state(-after-refresh)?|(estimate|variance|get-mean|field|data-not-honoured|reported-conditions-not-honoured)-after-refresh)$")


def _mutate(buf, kind, rng, unit=1.0):
    """in-place modification of a caller-owned buffer (ndarray: true in-place arithmetic; python list: slice assignment)"""
    a = buf if isinstance(buf, np.ndarray) else np.array(buf, dtype=float)
    if kind == "scale":
        new = a * 1.7
    elif kind == "shift":
        new = a + 0.83 * unit
    elif kind == "noise":
        new = a + 0.4 * unit * rng.randn(*a.shape)
    else:       # reorder along the last axis
        new = a[..., ::-1].copy()
        if np.array_equal(new, a, equal_nan=True):
            new = a + 0.83 * unit
    if isinstance(buf, np.ndarray):
        if np.issubdtype(buf.dtype, np.integer):
            new = np.where(np.round(new) == a, a + 1, np.round(new))
        buf[...] = new
    else:
        buf[:] = new.tolist()


def _pos_container(form, cp):
    """(object handed to gstools, caller-owned buffers behind it)"""
    cp = np.array(cp, dtype=float)
    if form == "array":
        a = np.ascontiguousarray(cp)
        return a, [a]
    if form == "array-F":
        a = np.asfortranarray(cp)
        return a, [a]
    if form == "tuple":
        t = tuple(np.array(r) for r in cp)
        return t, list(t)
    if form == "list-of-arrays":
        t = [np.array(r) for r in cp]
        return t, list(t)
    if form == "1d":
        a = np.array(cp[0])
        return a, [a]
    if form == "nested-list":
        t = cp.tolist()
        return t, [t]
    raise ValueError(form)


def caller_arrays(rng, cfg):
    """caller-owned containers for the conditions of `cfg` (float64 arrays of the final shape, tuples / lists of 1-D arrays,
    1-D arrays, (n, 1) columns, Fortran order; controls: python lists, integer arrays, data with a NaN entry that is dropped).
    May round cfg["cond_val"] (integer control).  Returns dict(role -> (object, buffers)) and a tag"""
    fdim, n = cfg["cond_pos"].shape
    forms = ["array", "array", "array", "tuple", "list-of-arrays", "nested-list", "array-F"] + (["1d", "1d"] if fdim == 1 else [])
    pform = str(rng.choice(forms))
    vforms = ["array", "array", "array", "column", "list", "nan"] + (["int"] if cfg.get("norm") is None else [])
    vform = str(rng.choice(vforms))
    cp = np.array(cfg["cond_pos"], dtype=float)
    cv = np.array(cfg["cond_val"], dtype=float)
    if vform == "int":
        cv = np.round(cv * 3.0)
        cfg["cond_val"] = cv.copy()
    if vform == "nan":       # an extra station without a value: dropped by set_condition
        cp = np.hstack([cp, cp[:, :1] + 0.37 * unit_of(cfg)])
        cv = np.append(cv, np.nan)
    out = {"cond_pos": _pos_container(pform, cp)}
    if vform in ("array", "nan"):
        v = np.array(cv)
        out["cond_val"] = (v, [v])
    elif vform == "column":
        v = np.array(cv).reshape(-1, 1)
        out["cond_val"] = (v, [v])
    elif vform == "int":
        v = cv.astype(np.int64)
        out["cond_val"] = (v, [v])
    else:
        v = cv.tolist()
        out["cond_val"] = (v, [v])
    tag = f"pos={pform}/val={vform}"
    if isinstance(cfg["cond_err"], np.ndarray):
        eform = str(rng.choice(["array", "array", "list"]))
        e = np.array(cfg["cond_err"], dtype=float) if eform == "array" else np.asarray(cfg["cond_err"], dtype=float).tolist()
        out["cond_err"] = (e, [e])
        tag += f"/err={eform}"
    if cfg["ext"] is not None:
        k = cfg["ext"][0].shape[0]
        xform = str(rng.choice(["array", "array", "list"] + (["1d"] if k == 1 else [])))
        x = np.array(cfg["ext"][0], dtype=float)
        x = x.reshape(-1).copy() if xform == "1d" else (x.tolist() if xform == "list" else x)
        out["ext_drift"] = (x, [x])
        tag += f"/ext={xform}"
    return out, tag


def visible_roles_changed(kr, cfg0, model):
    """roles of the conditions whose PUBLIC value on the object differs from the snapshot taken when they were set"""
    fdim, n = cfg0["cond_pos"].shape
    bad = []
    if not np.array_equal(np.asarray(kr.cond_val, dtype=float).reshape(-1), cfg0["cond_val"]):
        bad.append("cond_val")
    if not np.array_equal(np.asarray(kr.cond_pos, dtype=float).reshape(fdim, -1), cfg0["cond_pos"]):
        bad.append("cond_pos")
    try:
        same_err = np.array_equal(np.broadcast_to(np.asarray(kr.cond_err, dtype=float), (n,)), cond_err_of(cfg0, model, n))
    except ValueError:
        same_err = False
    if not same_err:
        bad.append("cond_err")
    if cfg0["ext"] is not None and not np.array_equal(np.asarray(kr.cond_ext_drift, dtype=float).reshape(cfg0["ext"][0].shape), cfg0["ext"][0]):
        bad.append("ext_drift")
    return bad


def search_caller_mutation(rng, n, prefix="krige"):
    """Krige objects built from caller-owned containers (see `caller_arrays`); the caller then modifies its containers IN PLACE
    (scale, shift, noise, reorder) WITHOUT calling set_condition.  Afterwards, at the same targets given again / the stored
    targets / new targets: estimate, variance and get_mean are those of the data as they were when set (independent numpy solve
    on a snapshot taken before construction), the public cond_val / cond_pos / cond_err / cond_ext_drift are unchanged, and the
    argument-less refresh set_condition() re-installs the conditions as they were set.  Returns (evaluations, violations, summary)"""
    viol, ev, seen, tags, mut = [], 0, set(), {}, {}

    def report(roles, what, text, case, **kw):
        key = f"{prefix}:caller-array-aliased:{roles}:{what}"
        if key not in seen:
            seen.add(key)
            viol.append(dict({"key": key, "what": text, "case": case}, **kw))

    for t in range(n):
        cfg = gen_config(rng, latlon_ok=False, groups=False, strat=2 * t)
        nn = cfg["cond_pos"].shape[1]
        if not cfg["exact"] and rng.rand() < 0.5:
            cfg["cond_err"] = rng.randint(1, 4, nn) / 16.0
        try:
            with warnings.catch_warnings():
                warnings.simplefilter("ignore")
                given, tag = caller_arrays(rng, cfg)
                cfg0 = copy.deepcopy(cfg)                      # the snapshot: the data as they are when set
                mdl = make_model(np.random.RandomState(cfg["model_seed"]), cfg["dim"], cfg["latlon"], cfg["temporal"],
                                 nugget=cfg.get("nugget"), unit=unit_of(cfg))
                gcfg = dict(cfg, cond_err=given["cond_err"][0]) if "cond_err" in given else cfg
                kr = build(gcfg, cond_pos=given["cond_pos"][0], cond_val=given["cond_val"][0],
                           ext_cond=given["ext_drift"][0] if "ext_drift" in given else None)
                stored = bool(rng.rand() < 0.6)
                if stored:
                    call(kr, cfg0, pos=np.array(cfg0["pos"]), post_process=False, store=True)
        except Exception:
            continue
        roles = sorted(given)
        chosen = [str(rng.choice(roles))] if rng.rand() < 0.7 else [r for r in roles if rng.rand() < 0.6] or [roles[0]]
        kinds = {}
        for r in chosen:
            kinds[r] = str(rng.choice(["scale", "shift", "noise", "reorder"]))
            for b in given[r][1]:
                _mutate(b, "scale" if (r == "cond_err" and kinds[r] in ("shift", "noise")) else kinds[r], rng, unit_of(cfg) if r == "cond_pos" else 1.0)
            mut[r + ":" + kinds[r]] = mut.get(r + ":" + kinds[r], 0) + 1
        tags[tag] = tags.get(tag, 0) + 1
        case = dict(describe(cfg0), containers=tag, modified_in_place=kinds, model=repr(mdl))
        m = cfg0["pos"].shape[1]
        k_ext = 0 if cfg0["ext"] is None else cfg0["ext"][0].shape[0]
        _, tnew = gen_positions(rng, False, cfg["temporal"], cfg["fdim"], 2, int(rng.randint(1, 6)))
        tnew = to_raw(cfg0, tnew)
        targets = [("given-again", np.array(cfg0["pos"]), None if not k_ext else cfg0["ext"][1])]
        if stored:
            targets.append(("stored", None, None if not k_ext else cfg0["ext"][1]))
        targets.append(("new", tnew, None if not k_ext else rng.randn(k_ext, tnew.shape[1])))

        def evaluate(what, tlist):
            nonlocal ev
            vis = visible_roles_changed(kr, cfg0, mdl)
            ev += 1
            if vis:
                report("+".join(vis), "visible-state" + what, "after the caller modified its own arrays in place (no set_condition call) the public "
                       + ", ".join(vis) + " of the Krige object differ from the values given when the conditions were set", case)
            rl = "+".join(vis) if vis else "unobserved(" + "+".join(sorted(chosen)) + ")"
            for tk, tp, et in tlist:
                tflat = np.array(cfg0["pos"]) if tp is None else tp
                kw = {} if et is None else {"ext_drift": np.array(et)}
                try:
                    with warnings.catch_warnings():
                        warnings.simplefilter("ignore")
                        got = kr(**dict(kw, post_process=False, store=False)) if tp is None else \
                            kr(np.array(tp), **dict(kw, post_process=False, store=bool(rng.rand() < 0.5), chunk_size=cfg0["chunk"]))
                        ref = solve_direct(cfg0, mdl, tflat, ext_t=et)
                except Exception as ex:
                    report(rl, "raised" + what, f"kriging raised {type(ex).__name__}: {ex} after the caller modified its own arrays", case, targets=tk)
                    continue
                if ref["cond"] > 1e7 or not np.all(np.isfinite(ref["z"])):
                    continue
                tol = 1e-9 * max(ref["cond"], 1) * (1 + np.abs(ref["raw"]).max())
                ev += 1
                okf = np.allclose(got[0], ref["raw"], atol=tol, rtol=0, equal_nan=False)
                okv = np.allclose(got[1], ref["var"], atol=tol, rtol=0, equal_nan=False)
                if not (okf and okv):
                    report(rl, ("estimate" if not okf else "variance") + what,
                           "kriging " + ("estimate" if not okf else "variance") + " at " + tk + " targets differs from the independent solve of the "
                           "conditions as they were when set (the caller modified " + ", ".join(sorted(chosen)) + " in place afterwards"
                           + ("; then the argument-less refresh set_condition()" if what else "") + ")", case, targets=tk,
                           got=[np.asarray(got[0]).tolist(), np.asarray(got[1]).tolist()], want=[ref["raw"].tolist(), ref["var"].tolist()], cond=ref["cond"])
            if is_unbiased(cfg0) and not drift_callables(cfg0) and cfg0["ext"] is None:
                with warnings.catch_warnings():
                    warnings.simplefilter("ignore")
                    gm = kr.get_mean(post_process=False)
                    ref = solve_direct(cfg0, mdl, tnew, only_mean=True)
                if ref["cond"] <= 1e7 and np.all(np.isfinite(ref["z"])):
                    ev += 1
                    if gm is None or not abs(gm - ref["raw"][0]) <= 1e-9 * max(ref["cond"], 1) * (1 + abs(ref["raw"][0])):
                        report(rl, "get-mean" + what, "get_mean differs from the mean estimated from the conditions as they were when set",
                               case, got=None if gm is None else float(gm), want=float(ref["raw"][0]))

        evaluate("", targets)
        if rng.rand() < 0.5:
            try:
                with warnings.catch_warnings():
                    warnings.simplefilter("ignore")
                    kr.set_condition()
            except Exception as ex:
                report("unobserved(" + "+".join(sorted(chosen)) + ")", "raised-after-refresh", f"set_condition() raised {type(ex).__name__}: {ex}", case)
                continue
            evaluate("-after-refresh", [targets[-1]])
    viol.sort(key=lambda v: bool(ALIAS_PRISTINE.match(v["key"])))          # (stable) aliasing of the values / positions first
    tags = {k: sum(v for t_, v in tags.items() if k in t_.split("/")) for k in sorted({x for t_ in tags for x in t_.split("/")})}
    return ev, viol, (f"{n} Krige objects built from caller-owned containers ({tags}), caller buffers modified in place afterwards ({mut}) without "
                      "set_condition: estimate / variance / get_mean at the same, the stored and new targets vs the independent solve of a snapshot "
                      "taken before construction; public cond_val / cond_pos / cond_err / cond_ext_drift unchanged; argument-less refresh re-installs "
                      "the conditions as set")


# ------------------------------------------------------------------ (2) geometry changes through every setter
GEO_CLASSES = {"Gaussian": {}, "Exponential": {}, "Spherical": {}, "Cubic": {}, "Matern": {"nu": 1.5}, "Stable": {"alpha": 1.3},
               "Rational": {"alpha": 2.0}}
GEO_SETTERS = ["len_list", "len_list_short", "len_scalar", "int_list", "int_scalar", "anis", "angles", "dim", "rescale", "var", "nugget"]


class GeoState:
    """own bookkeeping of the documented semantics of the CovModel setters (nothing is read back from the model)"""

    def __init__(self, rng, dim, cls):
        k = {1: 0, 2: 1, 3: 3}[dim]
        self.cls, self.dim = cls, dim
        self.var = float(rng.choice([0.5, 1.0, 2.0]))
        self.L = float(rng.choice([1.0, 2.0, 3.0]))
        self.nugget = float(rng.choice([0.0, 0.0, 0.125]))
        self.rescale = None
        self.anis = [float(a) for a in rng.choice([0.25, 0.5, 1.0, 2.0], size=dim - 1)]
        self.angles = [float(a) for a in rng.uniform(-1.4, 1.4, size=k)] if rng.rand() < 0.7 else [0.0] * k

    def kwargs(self):
        kw = dict(dim=self.dim, var=self.var, len_scale=self.L, nugget=self.nugget, **GEO_CLASSES[self.cls])
        if self.rescale is not None:
            kw["rescale"] = self.rescale
        return kw

    def make(self):
        """the model under test, built with the current geometry"""
        import gstools as gs
        kw = self.kwargs()
        if self.dim > 1:
            kw.update(anis=list(self.anis), angles=list(self.angles))
        return getattr(gs, self.cls)(**kw)

    def profile(self):
        """covariance as a function of the ISOTROPIC lag from a freshly constructed model with scalar parameters only"""
        import gstools as gs
        return getattr(gs, self.cls)(**self.kwargs()).covariance

    def unit_integral_scale(self):
        import gstools as gs
        kw = dict(self.kwargs(), len_scale=1.0)
        return float(getattr(gs, self.cls)(**kw).integral_scale)

    def apply(self, rng, model, setter):
        """performs the setter on `model` and on the bookkeeping; returns a description"""
        d = self.dim
        if setter in ("len_list", "len_list_short", "int_list"):
            if d == 1:
                setter = "len_scalar" if setter.startswith("len") else "int_scalar"
        if setter in ("anis", "angles") and d == 1:
            setter = "len_scalar"
        if setter == "len_list":
            ls = [float(x) for x in rng.choice([0.75, 1.5, 2.5, 4.0], size=d)]
            model.len_scale = ls if rng.rand() < 0.5 else np.array(ls)
            self.L, self.anis = ls[0], [x / ls[0] for x in ls[1:]]
            return f"model.len_scale = {ls}"
        if setter == "len_list_short":        # fewer values than dimensions: the last one is repeated
            ls = [float(x) for x in rng.choice([0.75, 1.5, 2.5, 4.0], size=2)]
            model.len_scale = ls
            full = ls + [ls[-1]] * (d - 2)
            self.L, self.anis = full[0], [x / full[0] for x in full[1:d]]
            return f"model.len_scale = {ls}"
        if setter == "len_scalar":            # keeps the ratios
            self.L = float(rng.choice([0.75, 1.5, 2.5, 4.0]))
            model.len_scale = self.L
            return f"model.len_scale = {self.L}"
        if setter == "int_list":
            ls = [float(x) for x in rng.choice([0.75, 1.5, 2.5, 4.0], size=d)]
            model.integral_scale = ls
            self.L, self.anis = ls[0] / self.unit_integral_scale(), [x / ls[0] for x in ls[1:]]
            return f"model.integral_scale = {ls}"
        if setter == "int_scalar":
            v = float(rng.choice([0.75, 1.5, 2.5, 4.0]))
            model.integral_scale = v
            self.L = v / self.unit_integral_scale()
            return f"model.integral_scale = {v}"
        if setter == "anis":
            self.anis = [float(a) for a in rng.choice([0.3, 0.6, 1.0, 1.8], size=d - 1)]
            model.anis = list(self.anis) if d > 2 or rng.rand() < 0.5 else self.anis[0]
            return f"model.anis = {self.anis}"
        if setter == "angles":
            self.angles = [float(a) for a in rng.uniform(-1.4, 1.4, size={2: 1, 3: 3}[d])]
            model.angles = list(self.angles) if d > 2 or rng.rand() < 0.5 else self.angles[0]
            return f"model.angles = {self.angles}"
        if setter == "dim":
            new = {1: 2, 2: int(rng.choice([1, 3])), 3: 2}[d]
            model.dim = new
            # documented: missing ratios are filled with 1 in FRONT (anis=[e] in 3-D is [1, e]), missing angles with 0
            if new > d:
                self.anis = [1.0] * (new - 1 - len(self.anis)) + list(self.anis)
                self.angles = list(self.angles) + [0.0] * ({1: 0, 2: 1, 3: 3}[new] - len(self.angles))
            else:
                self.anis = list(self.anis)[: new - 1]
                self.angles = list(self.angles)[: {1: 0, 2: 1, 3: 3}[new]]
            self.dim = new
            return f"model.dim = {new}"
        if setter == "rescale":
            self.rescale = float(rng.choice([0.5, 1.0, 2.0, 3.0]))
            model.rescale = self.rescale
            return f"model.rescale = {self.rescale}"
        if setter == "var":
            self.var = float(rng.choice([0.4, 1.5, 2.5]))
            model.var = self.var
            return f"model.var = {self.var}"
        self.nugget = float(rng.choice([0.0, 0.0625, 0.25]))
        model.nugget = self.nugget
        return f"model.nugget = {self.nugget}"


def _geo_layout(rng, dim, n):
    grid = np.array(np.meshgrid(*([np.arange({1: 10, 2: 4, 3: 3}[dim])] * dim), indexing="ij")).reshape(dim, -1)
    idx = rng.choice(grid.shape[1], size=min(n, grid.shape[1]), replace=False)
    return grid[:, idx] * 2.0 + rng.uniform(-0.4, 0.4, size=(dim, len(idx)))


def _geo_drift(variant, pos):
    return [np.asarray(p, dtype=float) for p in pos] if variant == "Universal" else []


def _geo_ext(*pos):
    return np.sin(np.asarray(pos[0], dtype=float) / 3.0) + 0.2 * np.asarray(pos[-1], dtype=float)


def search_geometry_setters(rng, n, prefix="krige"):
    """histories on ONE model object: a Krige object is built (and mostly called) first, then the geometry is changed through
    the model's setters — len_scale as a list / array (redefines the ratios), a short list, a scalar (keeps them),
    integral_scale list / scalar, anis, angles, dim, rescale (and var / nugget) — followed by the documented refresh
    set_condition(), a new Krige object on the same model object, or set_condition with new data; estimate and variance at
    given / stored / new targets are compared with a numpy solve whose distances come from hand-written rotation / stretching
    with the CURRENT geometry (own bookkeeping of the documented setter semantics) and whose covariance profile comes from a
    freshly constructed isotropic model.  Returns (evaluations, violations, summary)"""
    import gstools as gs
    viol, ev, seen, dist = [], 0, set(), {}
    for t in range(n):
        dim = int(rng.choice([1, 2, 2, 2, 3, 3]))
        cls = str(rng.choice(sorted(GEO_CLASSES)))
        variant = ["Simple", "Ordinary", "Universal", "ExtDrift"][t % 4]
        st = GeoState(rng, dim, cls)
        hist = []
        with warnings.catch_warnings():
            warnings.simplefilter("ignore")
            try:
                model = st.make()
            except Exception:
                continue
            exact = bool(st.nugget > 0 and rng.rand() < 0.4)
            err_kind = "nugget" if exact or rng.rand() < 0.6 else str(rng.choice(["scalar", "array"]))

            def new_data():
                nc = int(rng.randint(3, 8)) + (st.dim + 1 if variant == "Universal" else (2 if variant == "ExtDrift" else 0))
                cp = _geo_layout(rng, st.dim, nc)
                nn = cp.shape[1]
                ce = "nugget" if err_kind == "nugget" else (0.0625 if err_kind == "scalar" else rng.randint(0, 3, nn) / 16.0)
                return cp, rng.randn(nn), ce

            def mk(cp, cv, ce):
                kw = dict(exact=exact, cond_err=ce)
                if variant == "Simple":
                    return gs.krige.Simple(model, cp, cv, mean=0.4, **kw)
                if variant == "Ordinary":
                    return gs.krige.Ordinary(model, cp, cv, **kw)
                if variant == "Universal":
                    return gs.krige.Universal(model, cp, cv, "linear", **kw)
                return gs.krige.ExtDrift(model, cp, cv, _geo_ext(*cp), **kw)

            def compare(kr, cp, cv, ce, tp, how, stored=False):
                nonlocal ev
                kw = {"ext_drift": _geo_ext(*tp)} if variant == "ExtDrift" else {}
                try:
                    got = kr(**kw, post_process=False) if stored else kr(np.array(tp), **kw, post_process=False, chunk_size=int(rng.randint(1, 5)))
                except Exception as ex:
                    key = f"{prefix}:geometry-setter:raised:{type(ex).__name__}"
                    if key not in seen:
                        seen.add(key)
                        viol.append({"key": key, "what": f"{type(ex).__name__}: {ex}", "case": dict(history=list(hist), variant=variant)})
                    return
                T = hand_iso(st.dim, st.anis, st.angles)
                err = np.full(cp.shape[1], st.nugget) if isinstance(ce, str) else np.broadcast_to(np.asarray(ce, dtype=float), (cp.shape[1],))
                z = cv - (0.4 if variant == "Simple" else 0.0)
                ref = hand_solve(st.profile(), st.var + st.nugget, (T @ cp).T, (T @ tp).T, z, err, unbiased=variant != "Simple",
                                 rows_c=_geo_drift(variant, cp) + ([_geo_ext(*cp)] if variant == "ExtDrift" else []),
                                 rows_t=_geo_drift(variant, tp) + ([_geo_ext(*tp)] if variant == "ExtDrift" else []), exact=exact)
                if ref["cond"] > 1e7:
                    dist["discarded(cond>1e7)"] = dist.get("discarded(cond>1e7)", 0) + 1
                    return
                ev += 1
                tol = 1e-9 * max(ref["cond"], 1) * (1 + np.abs(ref["raw"]).max())
                okf, okv = np.allclose(got[0], ref["raw"], atol=tol, rtol=0), np.allclose(got[1], ref["var"], atol=tol, rtol=0)
                if not (okf and okv):
                    last = [h.split(" = ")[0].replace("model.", "") + (":list" if "[" in h else ":scalar") for h in hist if h.startswith("model.")][-2:]
                    key = f"{prefix}:geometry-setter:{'+'.join(last) if last else 'constructed'}:{how}"
                    if key not in seen:
                        seen.add(key)
                        viol.append({"key": key, "what": "kriging " + ("estimate" if not okf else "variance") + " differs from the numpy solve of the kriging "
                                     "system with the model's CURRENT geometry (hand-written rotation / stretching; main length scale, ratios and angles "
                                     "as the setters define them) after: " + "; ".join(hist),
                                     "case": dict(variant=variant, model_class=cls, history=list(hist), expected_state=dict(st.kwargs(), anis=st.anis, angles=st.angles),
                                                  model=repr(model), cond_pos=cp.tolist(), cond_val=cv.tolist(), cond_err=ce if isinstance(ce, (str, float)) else np.asarray(ce).tolist(),
                                                  exact=exact, targets=np.asarray(tp).tolist()),
                                     "got": [np.asarray(got[0]).tolist(), np.asarray(got[1]).tolist()], "want": [ref["raw"].tolist(), ref["var"].tolist()], "cond": ref["cond"]})

            try:
                cp, cv, ce = new_data()
                kr = mk(cp, cv, ce)                 # first use of the model
                hist.append(f"{variant}({cls}(dim={dim}, len_scale={st.L}, anis={st.anis}, angles={np.round(st.angles, 3).tolist()}), exact={exact}, cond_err={err_kind})")
                tp = rng.uniform(-1, 7, size=(st.dim, int(rng.randint(2, 7))))
                if rng.rand() < 0.7:
                    hist.append("krige(targets)")
                    compare(kr, cp, cv, ce, tp, "first-call")
                for step in range(int(rng.randint(1, 4))):
                    k = int(rng.randint(1, 3))
                    setters = [str(s) for s in rng.choice(GEO_SETTERS, size=k, replace=False,
                                                          p=np.array([4, 2, 2, 3, 1, 2, 2, 1.5, 1.5, 1, 1]) / 21.0)]
                    old_dim = st.dim
                    for s_ in setters:
                        d_ = st.apply(rng, model, s_)
                        hist.append(d_)
                        dist[d_.split(" = ")[0].replace("model.", "") + (":list" if "[" in d_ else ":scalar")] = \
                            dist.get(d_.split(" = ")[0].replace("model.", "") + (":list" if "[" in d_ else ":scalar"), 0) + 1
                    if st.dim != old_dim:
                        # (the polynomial drift functions of Universal are fixed at construction for the dimension of that time: a new object)
                        route = "new-krige-new-data" if (rng.rand() < 0.5 or variant == "Universal") else "set_condition-new-data"
                    else:
                        route = str(rng.choice(["set_condition", "set_condition", "new-krige", "set_condition-new-data"]))
                    if route.endswith("new-data"):
                        cp, cv, ce = new_data()
                    if route.startswith("new-krige"):
                        kr = mk(cp, cv, ce)
                    elif route == "set_condition":
                        kr.set_condition()
                    else:
                        kr.set_condition(cp, cv, **({"ext_drift": _geo_ext(*cp)} if variant == "ExtDrift" else {}), cond_err=ce)
                    hist.append(route)
                    dist["route:" + route] = dist.get("route:" + route, 0) + 1
                    stored = st.dim == old_dim and kr.pos is not None and rng.rand() < 0.3
                    if not stored:
                        tp = rng.uniform(-1, 7, size=(st.dim, int(rng.randint(2, 7))))
                    compare(kr, cp, cv, ce, tp, route + (":stored-targets" if stored else ""), stored=stored)
            except Exception as ex:
                dist["rejected:" + type(ex).__name__] = dist.get("rejected:" + type(ex).__name__, 0) + 1
                continue
    return ev, viol, (f"{n} histories of geometry changes through the model's setters after first use ({dist}), refreshed by set_condition() / a new Krige on "
                      "the same model object / set_condition with new data, vs a numpy solve with hand-written rotation / stretching for the CURRENT geometry")


# ------------------------------------------------------------------ (3) models whose variance differs from their raw intensity
_USER_MODELS = {}


def user_models():
    """user-defined CovModel subclasses overriding var_factor (var = var_raw * var_factor())"""
    if not _USER_MODELS:
        import gstools as gs

        class ScaledGau(gs.CovModel):
            """Gaussian-type correlation; the variance grows with the rescaled length scale"""

            def cor(self, h):
                return np.exp(-np.asarray(h, dtype=float) ** 2)

            def var_factor(self):
                return 0.5 + 0.75 * self.len_rescaled

        class ShapedExp(gs.CovModel):
            """exponential-type correlation with an optional argument entering the variance factor"""

            def default_opt_arg(self):
                return {"beta": 1.5}

            def cor(self, h):
                return np.exp(-np.abs(np.asarray(h, dtype=float)))

            def var_factor(self):
                return 1.0 / (1.0 + self.beta)

        _USER_MODELS.update(ScaledGau=ScaledGau, ShapedExp=ShapedExp)
    return _USER_MODELS


VARFACTOR_CLASSES = ["TPLGaussian", "TPLExponential", "TPLStable", "ScaledGau", "ShapedExp"]


def varfactor_model(rng, cfg, nugget=None, name=None):
    """a model with var_factor != 1 for the (Cartesian) configuration: TPLGaussian / TPLExponential / TPLStable with
    len_scale != 1, len_low > 0, hurst != 0.5, non-default rescale; user-defined subclasses overriding var_factor"""
    import gstools as gs
    name = str(rng.choice(VARFACTOR_CLASSES)) if name is None else name
    u = unit_of(cfg)
    kw = dict(len_scale=float(rng.choice([0.4, 2.0, 3.0, 5.0])) * u,
              nugget=float(rng.choice([0.0, 0.125, 0.5])) if nugget is None else nugget)
    if cfg["temporal"]:
        kw.update(temporal=True, spatial_dim=cfg["dim"])
    else:
        kw["dim"] = cfg["dim"]
    if cfg["fdim"] > 1 and rng.rand() < 0.5:
        kw["anis"] = [float(a) for a in rng.choice([0.5, 2.0], size=cfg["fdim"] - 1)]
        kw["angles"] = [float(a) for a in rng.uniform(-1.5, 1.5, size=cfg["fdim"] * (cfg["fdim"] - 1) // 2)]
    if name.startswith("TPL"):
        kw.update(hurst=float(rng.choice([0.2, 0.35, 0.5, 0.8])), len_low=float(rng.choice([0.0, 0.5, 1.5])) * u)
        if name == "TPLStable":
            kw["alpha"] = float(rng.choice([0.8, 1.5, 2.0]))
        cls = getattr(gs, name)
    else:
        cls = user_models()[name]
        if name == "ShapedExp":
            kw["beta"] = float(rng.choice([0.5, 1.5, 3.0]))
    if rng.rand() < 0.4:
        kw["rescale"] = float(rng.choice([0.5, 2.0, 3.0]))
    if rng.rand() < 0.5:
        kw["var"] = float(rng.choice([0.5, 1.7, 3.0]))
    else:
        kw["var_raw"] = float(rng.choice([0.5, 1.0, 2.0]))
    with warnings.catch_warnings():
        warnings.simplefilter("ignore")
        return cls(**kw), (cls, kw)


def search_var_factor(rng, n, zero=False, prefix="krige"):
    """every kriging variant on models whose variance is NOT their raw intensity (`varfactor_model`), nugget {0, > 0} x exact x error
    kinds: estimate and variance at free targets and at the data vs the independent solve (model.covariance of the lags; sill =
    REPORTED variance + nugget); 0 <= variance (<= reported sill for simple kriging); zero=True: zero measurement error (exact mode /
    zero error / nugget-free) -> the data are reproduced with variance 0 (nugget for zero error).  Returns (evaluations, violations, summary)"""
    viol, ev, seen, dist = [], 0, set(), {}

    def report(key, what, case, **kw):
        if key not in seen:
            seen.add(key)
            viol.append(dict({"key": key, "what": what, "case": case}, **kw))

    for t in range(n):
        cfg = gen_config(rng, latlon_ok=False, groups=False, strat=2 * t)
        mode = None
        if zero:
            mode = ["exact", "zero-err", "no-nugget"][t % 3]
            cfg = dict(cfg)
            if mode == "exact":
                cfg.update(exact=True, cond_err="nugget")
            elif mode == "zero-err":
                cfg.update(exact=False, cond_err=0.0)
            else:
                cfg.update(exact=False, cond_err="nugget")
        nug = cfg.get("nugget")
        if mode == "no-nugget":
            nug = 0.0
        elif mode in ("exact", "zero-err") or (cfg["exact"] and rng.rand() < 0.7):
            nug = float(rng.choice([0.125, 0.5]))
        try:
            model, (cls, kw) = varfactor_model(rng, cfg, nugget=nug)
            with warnings.catch_warnings():
                warnings.simplefilter("ignore")
                ref_model = cls(**kw)            # a second object: the oracle never shares state with the object under test
                vf = float(model.var / model.var_raw)
                kr = build(cfg, model=model)
                ext_c = {"ext_drift": cfg["ext"][0]} if cfg["ext"] else {}
                ft, vt = call(kr, cfg, post_process=False, store=False)
                fd, vd = kr(cfg["cond_pos"], post_process=False, store=False, **ext_c)
                fp, _ = kr(cfg["cond_pos"], post_process=True, store=False, **ext_c)
                rt = solve_direct(cfg, ref_model, cfg["pos"])
                rd = solve_direct(cfg, ref_model, cfg["cond_pos"], ext_t=cfg["ext"][0] if cfg["ext"] else None)
        except Exception as ex:
            dist["rejected:" + type(ex).__name__] = dist.get("rejected:" + type(ex).__name__, 0) + 1
            continue
        if max(rt["cond"], rd["cond"]) > 1e7 or not np.all(np.isfinite(rt["z"])):
            dist["discarded(cond>1e7)"] = dist.get("discarded(cond>1e7)", 0) + 1
            continue
        sill = float(ref_model.var) + float(ref_model.nugget)
        tag = f"{type(model).__name__}/var_factor{'=1' if abs(vf - 1) < 1e-12 else '!=1'}/nugget{'>0' if model.nugget > 0 else '=0'}/exact={cfg['exact']}"
        dist[tag] = dist.get(tag, 0) + 1
        case = dict(describe(cfg), model=repr(model), model_kwargs={k: (v if not isinstance(v, list) else list(v)) for k, v in kw.items()},
                    var=float(model.var), var_raw=float(model.var_raw), var_factor=vf, reported_sill=sill, mode=mode)
        tol = 1e-9 * max(rt["cond"], rd["cond"], 1) * (1 + np.abs(rt["raw"]).max() + np.abs(rd["raw"]).max())
        ev += 2
        for nm, got, ref in (("targets", (ft, vt), rt), ("data", (fd, vd), rd)):
            okf, okv = np.allclose(got[0], ref["raw"], atol=tol, rtol=0), np.allclose(got[1], ref["var"], atol=tol + 1e-9 * sill, rtol=0)
            if not (okf and okv):
                report(f"{prefix}:var-factor:direct-solve:{'estimate' if not okf else 'variance'}:{cfg['variant']}",
                       "kriging " + ("estimate" if not okf else "variance") + f" at the {nm} differs from the independent solve (model.covariance of the lags, sill = "
                       f"reported variance + nugget) for a model with variance factor {vf:.4g}", case,
                       got=[np.asarray(got[0]).tolist(), np.asarray(got[1]).tolist()], want=[ref["raw"].tolist(), ref["var"].tolist()], cond=ref["cond"])
        ev += 1
        allv = np.concatenate([np.ravel(vt), np.ravel(vd)])
        if np.any(allv < 0):
            report(f"{prefix}:var-factor:negative-variance", "negative kriging variance", case, got=allv.tolist())
        if not is_unbiased(cfg) and not drift_callables(cfg) and cfg["ext"] is None and np.any(allv > sill * (1 + 1e-9)):
            report(f"{prefix}:var-factor:variance-above-sill", f"simple kriging variance exceeds the sill (reported variance + nugget = {sill:.6g})", case,
                   got=allv.tolist())
        if zero:
            ev += 1
            z = prepared_data(cfg)
            dtol = 1e-7 * (1 + np.abs(z).max()) * max(1.0, rd["cond"] / 1e3)
            vexp = float(ref_model.nugget) if mode == "zero-err" else 0.0
            if not np.allclose(fd, z, atol=dtol, rtol=0):
                report(f"{prefix}:var-factor:exactness:{cfg['variant']}:{mode}", "raw kriged field at the conditioning points differs from the prepared data "
                       f"(zero measurement error, variance factor {vf:.4g})", case, got=np.asarray(fd).tolist(), want=z.tolist(), cond=rd["cond"])
            if not np.all(np.abs(vd - vexp) <= 1e-7 * sill * max(1.0, rd["cond"] / 1e3)):
                report(f"{prefix}:var-factor:zero-variance:{cfg['variant']}:{mode}", "kriging variance at the conditioning points is not "
                       f"{'the nugget' if vexp else 'zero'} (variance factor {vf:.4g})", case, got=np.asarray(vd).tolist(), want=vexp, cond=rd["cond"])
            want = ref_post(cfg, z, cfg["cond_pos"])
            if np.all(np.isfinite(want)) and not np.allclose(fp, cfg["cond_val"], atol=1e-6 * (1 + np.abs(cfg["cond_val"]).max()) * max(1.0, rd["cond"] / 1e3), rtol=1e-6):
                report(f"{prefix}:var-factor:exactness-post:{cfg['variant']}:{mode}", "post-processed kriged field at the conditioning points differs from the data",
                       case, got=np.asarray(fp).tolist(), want=np.asarray(cfg["cond_val"]).tolist(), cond=rd["cond"])
    return ev, viol, (f"{n} kriging problems on models with var != var_raw (TPLGaussian / TPLExponential / TPLStable with len_scale != 1, len_low > 0, hurst != 0.5, "
                      f"rescale; user-defined subclasses overriding var_factor): {dist}; vs the independent solve (sill = reported variance + nugget), variance in "
                      "[0, sill]" + ("; exactness and zero variance at the data under zero measurement error" if zero else ""))
