"""Random kriging configurations on the real gstools API + observation by wrapping module attributes.

Also here (shared by C05 and C06): independent reference formulas for the normalizers, mean/trend/drift
specifications, an independent solve of the kriging system built from the configuration alone (never from
attributes of the Krige object under test), and random operation histories on one Krige object."""
import contextlib
import copy
import itertools
import warnings
import numpy as np
import scipy.linalg as spl
from scipy.spatial.distance import cdist


MODELS = ["Gaussian", "Exponential", "Spherical", "Matern", "Stable", "Cubic", "Rational", "Linear", "Circular"]


def make_model(rng, dim, latlon=False, temporal=False, nugget=None, aniso=True, names=None, unit=1.0):
    """unit: length unit of the coordinates (the drawn length scale is multiplied by it; ignored for lat-lon)"""
    with warnings.catch_warnings():
        warnings.simplefilter("ignore")
        return _make_model(rng, dim, latlon, temporal, nugget, aniso, names, unit)


def _make_model(rng, dim, latlon=False, temporal=False, nugget=None, aniso=True, names=None, unit=1.0):
    import gstools as gs
    name = str(rng.choice(names or MODELS))
    if dim > 1 and name == "Linear":
        name = "Exponential"
    if dim > 2 and name == "Circular":
        name = "Gaussian"
    kw = dict(var=float(rng.choice([0.5, 1.0, 2.0])), len_scale=float(rng.choice([1.0, 2.0, 4.0])))
    if nugget is None:
        nugget = float(rng.choice([0.0, 0.0, 0.125, 0.5]))
    kw["nugget"] = nugget
    if latlon:
        kw.update(latlon=True, geo_scale=float(rng.choice([1.0, gs.KM_SCALE, gs.DEGREE_SCALE])))
        kw["len_scale"] = kw["len_scale"] * kw["geo_scale"] * 0.3
        if temporal:
            kw.update(temporal=True, anis=float(rng.choice([0.5, 1.0, 2.0])))
        return getattr(gs, name)(**kw)
    if unit != 1.0:
        kw["len_scale"] = kw["len_scale"] * float(unit)
    fdim = dim + (1 if temporal else 0)
    if temporal:
        kw.update(temporal=True, spatial_dim=dim)
    else:
        kw["dim"] = dim
    if aniso and fdim > 1 and rng.rand() < 0.6:
        kw["anis"] = [float(a) for a in rng.choice([0.25, 0.5, 2.0], size=fdim - 1)]
        kw["angles"] = [float(a) for a in rng.uniform(-1.5, 1.5, size=fdim * (fdim - 1) // 2)]
    return getattr(gs, name)(**kw)


# ------------------------------------------------------------------ normalizers: specs + independent formulas
NORMS = ["LogNormal", "BoxCox", "BoxCoxShift", "YeoJohnson", "Modulus", "Manly"]
NORM_LMBDA = {"BoxCox": [0.3, 0.5, 1.5, -0.5, 0.0], "BoxCoxShift": [0.3, 0.5, 1.5, -0.5, 0.0],
              "YeoJohnson": [0.5, 1.5, 0.0, 2.0, 0.3, 2.5], "Modulus": [0.5, 1.5, 0.0, -0.5], "Manly": [0.3, -0.3, 0.5]}
RESTRICTED = ("LogNormal", "BoxCox", "BoxCoxShift")     # normalizers whose input range is bounded below


def gen_norm(rng, p_none=0.4, kinds=None):
    """None (identity) or dict(kind, lmbda, shift)"""
    if rng.rand() < p_none:
        return None
    kind = str(rng.choice(kinds or NORMS))
    lm = float(rng.choice(NORM_LMBDA[kind])) if kind in NORM_LMBDA else 1.0
    sh = float(rng.choice([0.5, 1.5, -0.25])) if kind == "BoxCoxShift" else 0.0
    return dict(kind=kind, lmbda=lm, shift=sh)


def make_normalizer(spec):
    """a new gstools normalizer object for the spec (None -> None = identity)"""
    import gstools as gs
    if spec is None:
        return None
    kw = {}
    if spec["kind"] in NORM_LMBDA:
        kw["lmbda"] = spec["lmbda"]
    if spec["kind"] == "BoxCoxShift":
        kw["shift"] = spec["shift"]
    return getattr(gs.normalizer, spec["kind"])(**kw)


def norm_par(spec):
    """arguments of the Lean normaliser model"""
    from proto import fbits
    if spec is None:
        return dict(kind="Normalizer", lmbda=fbits([1.0])[0], shift=fbits([0.0])[0])
    return dict(kind=spec["kind"], lmbda=fbits([spec["lmbda"]])[0], shift=fbits([spec["shift"]])[0])


def _snap(l, kind):
    """the exponent with the documented limit forms: within np.isclose of 0 (and of 2 for Yeo-Johnson) the
    normalisers ARE the logarithmic / linear limit (C18 models this predicate); only fitted exponents ever fall
    strictly inside these bands, the generated ones are exactly on or far from them"""
    if abs(l) <= 1e-8:
        return 0.0
    if kind == "YeoJohnson" and abs(l - 2.0) <= 1e-8 + 2e-5:
        return 2.0
    return l


def ref_normalize(spec, x):
    """independent formulas (textbook definitions), NaN outside the input range"""
    x = np.asarray(x, dtype=float)
    if spec is None:
        return x.copy()
    k, l, s = spec["kind"], _snap(spec["lmbda"], spec["kind"]), spec["shift"]
    with np.errstate(all="ignore"):
        if k == "LogNormal":
            return np.where(x > 0, np.log(x), np.nan)
        if k in ("BoxCox", "BoxCoxShift"):
            xs = x + (s if k == "BoxCoxShift" else 0.0)
            r = np.log(xs) if l == 0 else (xs ** l - 1.0) / l
            return np.where(x > (-s if k == "BoxCoxShift" else 0.0), r, np.nan)
        if k == "YeoJohnson":
            xp, xm = np.maximum(x, 0), np.minimum(x, 0)
            pos = np.log1p(xp) if l == 0 else ((xp + 1.0) ** l - 1.0) / l
            neg = -np.log1p(-xm) if l == 2 else -((1.0 - xm) ** (2.0 - l) - 1.0) / (2.0 - l)
            return np.where(x >= 0, pos, neg)
        if k == "Modulus":
            a = np.abs(x)
            return np.sign(x) * (np.log1p(a) if l == 0 else ((a + 1.0) ** l - 1.0) / l)
        if k == "Manly":
            return x.copy() if l == 0 else (np.exp(l * x) - 1.0) / l
    raise ValueError(k)


def ref_denormalize(spec, y):
    """independent inverse formulas, NaN outside the image of the forward map"""
    y = np.asarray(y, dtype=float)
    if spec is None:
        return y.copy()
    k, l, s = spec["kind"], _snap(spec["lmbda"], spec["kind"]), spec["shift"]
    with np.errstate(all="ignore"):
        if k == "LogNormal":
            return np.exp(y)
        if k in ("BoxCox", "BoxCoxShift"):
            sh = s if k == "BoxCoxShift" else 0.0
            if l == 0:
                return np.exp(y) - sh
            b = 1.0 + l * y
            return np.where(b > 0, np.abs(b) ** (1.0 / l), np.nan) - sh
        if k == "YeoJohnson":
            yp, ym = np.maximum(y, 0), np.minimum(y, 0)
            pos = np.expm1(yp) if l == 0 else (l * yp + 1.0) ** (1.0 / l) - 1.0
            neg = -np.expm1(-ym) if l == 2 else 1.0 - (1.0 - (2.0 - l) * ym) ** (1.0 / (2.0 - l))
            return np.where(y >= 0, pos, neg)
        if k == "Modulus":
            a = np.abs(y)
            return np.sign(y) * (np.expm1(a) if l == 0 else (1.0 + l * a) ** (1.0 / l) - 1.0)
        if k == "Manly":
            if l == 0:
                return y.copy()
            b = 1.0 + l * y
            return np.where(b > 0, np.log(np.abs(b)), np.nan) / l
    raise ValueError(k)


def gauss_range(spec):
    """(lo, hi) interval of normalised values that the inverse map accepts with a safety margin"""
    if spec is None:
        return -np.inf, np.inf
    k, l = spec["kind"], _snap(spec["lmbda"], spec["kind"])
    if k in ("BoxCox", "BoxCoxShift", "Manly") and l != 0:
        return (-0.8 / l, np.inf) if l > 0 else (-np.inf, 0.8 / abs(l))
    if k in ("YeoJohnson", "Modulus") and l < 0:
        return -0.8 / abs(l), 0.8 / abs(l)
    if k == "YeoJohnson" and l > 2:
        return -0.8 / (l - 2), np.inf
    return -np.inf, np.inf


# ------------------------------------------------------------------ mean / trend / drift functions as data
class Frame:
    """coordinates of a configuration: raw = origin + unit * local (projected map coordinates with a large false
    easting / northing, millimetres, kilometres ...).  User functions (mean, trend, custom drifts) are written in
    local coordinates; `scale` is the divisor the mean / trend functions apply to them."""

    def __init__(self, scale, origin, unit):
        self.scale = np.asarray(scale, dtype=float)
        self.origin = np.asarray(origin, dtype=float)
        self.unit = float(unit)

    def loc(self, x, i, div=None):
        """local coordinate i of the position tuple x, divided by `div` (default: scale[i])"""
        d = self.scale[i] if div is None else div
        return (np.asarray(x[i], dtype=float) - self.origin[i]) / d


UNITS = [1e-3, 0.05, 1.0, 100.0, 100.0, 1e3]                       # length of one local unit in raw coordinates
ORIGIN_RATIOS = [0.0, 0.0, 12.5, 4.5e3, 5.7e4, -2.3e4, 1e4]        # |origin| / unit (UTM: 4.5e5 m / 5.7e6 m with unit 100 m)


def unit_of(cfg):
    fr = cfg.get("frame")
    return 1.0 if fr is None else float(fr["unit"])


def origin_of(cfg):
    fr = cfg.get("frame")
    return np.zeros(cfg["fdim"]) if fr is None else np.asarray(fr["origin"], dtype=float)


def to_raw(cfg, p):
    """local coordinates (fdim, m) -> raw coordinates of the configuration"""
    if cfg.get("frame") is None:
        return np.asarray(p, dtype=float)
    return origin_of(cfg)[:, None] + unit_of(cfg) * np.asarray(p, dtype=float)


def pos_scale(cfg):
    """the Frame of a configuration (opaque argument `scale` of func_of / eval_spec)"""
    if cfg["latlon"]:
        return Frame(np.array([90.0, 180.0, 4.0][: cfg["fdim"]]), np.zeros(cfg["fdim"]), 1.0)
    return Frame(np.full(cfg["fdim"], 8.0) * unit_of(cfg), origin_of(cfg), unit_of(cfg))


def gen_func(rng, fdim, amp, kinds=("none", "const", "lin", "sin"), p=None):
    """None | ("const", c) | ("lin", a0, coefs) | ("sin", a0, b, w): functions of the scaled coordinates"""
    k = str(rng.choice(kinds, p=p))
    if k == "none":
        return None
    a0 = float(np.round(rng.uniform(-1, 1) * amp, 3))
    if k == "const":
        return ("const", a0 if a0 != 0 else 0.25 * amp)
    if k == "lin":
        return ("lin", a0, [float(c) for c in np.round(rng.uniform(-1, 1, fdim) * amp, 3)])
    return ("sin", a0, float(np.round(rng.uniform(0.3, 1) * amp, 3)), float(rng.choice([2.0, 3.0, 5.0])))


def func_of(spec, scale):
    """the python object handed to gstools: None, a float, or a callable f(x, [y, z])"""
    if spec is None:
        return None
    if spec[0] == "const":
        return float(spec[1])
    if spec[0] == "lin":
        a0, c = spec[1], list(spec[2])
        return lambda *x: a0 + sum(ci * scale.loc(x, i) for i, ci in enumerate(c))
    if spec[0] == "sin":
        a0, b, w = spec[1:]
        return lambda *x: a0 + b * np.sin(w * scale.loc(x, 0)) + 0.5 * b * scale.loc(x, len(x) - 1)
    raise ValueError(spec)


def eval_spec(spec, pos, scale):
    """values of a mean/trend spec at raw positions (dim, m) -> (m,)"""
    pos = np.asarray(pos, dtype=float)
    m = pos.shape[1]
    f = func_of(spec, scale)
    if f is None:
        return np.zeros(m)
    if not callable(f):
        return np.full(m, f)
    return np.broadcast_to(np.asarray(f(*pos), dtype=float), (m,)).copy()


def drift_callables(cfg):
    """drift functions of the configuration as an independent list of callables (own monomial basis for the
    polynomial drifts, the user functions for custom drifts)"""
    d = cfg.get("drift")
    if d is None:
        return []
    if isinstance(d, tuple):    # ("custom", [specs])
        return [custom_drift(sp, pos_scale(cfg)) for sp in d[1]]
    order = {"linear": 1, "quadratic": 2}.get(d, d)
    out = []
    for deg in range(1, int(order) + 1):
        for sel in itertools.combinations_with_replacement(range(cfg["fdim"]), deg):
            out.append(lambda *x, _s=sel: np.prod([np.asarray(x[i], dtype=float) for i in _s], axis=0))
    return out


def custom_drift(sp, fr):
    """user drift functions of the local coordinates (x - origin) / unit"""
    u = fr.unit
    if sp[0] == "coord":
        i = sp[1]
        return lambda *x: fr.loc(x, i, u)
    if sp[0] == "sinmix":
        return lambda *x: np.sin(fr.loc(x, 0, u)) + 0.5 * fr.loc(x, len(x) - 1, u)
    if sp[0] == "sq":
        i = sp[1]
        return lambda *x: 0.1 * fr.loc(x, i, u) ** 2
    raise ValueError(sp)


def drift_arg(cfg):
    """the `drift_functions` argument handed to gstools"""
    d = cfg.get("drift")
    if isinstance(d, tuple):
        fs = [custom_drift(sp, pos_scale(cfg)) for sp in d[1]]
        return fs[0] if (len(fs) == 1 and d[2]) else fs     # a single callable may be passed bare
    return d


def is_unbiased(cfg):
    v = cfg["variant"]
    if v in ("Simple", "Detrended"):
        return False
    if v == "Krige":
        return bool(cfg["unbiased"])
    return True


def gen_values(rng, cfg, cp):
    """conditioning values that are valid for the configuration's normaliser / mean / trend:
    value = trend + denormalize(mean + gaussian)"""
    n = cp.shape[1]
    sc = pos_scale(cfg)
    if cfg.get("norm") is None:
        return rng.randn(n) * 2 + 1
    lo, hi = gauss_range(cfg["norm"])
    y = np.clip(np.clip(rng.randn(n) * 0.6, -1.3, 1.3) + eval_spec(cfg.get("mean"), cp, sc), lo, hi)
    return eval_spec(cfg.get("trend"), cp, sc) + ref_denormalize(cfg["norm"], y)


def gen_positions(rng, latlon, temporal, fdim, n, m):
    if latlon:
        cp = np.vstack([rng.uniform(-80, 80, n), rng.uniform(-170, 170, n)] + ([rng.uniform(0, 4, n)] if temporal else []))
        tp = np.vstack([rng.uniform(-80, 80, m), rng.uniform(-170, 170, m)] + ([rng.uniform(0, 4, m)] if temporal else []))
    else:
        # well separated conditioning points (jittered lattice) keep the system well conditioned
        grid = np.array(np.meshgrid(*([np.arange(4)] * fdim), indexing="ij")).reshape(fdim, -1)
        idx = rng.choice(grid.shape[1], size=min(n, grid.shape[1]), replace=False)
        n = len(idx)
        cp = grid[:, idx] * 2.0 + rng.uniform(-0.4, 0.4, size=(fdim, n))
        tp = rng.uniform(-1, 7, size=(fdim, m))
    return cp, tp


# raw offsets of (nearly) coincident points.  `CovModel.cov_nugget` treats lags inside numpy's isclose band of 0
# (|r| <= 1e-8 in ISOMETRISED coordinates: raw offsets divided by the anisotropy ratios / chordal distances scaled by
# geo_scale) as lag 0; the offsets straddle that band whatever the anisotropy / geo_scale is.  The class a pair falls
# into (same / in-band / near) is determined afterwards from the model's own isometrised distances (`coincidence`)
GROUP_OFFSETS = [0.0, 0.0, 0.0, 1e-9, 3e-9, 6e-9, 3e-8, 1e-7, 1e-6]
GROUP_OFFSETS_DEG = [0.0, 0.0, 0.0, 1e-11, 1e-10, 1e-9, 1e-7, 1e-5]
BAND = 1e-8


def near_offset(rng, fdim, latlon):
    """offset vector (fdim,) of one of the magnitudes above along one axis, all axes, or a random direction"""
    mag = float(rng.choice(GROUP_OFFSETS_DEG if latlon else GROUP_OFFSETS))
    if mag == 0.0:
        return np.zeros(fdim)
    mode = int(rng.randint(3))
    if mode == 0:
        v = np.zeros(fdim)
        v[int(rng.randint(fdim))] = float(rng.choice([-1.0, 1.0]))
    elif mode == 1:
        v = rng.choice([-1.0, 1.0], size=fdim) / np.sqrt(fdim)
    else:
        v = rng.randn(fdim)
        v /= max(np.linalg.norm(v), 1e-300)
    return mag * v


def add_groups(rng, cp, latlon, groups, extra_max=2):
    """`groups` anchors among the columns of `cp` get 1..extra_max further conditioning points at the anchor plus a
    near_offset (repeated / nearly repeated measurements at one station); the columns are shuffled afterwards so that
    coincident points are not adjacent.  Returns the new positions (fdim, n + extras)"""
    fdim, n = cp.shape
    groups = min(int(groups), n)
    if groups <= 0:
        return cp
    cols = [cp]
    for a in rng.permutation(n)[:groups]:
        for _ in range(int(rng.randint(1, extra_max + 1))):
            cols.append((cp[:, a] + near_offset(rng, fdim, latlon))[:, None])
    out = np.hstack(cols)
    return out[:, rng.permutation(out.shape[1])]


def iso_dists(model, a, b=None):
    """the lags the kriging system is built from: Euclidean distances of the isometrised positions"""
    ia = model.isometrize(a)
    ib = ia if b is None else model.isometrize(b)
    return cdist(ia.T, ib.T)


def coincidence(cfg, model, cond_pos=None):
    """classification of the conditioning layout by the model's isometrised lags: dict(
    same = number of pairs at lag exactly 0, band = pairs with 0 < lag <= 1e-8 (inside the isclose band of
    cov_nugget), near = pairs with 1e-8 < lag <= 1e-5, groups = number of connected groups of in-band points,
    isolated = boolean mask of the points with NO other conditioning point inside the band)"""
    cp = np.asarray(cfg["cond_pos"] if cond_pos is None else cond_pos, dtype=float)
    n = cp.shape[1]
    d = iso_dists(model, cp)
    off = ~np.eye(n, dtype=bool)
    inb = (d <= BAND) & off
    iu = np.triu_indices(n, 1)
    lab = np.arange(n)
    changed = True
    while changed:                          # connected components of the in-band relation (tiny n)
        changed = False
        for i, j in zip(*np.nonzero(inb)):
            lo = min(lab[i], lab[j])
            if lab[i] != lo or lab[j] != lo:
                lab[i] = lab[j] = lo
                changed = True
    grp = len({l for l in lab if np.sum(lab == l) > 1})
    return dict(same=int(np.sum(d[iu] == 0)), band=int(np.sum((d[iu] > 0) & (d[iu] <= BAND))),
                near=int(np.sum((d[iu] > BAND) & (d[iu] <= 1e-5))), groups=grp, isolated=~inb.any(axis=1), labels=lab)


def coin_tag(cfg, model, cond_pos=None):
    """short tag of the coincidence class of a layout x error kind x nugget, for the input distribution"""
    c = coincidence(cfg, model, cond_pos)
    ce = cfg["cond_err"]
    ek = "nugget" if isinstance(ce, str) else ("array" if isinstance(ce, np.ndarray) else "scalar")
    lay = "distinct" if not (c["same"] or c["band"] or c["near"]) else \
        "+".join(k for k in ("same", "band", "near") if c[k]) + f"/groups={min(c['groups'], 3)}"
    return f"coin:{lay}/err={ek}/nugget{'>0' if model.nugget > 0 else '=0'}/exact={cfg['exact']}"


VARIANTS = ("Simple", "Ordinary", "Universal", "ExtDrift", "Detrended", "Krige")
VARIANT_WEIGHT = {"Simple": 0.2, "Ordinary": 0.13, "Universal": 0.17, "ExtDrift": 0.15, "Detrended": 0.1, "Krige": 0.25}


def gen_config(rng, variants=VARIANTS, latlon_ok=True, max_n=9, mnt=True, frames=True, strat=None, groups=True):
    """returns dict describing a kriging problem (everything needed to rebuild it).
    mnt=True: non-identity normalizers, constant / callable means and trends wherever the variant accepts them
    frames=True: a third of the Cartesian problems live in an affine frame raw = origin + unit * local (magnitudes
    1e-3 .. 6e7, e.g. UTM-like 4.5e5 / 5.7e6 with a length unit of 100); the length scale carries the unit
    strat: index of the case in its loop.  Every second case is stratified: the variant cycles through `variants` and
    the combination (exact flag, model nugget > 0) cycles through its four values, so that every variant meets every
    such combination in every run however small; the other cases are drawn freely
    groups=True: layouts with 0..3 groups of coincident / nearly coincident conditioning points (repeated measurements
    at one station: lag exactly 0, inside and outside the isclose band of `cov_nugget`) x nugget {0, > 0} x error kind
    {model nugget, scalar, per-point} x exact flag; every fourth case is such a layout (variant and error kind cycle), a
    sixth of the freely drawn ones too.  `n_base` = number of stations, cond_pos holds the repeated points as well"""
    pv = np.array([VARIANT_WEIGHT[v] for v in variants], dtype=float)
    variant = str(rng.choice(variants, p=pv / pv.sum()))
    forced = None
    n_groups, err_kind = None, None          # None: drawn freely below
    if strat is not None and strat % 2 == 0:
        k = strat // 2
        variant = variants[k % len(variants)]
        c = (k // len(variants)) % 4
        forced = dict(exact=bool(c & 1), nugget=float(rng.choice([0.125, 0.5])) if c & 2 else 0.0)
    elif strat is not None and strat % 4 == 1 and groups:
        # every fourth case is a coincidence case: 1-3 groups of (nearly) coincident conditioning points; the variant and
        # the error kind (model nugget / nugget + exact / scalar error / per-point errors) cycle, the nugget is mostly
        # positive (the regular systems), the rest is drawn freely
        k = strat // 4
        variant = variants[k % len(variants)]
        c = (k // len(variants)) % 4
        n_groups = 1 + int(rng.randint(3))
        err_kind = ["nugget", "nugget", "scalar", "array"][c]
        forced = dict(exact=bool(c == 1), nugget=float(rng.choice([0.125, 0.5])) if rng.rand() < 0.7 else 0.0)
    generic = variant == "Krige"
    latlon = bool(latlon_ok and rng.rand() < 0.15 and variant in ("Simple", "Ordinary", "Krige"))
    temporal = bool(rng.rand() < 0.15)
    dim = 2 if latlon else int(rng.randint(1, 4))
    fdim = dim + (1 if temporal else 0)
    if fdim > 3 and not latlon:
        temporal = False
        fdim = dim
    # the generic class is drawn as one of the classical systems or a free combination of the options
    shape = str(rng.choice(["simple", "ordinary", "universal", "extdrift", "free"])) if generic else variant.lower()
    if latlon and shape in ("universal", "extdrift", "free"):
        shape = "ordinary"
    wants_drift = variant == "Universal" or shape in ("universal", "free")
    n = int(rng.randint(2, max_n + (6 if wants_drift else 0)))
    m = int(rng.randint(1, 12))
    cp, tp = gen_positions(rng, latlon, temporal, fdim, n, m)
    n = n_base = cp.shape[1]          # stations; drift / external-drift choices below are made for this number
    if groups and n_groups is None and rng.rand() < 0.17:
        n_groups = 1 + int(rng.randint(3))
    cfg = dict(variant=variant, latlon=latlon, temporal=temporal, dim=dim, fdim=fdim, cond_pos=cp,
               pos=tp, seed=int(rng.randint(0, 2**31 - 1)), n_base=n_base, n_groups=int(n_groups or 0))
    cfg["frame"] = None
    if frames and not latlon and rng.rand() < 0.33:
        unit = float(rng.choice(UNITS))
        cfg["frame"] = dict(unit=unit, origin=[float(unit * r) for r in rng.choice(ORIGIN_RATIOS, size=fdim)])
        cp, tp = to_raw(cfg, cp), to_raw(cfg, tp)
        cfg.update(cond_pos=cp, pos=tp)
    if n_groups:
        # repeated stations: offsets are absolute raw lengths (the isclose band of cov_nugget is absolute)
        cp = add_groups(rng, cp, latlon, n_groups)
        cfg["cond_pos"] = cp
    n = cp.shape[1]
    cfg["exact"] = bool(rng.rand() < 0.3)
    cfg["nugget"] = None          # None: the model's nugget is drawn with the model
    if forced is not None:
        cfg.update(forced)
    cfg["cond_err"] = "nugget"
    if err_kind is None and not cfg["exact"] and rng.rand() < 0.3:
        err_kind = "scalar" if rng.rand() < 0.5 else "array"
    if err_kind == "scalar" and not cfg["exact"]:
        cfg["cond_err"] = float(rng.choice([0.0, 0.0625] if not n_groups else [0.0, 0.0625, 0.0625, 0.25]))
    elif err_kind == "array" and not cfg["exact"]:
        # per-point errors; with repeated stations mostly positive (regular systems), zeros stay possible
        cfg["cond_err"] = rng.randint(1 if (n_groups and rng.rand() < 0.7) else 0, 4 if n_groups else 3, n) / 16.0
    cfg["drift"] = None
    cfg["ext"] = None
    cfg["unbiased"] = None
    if generic:
        cfg["unbiased"] = {"simple": False, "ordinary": True, "universal": True, "extdrift": True}.get(shape, bool(rng.rand() < 0.5))
    if wants_drift:
        ch = str(rng.choice(["linear", "linear", "1", "0", "quadratic", "custom", "custom"])) if n_base > fdim + 2 else "0"
        if ch == "quadratic" and n_base <= (fdim + 1) * (fdim + 2) // 2 + 1:
            ch = "linear"
        if cfg["frame"] is not None and ch in ("linear", "quadratic", "1") and rng.rand() < 0.7:
            ch = "custom"     # polynomial drifts of raw map coordinates make the system numerically singular (discarded)
        if ch == "custom":
            pool = [("coord", int(rng.randint(0, fdim))), ("sinmix",), ("sq", int(rng.randint(0, fdim)))]
            k = int(rng.randint(1, 3))
            sel = [pool[i] for i in rng.permutation(3)[:k]]
            cfg["drift"] = ("custom", sel, bool(rng.rand() < 0.5))
        else:
            cfg["drift"] = ch if ch in ("linear", "quadratic") else int(ch)
        if generic and cfg["drift"] == 0:
            cfg["drift"] = None
    if variant == "ExtDrift" or shape == "extdrift" or (shape == "free" and rng.rand() < 0.4):
        room = n_base - len(drift_callables(cfg)) - 3
        k = int(rng.randint(1, 3)) if room >= 2 else 1
        if room >= 1 or shape != "free":
            cfg["ext"] = (rng.randn(k, n), rng.randn(k, m))
    # a quarter of the problems have some targets ON conditioning points (carrying the data's external drift): the only
    # targets where exact / non-exact kriging and the nugget-aware covariance differ
    if rng.rand() < (0.6 if n_groups else 0.25):
        j = rng.permutation(n)[: int(rng.randint(1, 1 + min(n, m, 3)))]
        idx = rng.permutation(m)[: len(j)]
        tp = np.array(cfg["pos"], copy=True)
        tp[:, idx] = cfg["cond_pos"][:, j]
        if rng.rand() < 0.4:      # ... or nearly on them: lags inside / outside the isclose band of the nugget-aware covariance
            tp[:, idx] += np.array([near_offset(rng, fdim, latlon) for _ in idx]).T
        cfg["pos"] = tp
        if cfg["ext"] is not None:
            et = np.array(cfg["ext"][1], copy=True)
            et[:, idx] = cfg["ext"][0][:, j]
            cfg["ext"] = (cfg["ext"][0], et)
    # mean / normalizer / trend wherever the variant accepts them
    cfg["mean"], cfg["norm"], cfg["trend"] = None, None, None
    takes_mean = variant == "Simple" or generic
    takes_norm = variant != "Detrended"
    if variant == "Detrended":
        cfg["trend"] = gen_func(rng, fdim, 1.0, kinds=("lin", "sin"))
    if mnt:
        if takes_mean:
            cfg["mean"] = gen_func(rng, fdim, 0.6, p=[0.25, 0.3, 0.25, 0.2])
        if takes_norm:
            cfg["norm"] = gen_norm(rng)
        if variant != "Detrended":
            cfg["trend"] = gen_func(rng, fdim, 1.0, p=[0.4, 0.15, 0.25, 0.2])
    elif variant == "Simple":
        cfg["mean"] = ("const", 1.5) if rng.rand() < 0.5 else None
    cfg["cond_val"] = gen_values(rng, cfg, cp)
    cfg["pinv"] = bool(rng.rand() < 0.5)
    cfg["pinv_type"] = str(rng.choice(["pinv", "pinvh"]))
    cfg["chunk"] = None if rng.rand() < 0.4 else int(rng.randint(1, m + 2))
    cfg["model_seed"] = int(rng.randint(0, 2**31 - 1))
    return cfg


def describe(cfg):
    """JSON-friendly description of a configuration"""
    out = {}
    for k, v in cfg.items():
        if k == "ext":
            out[k] = None if v is None else [np.asarray(a).tolist() for a in v]
        elif isinstance(v, np.ndarray):
            out[k] = v.tolist()
        else:
            out[k] = v
    return out


def mnt_tag(cfg):
    """which of mean / normalizer / trend are active: e.g. 'norm=BoxCox/mean=lin/trend=none'"""
    f = lambda s: "none" if s is None else s[0]
    return f"norm={'none' if cfg.get('norm') is None else cfg['norm']['kind']}/mean={f(cfg.get('mean'))}/trend={f(cfg.get('trend'))}"


def build(cfg, capture=None, cond_pos=None, cond_val=None, ext_cond=None, model=None, fit=None):
    """construct the Krige object described by cfg.  capture: list receiving the raw kriging matrices.
    fit: None | dict(variogram=bool, normalizer=bool) -> fit_variogram / fit_normalizer of the constructor"""
    import gstools as gs
    from gstools import krige
    mr = np.random.RandomState(cfg["model_seed"])
    if model is None:
        model = make_model(mr, cfg["dim"], cfg["latlon"], cfg["temporal"], nugget=cfg.get("nugget"), unit=unit_of(cfg))
    cp = cfg["cond_pos"] if cond_pos is None else cond_pos
    cv = cfg["cond_val"] if cond_val is None else cond_val
    kw = dict(exact=cfg["exact"], cond_err=cfg["cond_err"], pseudo_inv=cfg["pinv"], pseudo_inv_type=cfg["pinv_type"])
    if fit:
        kw.update(fit_variogram=bool(fit.get("variogram")), fit_normalizer=bool(fit.get("normalizer")))
    if capture is not None:
        def cap(mat, _t=cfg["pinv_type"], _p=cfg["pinv"]):
            capture.append(np.array(mat, copy=True))
            if not _p:
                return spl.inv(mat)
            return spl.pinv(mat) if _t == "pinv" else spl.pinvh(mat)
        kw.update(pseudo_inv=True, pseudo_inv_type=cap)
    sc = pos_scale(cfg)
    mean, trend = func_of(cfg.get("mean"), sc), func_of(cfg.get("trend"), sc)
    nt = dict(normalizer=make_normalizer(cfg.get("norm")), trend=trend)
    ext = None if cfg["ext"] is None else (cfg["ext"][0] if ext_cond is None else ext_cond)
    v = cfg["variant"]
    if v == "Simple":
        return krige.Simple(model, cp, cv, mean=0.0 if mean is None else mean, **nt, **kw)
    if v == "Ordinary":
        return krige.Ordinary(model, cp, cv, **nt, **kw)
    if v == "Universal":
        return krige.Universal(model, cp, cv, drift_functions=drift_arg(cfg), **nt, **kw)
    if v == "ExtDrift":
        return krige.ExtDrift(model, cp, cv, ext_drift=ext, **nt, **kw)
    if v == "Detrended":
        kw.pop("fit_normalizer", None)
        return krige.Detrended(model, cp, cv, trend=trend, **kw)
    if v == "Krige":
        return krige.Krige(model, cp, cv, drift_functions=drift_arg(cfg), ext_drift=ext, mean=mean,
                           unbiased=cfg["unbiased"], **nt, **kw)
    raise ValueError(v)


@contextlib.contextmanager
def capture_kernel(store):
    """wrap the kernel entry points of krige/base.py; store gets (name, krig_mat, k_vec, cond, result)"""
    from gstools.krige import base
    o1, o2 = base._calc_field_krige_and_variance, base._calc_field_krige

    def w1(mat, vec, cond, *a, **k):
        r = o1(mat, vec, cond, *a, **k)
        store.append(("fv", np.array(mat), np.array(vec), np.array(cond), (np.array(r[0]), np.array(r[1]))))
        return r

    def w2(mat, vec, cond, *a, **k):
        r = o2(mat, vec, cond, *a, **k)
        store.append(("f", np.array(mat), np.array(vec), np.array(cond), (np.array(r),)))
        return r
    base._calc_field_krige_and_variance, base._calc_field_krige = w1, w2
    try:
        yield
    finally:
        base._calc_field_krige_and_variance, base._calc_field_krige = o1, o2


def call(kr, cfg, pos=None, **kw):
    pos = cfg["pos"] if pos is None else pos
    args = dict(chunk_size=cfg["chunk"])
    if cfg["ext"] is not None:
        args["ext_drift"] = cfg["ext"][1]
    args.update(kw)
    return kr(pos, **args)


# ------------------------------------------------------------------ independent solve (from the configuration alone)
def cond_err_of(cfg, model, n):
    ce = cfg["cond_err"]
    if isinstance(ce, str):
        return np.full(n, float(model.nugget))
    return np.broadcast_to(np.asarray(ce, dtype=float), (n,)).copy()


def prepared_data(cfg, cond_pos=None, cond_val=None):
    """normalize(cond_val - trend(cond_pos)) - mean(cond_pos), with the reference formulas"""
    cp = cfg["cond_pos"] if cond_pos is None else cond_pos
    cv = cfg["cond_val"] if cond_val is None else cond_val
    sc = pos_scale(cfg)
    return ref_normalize(cfg.get("norm"), cv - eval_spec(cfg.get("trend"), cp, sc)) - eval_spec(cfg.get("mean"), cp, sc)


def ref_post(cfg, raw, pos):
    """trend(pos) + denormalize(mean(pos) + raw), with the reference formulas"""
    sc = pos_scale(cfg)
    pos = np.asarray(pos, dtype=float).reshape(cfg["fdim"], -1)
    raw = np.asarray(raw, dtype=float)
    y = raw.reshape(-1) + eval_spec(cfg.get("mean"), pos, sc)
    return (eval_spec(cfg.get("trend"), pos, sc) + ref_denormalize(cfg.get("norm"), y)).reshape(raw.shape)


def solve_direct(cfg, model, pos, ext_t=None, only_mean=False):
    """kriging by solving the system with numpy for each target.  Everything is derived from the configuration
    (variant, drift, errors, exact flag, mean / normalizer / trend specs) and the covariance model; nothing is
    read from a Krige object.  Returns dict(raw, var, cond, z)."""
    cp = np.asarray(cfg["cond_pos"], dtype=float)
    n = cp.shape[1]
    tp = np.asarray(pos, dtype=float).reshape(cfg["fdim"], -1)
    m = tp.shape[1]
    cp_iso, tp_iso = model.isometrize(cp), model.isometrize(tp)
    C = model.covariance(cdist(cp_iso.T, cp_iso.T)) + np.diag(cond_err_of(cfg, model, n))
    rows, trows = [], []
    if is_unbiased(cfg):
        rows.append(np.ones(n)); trows.append(np.ones(m))
    for f in drift_callables(cfg):
        rows.append(np.broadcast_to(f(*cp), (n,))); trows.append(np.broadcast_to(f(*tp), (m,)))
    if cfg["ext"] is not None:
        et = cfg["ext"][1] if ext_t is None else ext_t
        for a, b in zip(np.atleast_2d(cfg["ext"][0]), np.atleast_2d(et)):
            rows.append(a); trows.append(b)
    r = len(rows)
    B = np.array(rows, dtype=float).reshape(r, n)
    K = np.block([[C, B.T], [B, np.zeros((r, r))]])
    # right-hand side: plain covariance; in exact mode the nugget-aware one — the sill at lags inside numpy's isclose band
    # of 0 (own formula, not `model.cov_nugget`).  The error term never enters off the diagonal of C above, however
    # close two conditioning points are.
    lag = cdist(cp_iso.T, tp_iso.T)
    ck = np.zeros((n, m)) if only_mean else model.covariance(lag)
    if cfg["exact"] and not only_mean:
        ck = np.where(lag <= BAND, float(model.var) + float(model.nugget), ck)
    k = np.vstack([ck, np.array(trows, dtype=float).reshape(r, m)])
    z = np.concatenate([prepared_data(cfg), np.zeros(r)])
    sill = float(model.var) + float(model.nugget)
    try:
        cond = float(np.linalg.cond(K))
        W = np.linalg.solve(K, k)
    except np.linalg.LinAlgError:        # exactly singular (coincident points without measurement error): no system to compare with
        return dict(raw=np.full(m, np.nan), var=np.full(m, np.nan), cond=np.inf, z=z, K=K)
    if not np.isfinite(cond):
        cond = np.inf
    return dict(raw=z @ W, var=np.maximum(sill - np.einsum("ij,ij->j", k, W), 0), cond=cond, z=z, K=K)


def rebuild_model(m):
    """a new model object with the parameters read back from `m` (public attributes only); None if the copy
    does not compare equal (then the case is not used)"""
    kw = dict(var=float(m.var), len_scale=float(m.len_scale), nugget=float(m.nugget))
    for a in m.opt_arg:
        kw[a] = getattr(m, a)
    if m.latlon:
        kw.update(latlon=True, geo_scale=float(m.geo_scale))
        if m.temporal:
            kw.update(temporal=True, anis=float(m.anis[-1]))
    else:
        if m.temporal:
            kw.update(temporal=True, spatial_dim=int(m.spatial_dim))
        else:
            kw["dim"] = int(m.dim)
        if m.dim > 1:
            kw.update(anis=[float(a) for a in m.anis], angles=[float(a) for a in m.angles])
    try:
        with warnings.catch_warnings():
            warnings.simplefilter("ignore")
            c = type(m)(**kw)
    except Exception:
        return None
    same = (c == m and c.var == m.var and c.len_scale == m.len_scale and c.nugget == m.nugget
            and np.array_equal(c.anis, m.anis) and np.array_equal(c.angles, m.angles)
            and c.geo_scale == m.geo_scale and c.rescale == m.rescale)
    return c if same else None


# ------------------------------------------------------------------ operation histories on one Krige object
class History:
    """A random history of {model edits, mean/normalizer/trend re-assignments, set_condition in all argument forms,
    calls} on ONE Krige object.  `cur` is the configuration a freshly constructed object would be given now;
    `ops` is the same history over abstract version identifiers for the Lean protocol model (krige_history)."""

    def __init__(self, rng, cfg, zero_mode=None):
        self.rng = rng
        self.cur = copy.deepcopy(cfg)
        self.zero_mode = zero_mode          # C06: None | "exact" | "zero-err" | "no-nugget"
        self.log = []
        # construction with fit_variogram / fit_normalizer: the start model is fitted in place (directionally, along its
        # rotated main axes, when it is not isotropic), the normaliser's parameters are fitted to the detrended data
        fit = self.draw_fit(0.3)
        self.kr = build(cfg, model=make_hist_model(cfg, zero_mode), fit=fit)
        if fit:
            self.after_fit(fit, "constructed")
        self.counter = 1
        self.init_ids = dict(model=1, pos=1, val=1, err=1, ext=1 if cfg["ext"] is not None else 0, mnt=1)
        self.ops = []
        self.stale = False       # a model edit happened after the last set_condition
        self.need_val = False    # the current values may be outside the range of the current normalizer / trend
        self.last_sel = None     # indices of the conditioning points the last on-data call was placed on
        # target positions: identifier -> (positions, mesh type); unstructured positions are (fdim, m) arrays,
        # structured ones lists of fdim axes.  `given` = identifier of the positions last given to the object
        # (by a call that passed positions or by set_pos), None = never
        self.pos_ids = {}
        self.given = None
        self.data_call = None    # (sel) while the last given targets are conditioning points `sel` of the current cond_pos
        self.kinds = {}

    def _id(self):
        self.counter += 1
        return self.counter

    # -- fitting inside the constructor / set_condition
    def draw_fit(self, p):
        """None or dict(variogram, normalizer): which fits the next construction / set_condition asks for"""
        rng, cfg = self.rng, self.cur
        if rng.rand() >= p:
            return None
        # (the fit also fits the nugget: not used where the history must stay nugget-free)
        fv = not (cfg["latlon"] and cfg["temporal"]) and self.zero_mode != "no-nugget" and cfg["cond_pos"].shape[1] >= 4
        fn = cfg.get("norm") is not None and cfg["norm"]["kind"] in NORM_LMBDA and cfg["variant"] != "Detrended" \
            and cfg["cond_pos"].shape[1] >= 4
        fit = dict(variogram=bool(fv and rng.rand() < 0.8), normalizer=bool(fn and rng.rand() < 0.5))
        return fit if (fit["variogram"] or fit["normalizer"]) else None

    def after_fit(self, fit, where):
        """read the fitted normaliser parameters back into the current configuration (the fitted model is read back
        by `fresh` like every other model state)"""
        if fit.get("normalizer"):
            nz = self.kr.normalizer
            spec = dict(self.cur["norm"], lmbda=float(nz.lmbda))
            if spec["kind"] == "BoxCoxShift":
                spec["shift"] = float(nz.shift)
            self.cur["norm"] = spec
        self.log.append("fit:" + where + ":" + "+".join(k for k in ("variogram", "normalizer") if fit.get(k))
                        + (":aniso" if not self.kr.model.is_isotropic else ":iso"))

    # -- model edits
    def edit_model(self):
        rng, kr, cfg = self.rng, self.kr, self.cur
        m = kr.model
        kinds = ["len_scale", "var", "replace"]
        if self.zero_mode != "no-nugget":
            kinds.append("nugget")
        if not cfg["latlon"] and cfg["fdim"] > 1:
            kinds += ["anis", "angles"]
        k = str(rng.choice(kinds))
        if k == "len_scale":
            m.len_scale = float(m.len_scale) * float(rng.choice([0.5, 1.5, 2.0]))
        elif k == "var":
            m.var = float(m.var) * float(rng.choice([0.5, 2.0, 3.0]))
        elif k == "nugget":
            m.nugget = float(rng.choice([v for v in (0.0, 0.125, 0.5, 0.75) if v != m.nugget]))
        elif k == "anis":
            m.anis = [float(a) for a in rng.choice([0.25, 0.5, 2.0, 3.0], size=cfg["fdim"] - 1)]
        elif k == "angles":
            m.angles = [float(a) for a in rng.uniform(-1.5, 1.5, size=cfg["fdim"] * (cfg["fdim"] - 1) // 2)]
        else:
            kr.model = make_model(rng, cfg["dim"], cfg["latlon"], cfg["temporal"],
                                  nugget=0.0 if self.zero_mode == "no-nugget" else None, unit=unit_of(cfg))
        self.stale = True
        self.ops.append(dict(k="model", v=self._id()))
        self.log.append("model:" + k)

    # -- mean / normalizer / trend re-assignment
    def edit_mnt(self):
        rng, kr, cfg = self.rng, self.kr, self.cur
        v = cfg["variant"]
        kinds = []
        if v in ("Simple", "Krige"):
            kinds.append("mean")
        if v != "Detrended":
            kinds += ["norm", "trend"]
        else:
            kinds.append("trend")
        k = str(rng.choice(kinds))
        sc = pos_scale(cfg)
        if k == "mean":
            cfg["mean"] = gen_func(rng, cfg["fdim"], 0.6, kinds=("const", "lin", "sin"))
            kr.mean = func_of(cfg["mean"], sc)
            lo, hi = gauss_range(cfg.get("norm"))
            self.need_val |= np.isfinite(lo) or np.isfinite(hi)
        elif k == "trend":
            cfg["trend"] = gen_func(rng, cfg["fdim"], 1.0, kinds=("const", "lin", "sin") if v == "Detrended" else ("none", "const", "lin", "sin"))
            kr.trend = func_of(cfg["trend"], sc)
            self.need_val |= cfg.get("norm") is not None and cfg["norm"]["kind"] in RESTRICTED
        else:
            cfg["norm"] = gen_norm(rng, p_none=0.25)
            kr.normalizer = make_normalizer(cfg["norm"])
            self.need_val |= cfg["norm"] is not None
        self.ops.append(dict(k="mnt", v=self._id()))
        self.log.append("mnt:" + k)

    # -- set_condition in its argument forms
    def set_condition(self, form=None):
        rng, kr, cfg = self.rng, self.kr, self.cur
        forms = ["none", "val", "pos+val", "val+err", "all", "err"]
        if cfg["ext"] is not None:
            forms += ["ext", "pos+val+ext"]
        else:
            forms.append("pos+val")
        if self.need_val:
            forms = [f for f in forms if "val" in f or f == "all"]
        form = str(rng.choice(forms)) if form is None else form
        n = cfg["cond_pos"].shape[1]
        kw, op = {}, dict(k="set_condition")
        if form in ("pos+val", "pos+val+ext", "all"):
            arr_err = isinstance(cfg["cond_err"], np.ndarray)
            n_new = n if (arr_err and form != "all") or rng.rand() < 0.5 else int(rng.randint(max(2, n - 2), n + 3))
            cp, _ = gen_positions(rng, cfg["latlon"], cfg["temporal"], cfg["fdim"], n_new, 1)
            cp = to_raw(cfg, cp)
            if rng.rand() < (0.5 if cfg.get("n_groups") else 0.1):     # new stations with repeated measurements
                if arr_err and form != "all" and cp.shape[1] == n and n >= 4:
                    cp = add_groups(rng, cp[:, : n - 2], cfg["latlon"], 2, extra_max=1)     # same number of points
                else:
                    cp = add_groups(rng, cp, cfg["latlon"], 1 + int(rng.randint(2)))
            if arr_err and form != "all" and cp.shape[1] != n:
                cp = cfg["cond_pos"] + unit_of(cfg) * rng.uniform(-0.2, 0.2, size=cfg["cond_pos"].shape)
            self.data_call = None      # stored targets (if any) are no longer the conditioning points
            kw["cond_pos"] = cp
            cfg["cond_pos"] = cp
            op["pos"] = self._id()
            n = cp.shape[1]
        if "val" in form or form == "all":
            cv = gen_values(rng, cfg, cfg["cond_pos"])
            kw["cond_val"] = cv
            cfg["cond_val"] = cv
            op["val"] = self._id()
            self.need_val = False
        if form in ("ext", "pos+val+ext", "all") and cfg["ext"] is not None:
            k = cfg["ext"][0].shape[0]
            e = rng.randn(k, n)
            kw["ext_drift"] = e
            cfg["ext"] = (e, None)
            op["ext"] = self._id()
        elif "cond_pos" in kw and cfg["ext"] is not None:
            cfg["ext"] = None          # documented: the stored drift is only reused when no new positions are given
        if form in ("val+err", "all", "err"):
            if cfg["exact"] or self.zero_mode == "no-nugget":
                ce = "nugget"
            elif self.zero_mode == "zero-err":
                ce = 0.0
            else:
                ce = [float(rng.choice([0.0, 0.0625, 0.125])), rng.randint(0, 3, n) / 16.0, "nugget"][int(rng.randint(0, 3))]
            kw["cond_err"] = ce
            cfg["cond_err"] = ce
            op["err"] = self._id()
        if rng.rand() < 0.3 and "cond_pos" in kw and "cond_val" in kw:   # positional form
            args = [kw.pop("cond_pos"), kw.pop("cond_val")]
        else:
            args = []
        fit = self.draw_fit(0.25)
        if fit:
            kw.update(fit_variogram=fit["variogram"], fit_normalizer=fit["normalizer"])
            if fit["variogram"]:
                op["fitv"] = self._id()
            if fit["normalizer"]:
                op["fitn"] = self._id()
        kr.set_condition(*args, **kw)
        self.stale = False
        self.ops.append(op)
        self.log.append("set_condition:" + form)
        if fit:
            self.after_fit(fit, "set_condition")
        return form

    # -- target positions
    def _reg(self, pos, mesh):
        i = self._id()
        self.pos_ids[i] = (pos, mesh)
        return i

    def _far(self, structured):
        """well separated random targets (unstructured: 1-8 points; structured: 1-4 values per axis)"""
        rng, cfg = self.rng, self.cur
        if not structured:
            _, tp = gen_positions(rng, cfg["latlon"], cfg["temporal"], cfg["fdim"], 2, int(rng.randint(1, 9)))
            return to_raw(cfg, tp)
        _, tp = gen_positions(rng, cfg["latlon"], cfg["temporal"], cfg["fdim"], 2, 4)
        tp = to_raw(cfg, tp)
        axes = [tp[i, : int(rng.randint(1, 5))].copy() for i in range(cfg["fdim"])]
        return [np.sort(a) for a in axes] if rng.rand() < 0.5 else axes

    def _near(self, pos, mesh):
        """positions of identical shape that differ only slightly relative to their magnitude: relative changes
        1e-12 .. 1e-2 of all coordinates, of one axis, or of a single coordinate (never identical to `pos`)"""
        rng, cfg = self.rng, self.cur
        comps = [np.array(a, dtype=float, copy=True) for a in pos]
        r = 10.0 ** rng.uniform(-12, -2)
        mode = str(rng.choice(["rel", "shift", "shift-axis", "jitter", "one"]))
        which = range(len(comps)) if mode in ("rel", "shift", "jitter") else [int(rng.randint(len(comps)))]
        for i in which:
            a = comps[i]
            mag = max(float(np.abs(a).max()), 1e-3 * unit_of(cfg))
            sg = float(rng.choice([-1.0, 1.0]))
            if mode == "rel":
                a *= 1.0 + sg * r
            elif mode in ("shift", "shift-axis"):
                a += sg * r * mag
            elif mode == "jitter":
                a *= 1.0 + r * rng.uniform(-1, 1, size=a.shape)
            else:
                j = int(rng.randint(a.size))
                a[j] += sg * r * max(abs(a[j]), 1e-3 * unit_of(cfg))
        if all(np.array_equal(a, b) for a, b in zip(comps, pos)):      # r below the resolution: one ulp instead
            comps[0][0] = np.nextafter(comps[0][0], np.inf)
        return (comps if mesh else np.array(comps)), "near:" + mode + (":<1e-5" if r < 1e-5 else ":>=1e-5")

    def flat(self, pid):
        """the requested targets as an (fdim, m) array in the order of the returned (C-ordered) field"""
        pos, mesh = self.pos_ids[pid]
        if not mesh:
            return np.asarray(pos, dtype=float).reshape(self.cur["fdim"], -1)
        return np.array(np.meshgrid(*pos, indexing="ij")).reshape(self.cur["fdim"], -1)

    def stored_is(self, pid, obj=None):
        """the public `pos` / `mesh_type` of the object are exactly the positions `pid` (None: nothing stored)"""
        kr = self.kr if obj is None else obj
        if pid is None:
            return kr.pos is None
        pos, mesh = self.pos_ids[pid]
        if kr.pos is None or kr.mesh_type != ("structured" if mesh else "unstructured"):
            return False
        if not mesh:
            return isinstance(kr.pos, np.ndarray) and np.array_equal(kr.pos, np.asarray(pos, dtype=float).reshape(self.cur["fdim"], -1))
        return len(kr.pos) == len(pos) and all(np.array_equal(np.asarray(a), b) for a, b in zip(kr.pos, pos))

    def set_pos(self, pid):
        """`kr.set_pos(pos, mesh_type)`; returns whether the stored positions are the given ones afterwards"""
        pos, mesh = self.pos_ids[pid]
        self.kr.set_pos([a.copy() for a in pos] if mesh else pos.copy(), "structured" if mesh else "unstructured")
        self.given = pid
        self.data_call = None
        self.ops.append(dict(k="set_pos", p=pid, structured=bool(mesh)))
        self.log.append("set_pos")
        return self.stored_is(pid)

    # -- calls
    def plan_call(self, on_data=False):
        """chooses the positional part of the next call.  Returns dict(kind, pid (identifier of the positions passed
        or None), mesh (bool), via (bool), pre_set (identifier handed to set_pos before the call, or None))"""
        rng, cfg = self.rng, self.cur
        have = self.given is not None
        prev = self.pos_ids[self.given] if have else None
        if on_data:
            k = cfg["cond_pos"].shape[1]
            sel = rng.permutation(k)[: max(1, k // 2)]
            return dict(kind="data", pid=self._reg(cfg["cond_pos"][:, sel].copy(), False), mesh=False,
                        via=bool(rng.rand() < 0.3), pre_set=None, sel=sel)
        if have:
            kinds, p = ["far", "far-structured", "near", "none", "none-via", "switch", "grid", "repeat", "set_pos", "mixed"], \
                [0.15, 0.09, 0.25, 0.12, 0.05, 0.05, 0.05, 0.04, 0.07, 0.13]
        else:
            kinds, p = ["far", "far-structured", "none", "none-via", "set_pos", "mixed"], [0.4, 0.2, 0.04, 0.03, 0.13, 0.2]
        kind = str(rng.choice(kinds, p=p))
        via = bool(rng.rand() < 0.3)
        out = dict(kind=kind, pre_set=None, sel=None, via=via)
        if kind == "mixed":       # conditioning points followed by free targets
            k = cfg["cond_pos"].shape[1]
            sel = rng.permutation(k)[: max(1, k // 2)]
            out.update(pid=self._reg(np.hstack([cfg["cond_pos"][:, sel], self._far(False)]), False), mesh=False)
        elif kind in ("far", "far-structured"):
            mesh = kind == "far-structured"
            out.update(pid=self._reg(self._far(mesh), mesh), mesh=mesh)
        elif kind == "near":
            npos, tag = self._near(*prev)
            out.update(pid=self._reg(npos, prev[1]), mesh=prev[1], kind=tag)
        elif kind == "repeat":    # equal coordinates in a new array
            pos, mesh = prev
            out.update(pid=self._reg([a.copy() for a in pos] if mesh else pos.copy(), mesh), mesh=mesh)
            out["sel"] = self.data_call
        elif kind in ("none", "none-via"):
            # no positions: the stored ones are reused.  Plain calls ignore the mesh_type argument then; the methods
            # structured() / unstructured() refuse to reuse positions of the other type
            out.update(pid=None, mesh=bool(rng.rand() < 0.5), via=kind == "none-via")
            if kind == "none-via" and have and rng.rand() < 0.7:
                out["mesh"] = prev[1]
            out["sel"] = self.data_call
        elif kind == "switch":    # the same coordinate tuple under the other mesh type
            pos, mesh = prev
            if mesh and len({len(a) for a in pos}) == 1:
                out.update(pid=self._reg(np.array(pos), False), mesh=False)
            elif not mesh and pos.shape[1] <= (4 if cfg["fdim"] == 3 else 8):
                out.update(pid=self._reg([a.copy() for a in pos], True), mesh=True)
            else:
                out.update(kind="far", pid=self._reg(self._far(False), False), mesh=False)
        elif kind == "grid":      # unstructured call at the grid points of the stored axes
            pos, mesh = prev
            if mesh:
                out.update(pid=self._reg(self.flat(self.given), False), mesh=False)
            else:
                out.update(kind="far-structured", pid=self._reg(self._far(True), True), mesh=True)
        else:                     # set_pos with new / nearly equal positions, then a call without positions
            if have and rng.rand() < 0.5:
                npos, tag = self._near(*prev)
                out.update(pre_set=self._reg(npos, prev[1]), kind="set_pos:" + tag)
            else:
                mesh = bool(rng.rand() < 0.3)
                out.update(pre_set=self._reg(self._far(mesh), mesh))
            out.update(pid=None, mesh=bool(rng.rand() < 0.5), via=False)
        return out

    def call_args(self, on_data=False):
        """plans and prepares one call: returns the event dict (without the result).  A planned set_pos is executed."""
        rng, cfg = self.rng, self.cur
        plan = self.plan_call(on_data)
        ev = dict(plan, hist=self, stored_ok=True)
        if plan["pre_set"] is not None:
            ev["stored_ok"] = self.set_pos(plan["pre_set"])
        # the targets the call is asked to evaluate (specification side, tracked by the harness on its own)
        if plan["pid"] is not None:
            req = plan["pid"]
        elif self.given is not None and not (plan["via"] and self.pos_ids[self.given][1] != plan["mesh"]):
            req = self.given
        else:
            req = None
        ev["req"] = req
        ev["flat"] = None if req is None else self.flat(req)
        self.last_sel = plan["sel"] if (req is not None and plan["sel"] is not None) else None
        ev["sel"] = self.last_sel
        m = 1 if req is None else ev["flat"].shape[1]
        kw = dict(chunk_size=None if rng.rand() < 0.4 else int(rng.randint(1, m + 2)),
                  only_mean=bool(rng.rand() < 0.15), return_var=bool(rng.rand() < 0.7),
                  post_process=bool(rng.rand() < 0.6), store=bool(rng.rand() < 0.5))
        if self.last_sel is not None:
            kw.update(only_mean=False, return_var=True, post_process=True)
        if cfg["ext"] is not None:
            kw["ext_drift"] = rng.randn(cfg["ext"][0].shape[0], m)
            if self.last_sel is not None:     # targets on the data carry the data's external drift
                kw["ext_drift"] = np.asarray(cfg["ext"][0])[:, self.last_sel].copy()
        ev["kw"] = kw
        pos = None if plan["pid"] is None else self.pos_ids[plan["pid"]][0]
        ev["tp"] = pos
        self.kinds[plan["kind"]] = self.kinds.get(plan["kind"], 0) + 1
        return ev

    @staticmethod
    def _canon(fn):
        try:
            with warnings.catch_warnings():
                warnings.simplefilter("ignore")
                out = fn()
        except Exception as e:
            return ("error", type(e).__name__)
        if isinstance(out, tuple):
            return ("ok", np.array(out[0]), np.array(out[1]))
        return ("ok", np.array(out), None)

    def call(self, tp, kw, obj=None, mesh=False, via=False):
        """returns ("ok", field, var-or-None) or ("error", type name)"""
        kr = self.kr if obj is None else obj
        mt = "structured" if mesh else "unstructured"
        arg = None if tp is None else ([a.copy() for a in tp] if isinstance(tp, list) else np.array(tp, copy=True))
        if via:
            f = kr.structured if mesh else kr.unstructured
            return self._canon((lambda: f(**kw)) if arg is None else (lambda: f(arg, **kw)))
        return self._canon(lambda: kr(arg, mesh_type=mt, **kw))

    def do_call(self, ev):
        """executes the planned call on the object with the history and records it"""
        ev["res"] = self.call(ev["tp"], ev["kw"], mesh=ev["mesh"], via=ev["via"])
        op = dict(k="call", structured=bool(ev["mesh"]), via=bool(ev["via"]))
        if ev["pid"] is not None:
            op["pos"] = ev["pid"]
            self.given = ev["pid"]
            self.data_call = ev["sel"] if ev["kind"] in ("data", "repeat") else None
        self.ops.append(op)
        ev["given"] = self.given
        # public attributes afterwards: the stored positions are the ones last given
        ev["stored_ok"] = ev["stored_ok"] and self.stored_is(self.given)
        return ev

    def call_fresh(self, ev, obj):
        """the same call on another (freshly constructed) object, which is GIVEN the requested targets explicitly"""
        if ev["req"] is None:
            return self.call(None, ev["kw"], obj=obj, mesh=ev["mesh"], via=ev["via"])
        pos, mesh = self.pos_ids[ev["req"]]
        return self.call(pos, ev["kw"], obj=obj, mesh=mesh, via=False)

    def fresh(self):
        """a freshly constructed object with the current model parameters and conditions (or None)"""
        mod = rebuild_model(self.kr.model)
        if mod is None:
            return None, None
        with warnings.catch_warnings():
            warnings.simplefilter("ignore")
            return build(self.cur, model=mod), mod


def make_hist_model(cfg, zero_mode):
    mr = np.random.RandomState(cfg["model_seed"])
    return make_model(mr, cfg["dim"], cfg["latlon"], cfg["temporal"], nugget=0.0 if zero_mode == "no-nugget" else cfg.get("nugget"),
                      unit=unit_of(cfg))


def run_history(rng, cfg, segments=3, zero_mode=None):
    """generator: drives one History and yields, for every call made, the event dict
    (hist, kind, tp, mesh, via, req, flat, kw, res, synced, step, sel, stored_ok, given).  Calls in a stale state
    (model edited, no set_condition yet) are made and yielded with synced=False (nothing is claimed about their
    values; their positions count).  The calls use new, nearly equal, repeated or no positions, both mesh types,
    the methods structured()/unstructured() and set_pos (History.plan_call)."""
    with warnings.catch_warnings():
        warnings.simplefilter("ignore")
        h = History(rng, cfg, zero_mode)
    step = 0

    def one(on_data, synced=None):
        nonlocal step
        with warnings.catch_warnings():
            warnings.simplefilter("ignore")
            ev = h.do_call(h.call_args(on_data=on_data))
        step += 1
        ev.update(synced=(not h.stale) if synced is None else synced, step=step)
        return ev
    for seg in range(segments):
        # calls on the synced object (first segment: the freshly constructed one)
        for _ in range(int(rng.randint(1, 4))):
            if h.need_val:
                break
            yield one(bool(zero_mode) and rng.rand() < 0.4, True)
        # edits
        ne = int(rng.randint(0, 3))
        for _ in range(ne):
            with warnings.catch_warnings():
                warnings.simplefilter("ignore")
                (h.edit_model if rng.rand() < 0.7 else h.edit_mnt)()
            if rng.rand() < 0.3 and not h.need_val:      # a call between the edits and set_condition
                yield one(False)
        with warnings.catch_warnings():
            warnings.simplefilter("ignore")
            h.set_condition()
    for _ in range(int(rng.randint(1, 4))):
        yield one(bool(zero_mode) and rng.rand() < 0.4, True)
