"""Random kriging configurations on the real gstools API + observation by wrapping module attributes."""
import contextlib
import numpy as np
import scipy.linalg as spl


MODELS = ["Gaussian", "Exponential", "Spherical", "Matern", "Stable", "Cubic", "Rational", "Linear", "Circular"]


def make_model(rng, dim, latlon=False, temporal=False, nugget=None, aniso=True, names=None):
    import gstools as gs
    name = str(rng.choice(names or MODELS))
    if dim > 1 and name == "Linear":
        name = "Exponential"
    if dim > 2 and name == "Circular":
        name = "Gaussian"
    kw = dict(var=float(rng.choice([0.5, 1.0, 2.0])), len_scale=float(rng.choice([1.0, 2.0, 4.0])))
    if nugget is None:
        nugget = float(rng.choice([0.0, 0.0, 0.125, 0.5]))
    kw["nugget"] = nugget
    if latlon:
        kw.update(latlon=True, geo_scale=float(rng.choice([1.0, gs.KM_SCALE, gs.DEGREE_SCALE])))
        kw["len_scale"] = kw["len_scale"] * kw["geo_scale"] * 0.3
        if temporal:
            kw.update(temporal=True, anis=float(rng.choice([0.5, 1.0, 2.0])))
        return getattr(gs, name)(**kw)
    fdim = dim + (1 if temporal else 0)
    if temporal:
        kw.update(temporal=True, spatial_dim=dim)
    else:
        kw["dim"] = dim
    if aniso and fdim > 1 and rng.rand() < 0.6:
        kw["anis"] = [float(a) for a in rng.choice([0.25, 0.5, 2.0], size=fdim - 1)]
        kw["angles"] = [float(a) for a in rng.uniform(-1.5, 1.5, size=fdim * (fdim - 1) // 2)]
    return getattr(gs, name)(**kw)


def gen_config(rng, variants=("Simple", "Ordinary", "Universal", "ExtDrift", "Detrended"), latlon_ok=True, max_n=9):
    """returns dict describing a kriging problem (everything needed to rebuild it)"""
    variant = str(rng.choice(variants))
    latlon = bool(latlon_ok and rng.rand() < 0.15 and variant in ("Simple", "Ordinary"))
    temporal = bool(rng.rand() < 0.15)
    dim = 2 if latlon else int(rng.randint(1, 4))
    fdim = dim + (1 if temporal else 0)
    if fdim > 3 and not latlon:
        temporal = False
        fdim = dim
    n = int(rng.randint(2, max_n + (6 if variant == "Universal" else 0)))
    m = int(rng.randint(1, 12))
    if latlon:
        cp = np.vstack([rng.uniform(-80, 80, n), rng.uniform(-170, 170, n)] + ([rng.uniform(0, 4, n)] if temporal else []))
        tp = np.vstack([rng.uniform(-80, 80, m), rng.uniform(-170, 170, m)] + ([rng.uniform(0, 4, m)] if temporal else []))
    else:
        # well separated conditioning points (jittered lattice) keep the system well conditioned
        grid = np.array(np.meshgrid(*([np.arange(4)] * fdim), indexing="ij")).reshape(fdim, -1)
        idx = rng.choice(grid.shape[1], size=min(n, grid.shape[1]), replace=False)
        n = len(idx)
        cp = grid[:, idx] * 2.0 + rng.uniform(-0.4, 0.4, size=(fdim, n))
        tp = rng.uniform(-1, 7, size=(fdim, m))
    cv = rng.randn(n) * 2 + 1
    cfg = dict(variant=variant, latlon=latlon, temporal=temporal, dim=dim, fdim=fdim, cond_pos=cp, cond_val=cv,
               pos=tp, seed=int(rng.randint(0, 2**31 - 1)))
    cfg["exact"] = bool(rng.rand() < 0.3)
    cfg["cond_err"] = "nugget"
    if not cfg["exact"] and rng.rand() < 0.3:
        cfg["cond_err"] = float(rng.choice([0.0, 0.0625])) if rng.rand() < 0.5 else (rng.randint(0, 3, n) / 16.0)
    cfg["drift"] = None
    cfg["ext"] = None
    if variant == "Universal":
        ch = str(rng.choice(["linear", "linear", "1", "0", "quadratic"])) if n > fdim + 2 else "0"
        if ch == "quadratic" and n <= (fdim + 1) * (fdim + 2) // 2 + 1:
            ch = "linear"
        cfg["drift"] = ch if ch in ("linear", "quadratic") else int(ch)
    if variant == "ExtDrift":
        k = int(rng.randint(1, 3)) if n > 3 else 1
        cfg["ext"] = (rng.randn(k, n), rng.randn(k, m))
    cfg["mean"] = float(rng.choice([0.0, 1.5])) if variant == "Simple" else None
    cfg["trend"] = None
    if variant == "Detrended":
        a = float(rng.choice([0.5, -1.0]))
        cfg["trend_coef"] = a
    cfg["pinv"] = bool(rng.rand() < 0.5)
    cfg["pinv_type"] = str(rng.choice(["pinv", "pinvh"]))
    cfg["chunk"] = None if rng.rand() < 0.4 else int(rng.randint(1, m + 2))
    cfg["model_seed"] = int(rng.randint(0, 2**31 - 1))
    return cfg


def build(cfg, capture=None, cond_pos=None, cond_val=None, ext_cond=None, model=None):
    """construct the Krige object described by cfg.  capture: list receiving the raw kriging matrices"""
    import gstools as gs
    from gstools import krige
    mr = np.random.RandomState(cfg["model_seed"])
    if model is None:
        model = make_model(mr, cfg["dim"], cfg["latlon"], cfg["temporal"])
    cp = cfg["cond_pos"] if cond_pos is None else cond_pos
    cv = cfg["cond_val"] if cond_val is None else cond_val
    kw = dict(exact=cfg["exact"], cond_err=cfg["cond_err"], pseudo_inv=cfg["pinv"], pseudo_inv_type=cfg["pinv_type"])
    if capture is not None:
        def cap(mat, _t=cfg["pinv_type"], _p=cfg["pinv"]):
            capture.append(np.array(mat, copy=True))
            if not _p:
                return spl.inv(mat)
            return spl.pinv(mat) if _t == "pinv" else spl.pinvh(mat)
        kw.update(pseudo_inv=True, pseudo_inv_type=cap)
    v = cfg["variant"]
    if v == "Simple":
        return krige.Simple(model, cp, cv, mean=cfg["mean"], **kw)
    if v == "Ordinary":
        return krige.Ordinary(model, cp, cv, **kw)
    if v == "Universal":
        return krige.Universal(model, cp, cv, drift_functions=cfg["drift"], **kw)
    if v == "ExtDrift":
        return krige.ExtDrift(model, cp, cv, ext_drift=cfg["ext"][0] if ext_cond is None else ext_cond, **kw)
    if v == "Detrended":
        a = cfg["trend_coef"]
        return krige.Detrended(model, cp, cv, trend=lambda *x: a * x[0], **kw)
    raise ValueError(v)


@contextlib.contextmanager
def capture_kernel(store):
    """wrap the kernel entry points of krige/base.py; store gets (name, krig_mat, k_vec, cond, result)"""
    from gstools.krige import base
    o1, o2 = base._calc_field_krige_and_variance, base._calc_field_krige

    def w1(mat, vec, cond, *a, **k):
        r = o1(mat, vec, cond, *a, **k)
        store.append(("fv", np.array(mat), np.array(vec), np.array(cond), (np.array(r[0]), np.array(r[1]))))
        return r

    def w2(mat, vec, cond, *a, **k):
        r = o2(mat, vec, cond, *a, **k)
        store.append(("f", np.array(mat), np.array(vec), np.array(cond), (np.array(r),)))
        return r
    base._calc_field_krige_and_variance, base._calc_field_krige = w1, w2
    try:
        yield
    finally:
        base._calc_field_krige_and_variance, base._calc_field_krige = o1, o2


def call(kr, cfg, pos=None, **kw):
    pos = cfg["pos"] if pos is None else pos
    args = dict(chunk_size=cfg["chunk"])
    if cfg["variant"] == "ExtDrift":
        args["ext_drift"] = cfg["ext"][1]
    args.update(kw)
    return kr(pos, **args)
