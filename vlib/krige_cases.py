"""Random kriging configurations on the real gstools API + observation by wrapping module attributes.

Also here (shared by C05 and C06): independent reference formulas for the normalizers, mean/trend/drift
specifications, an independent solve of the kriging system built from the configuration alone (never from
attributes of the Krige object under test), and random operation histories on one Krige object."""
import contextlib
import copy
import itertools
import warnings
import numpy as np
import scipy.linalg as spl
from scipy.spatial.distance import cdist


MODELS = ["Gaussian", "Exponential", "Spherical", "Matern", "Stable", "Cubic", "Rational", "Linear", "Circular"]


def make_model(rng, dim, latlon=False, temporal=False, nugget=None, aniso=True, names=None):
    with warnings.catch_warnings():
        warnings.simplefilter("ignore")
        return _make_model(rng, dim, latlon, temporal, nugget, aniso, names)


def _make_model(rng, dim, latlon=False, temporal=False, nugget=None, aniso=True, names=None):
    import gstools as gs
    name = str(rng.choice(names or MODELS))
    if dim > 1 and name == "Linear":
        name = "Exponential"
    if dim > 2 and name == "Circular":
        name = "Gaussian"
    kw = dict(var=float(rng.choice([0.5, 1.0, 2.0])), len_scale=float(rng.choice([1.0, 2.0, 4.0])))
    if nugget is None:
        nugget = float(rng.choice([0.0, 0.0, 0.125, 0.5]))
    kw["nugget"] = nugget
    if latlon:
        kw.update(latlon=True, geo_scale=float(rng.choice([1.0, gs.KM_SCALE, gs.DEGREE_SCALE])))
        kw["len_scale"] = kw["len_scale"] * kw["geo_scale"] * 0.3
        if temporal:
            kw.update(temporal=True, anis=float(rng.choice([0.5, 1.0, 2.0])))
        return getattr(gs, name)(**kw)
    fdim = dim + (1 if temporal else 0)
    if temporal:
        kw.update(temporal=True, spatial_dim=dim)
    else:
        kw["dim"] = dim
    if aniso and fdim > 1 and rng.rand() < 0.6:
        kw["anis"] = [float(a) for a in rng.choice([0.25, 0.5, 2.0], size=fdim - 1)]
        kw["angles"] = [float(a) for a in rng.uniform(-1.5, 1.5, size=fdim * (fdim - 1) // 2)]
    return getattr(gs, name)(**kw)


# ------------------------------------------------------------------ normalizers: specs + independent formulas
NORMS = ["LogNormal", "BoxCox", "BoxCoxShift", "YeoJohnson", "Modulus", "Manly"]
NORM_LMBDA = {"BoxCox": [0.3, 0.5, 1.5, -0.5, 0.0], "BoxCoxShift": [0.3, 0.5, 1.5, -0.5, 0.0],
              "YeoJohnson": [0.5, 1.5, 0.0, 2.0, 0.3, 2.5], "Modulus": [0.5, 1.5, 0.0, -0.5], "Manly": [0.3, -0.3, 0.5]}
RESTRICTED = ("LogNormal", "BoxCox", "BoxCoxShift")     # normalizers whose input range is bounded below


def gen_norm(rng, p_none=0.4, kinds=None):
    """None (identity) or dict(kind, lmbda, shift)"""
    if rng.rand() < p_none:
        return None
    kind = str(rng.choice(kinds or NORMS))
    lm = float(rng.choice(NORM_LMBDA[kind])) if kind in NORM_LMBDA else 1.0
    sh = float(rng.choice([0.5, 1.5, -0.25])) if kind == "BoxCoxShift" else 0.0
    return dict(kind=kind, lmbda=lm, shift=sh)


def make_normalizer(spec):
    """a new gstools normalizer object for the spec (None -> None = identity)"""
    import gstools as gs
    if spec is None:
        return None
    kw = {}
    if spec["kind"] in NORM_LMBDA:
        kw["lmbda"] = spec["lmbda"]
    if spec["kind"] == "BoxCoxShift":
        kw["shift"] = spec["shift"]
    return getattr(gs.normalizer, spec["kind"])(**kw)


def norm_par(spec):
    """arguments of the Lean normaliser model"""
    from proto import fbits
    if spec is None:
        return dict(kind="Normalizer", lmbda=fbits([1.0])[0], shift=fbits([0.0])[0])
    return dict(kind=spec["kind"], lmbda=fbits([spec["lmbda"]])[0], shift=fbits([spec["shift"]])[0])


def ref_normalize(spec, x):
    """independent formulas (textbook definitions), NaN outside the input range"""
    x = np.asarray(x, dtype=float)
    if spec is None:
        return x.copy()
    k, l, s = spec["kind"], spec["lmbda"], spec["shift"]
    with np.errstate(all="ignore"):
        if k == "LogNormal":
            return np.where(x > 0, np.log(x), np.nan)
        if k in ("BoxCox", "BoxCoxShift"):
            xs = x + (s if k == "BoxCoxShift" else 0.0)
            r = np.log(xs) if l == 0 else (xs ** l - 1.0) / l
            return np.where(x > (-s if k == "BoxCoxShift" else 0.0), r, np.nan)
        if k == "YeoJohnson":
            xp, xm = np.maximum(x, 0), np.minimum(x, 0)
            pos = np.log1p(xp) if l == 0 else ((xp + 1.0) ** l - 1.0) / l
            neg = -np.log1p(-xm) if l == 2 else -((1.0 - xm) ** (2.0 - l) - 1.0) / (2.0 - l)
            return np.where(x >= 0, pos, neg)
        if k == "Modulus":
            a = np.abs(x)
            return np.sign(x) * (np.log1p(a) if l == 0 else ((a + 1.0) ** l - 1.0) / l)
        if k == "Manly":
            return x.copy() if l == 0 else (np.exp(l * x) - 1.0) / l
    raise ValueError(k)


def ref_denormalize(spec, y):
    """independent inverse formulas, NaN outside the image of the forward map"""
    y = np.asarray(y, dtype=float)
    if spec is None:
        return y.copy()
    k, l, s = spec["kind"], spec["lmbda"], spec["shift"]
    with np.errstate(all="ignore"):
        if k == "LogNormal":
            return np.exp(y)
        if k in ("BoxCox", "BoxCoxShift"):
            sh = s if k == "BoxCoxShift" else 0.0
            if l == 0:
                return np.exp(y) - sh
            b = 1.0 + l * y
            return np.where(b > 0, np.abs(b) ** (1.0 / l), np.nan) - sh
        if k == "YeoJohnson":
            yp, ym = np.maximum(y, 0), np.minimum(y, 0)
            pos = np.expm1(yp) if l == 0 else (l * yp + 1.0) ** (1.0 / l) - 1.0
            neg = -np.expm1(-ym) if l == 2 else 1.0 - (1.0 - (2.0 - l) * ym) ** (1.0 / (2.0 - l))
            return np.where(y >= 0, pos, neg)
        if k == "Modulus":
            a = np.abs(y)
            return np.sign(y) * (np.expm1(a) if l == 0 else (1.0 + l * a) ** (1.0 / l) - 1.0)
        if k == "Manly":
            if l == 0:
                return y.copy()
            b = 1.0 + l * y
            return np.where(b > 0, np.log(np.abs(b)), np.nan) / l
    raise ValueError(k)


def gauss_range(spec):
    """(lo, hi) interval of normalised values that the inverse map accepts with a safety margin"""
    if spec is None:
        return -np.inf, np.inf
    k, l = spec["kind"], spec["lmbda"]
    if k in ("BoxCox", "BoxCoxShift", "Manly") and l != 0:
        return (-0.8 / l, np.inf) if l > 0 else (-np.inf, 0.8 / abs(l))
    if k in ("YeoJohnson", "Modulus") and l < 0:
        return -0.8 / abs(l), 0.8 / abs(l)
    if k == "YeoJohnson" and l > 2:
        return -0.8 / (l - 2), np.inf
    return -np.inf, np.inf


# ------------------------------------------------------------------ mean / trend / drift functions as data
def pos_scale(cfg):
    if cfg["latlon"]:
        return np.array([90.0, 180.0, 4.0][: cfg["fdim"]])
    return np.full(cfg["fdim"], 8.0)


def gen_func(rng, fdim, amp, kinds=("none", "const", "lin", "sin"), p=None):
    """None | ("const", c) | ("lin", a0, coefs) | ("sin", a0, b, w): functions of the scaled coordinates"""
    k = str(rng.choice(kinds, p=p))
    if k == "none":
        return None
    a0 = float(np.round(rng.uniform(-1, 1) * amp, 3))
    if k == "const":
        return ("const", a0 if a0 != 0 else 0.25 * amp)
    if k == "lin":
        return ("lin", a0, [float(c) for c in np.round(rng.uniform(-1, 1, fdim) * amp, 3)])
    return ("sin", a0, float(np.round(rng.uniform(0.3, 1) * amp, 3)), float(rng.choice([2.0, 3.0, 5.0])))


def func_of(spec, scale):
    """the python object handed to gstools: None, a float, or a callable f(x, [y, z])"""
    if spec is None:
        return None
    if spec[0] == "const":
        return float(spec[1])
    if spec[0] == "lin":
        a0, c = spec[1], list(spec[2])
        return lambda *x: a0 + sum(ci * np.asarray(xi, dtype=float) / si for ci, xi, si in zip(c, x, scale))
    if spec[0] == "sin":
        a0, b, w = spec[1:]
        return lambda *x: a0 + b * np.sin(w * np.asarray(x[0], dtype=float) / scale[0]) \
            + 0.5 * b * np.asarray(x[-1], dtype=float) / scale[-1]
    raise ValueError(spec)


def eval_spec(spec, pos, scale):
    """values of a mean/trend spec at raw positions (dim, m) -> (m,)"""
    pos = np.asarray(pos, dtype=float)
    m = pos.shape[1]
    f = func_of(spec, scale)
    if f is None:
        return np.zeros(m)
    if not callable(f):
        return np.full(m, f)
    return np.broadcast_to(np.asarray(f(*pos), dtype=float), (m,)).copy()


def drift_callables(cfg):
    """drift functions of the configuration as an independent list of callables (own monomial basis for the
    polynomial drifts, the user functions for custom drifts)"""
    d = cfg.get("drift")
    if d is None:
        return []
    if isinstance(d, tuple):    # ("custom", [specs])
        return [custom_drift(sp) for sp in d[1]]
    order = {"linear": 1, "quadratic": 2}.get(d, d)
    out = []
    for deg in range(1, int(order) + 1):
        for sel in itertools.combinations_with_replacement(range(cfg["fdim"]), deg):
            out.append(lambda *x, _s=sel: np.prod([np.asarray(x[i], dtype=float) for i in _s], axis=0))
    return out


def custom_drift(sp):
    if sp[0] == "coord":
        i = sp[1]
        return lambda *x: np.asarray(x[i], dtype=float)
    if sp[0] == "sinmix":
        return lambda *x: np.sin(np.asarray(x[0], dtype=float)) + 0.5 * np.asarray(x[-1], dtype=float)
    if sp[0] == "sq":
        i = sp[1]
        return lambda *x: 0.1 * np.asarray(x[i], dtype=float) ** 2
    raise ValueError(sp)


def drift_arg(cfg):
    """the `drift_functions` argument handed to gstools"""
    d = cfg.get("drift")
    if isinstance(d, tuple):
        fs = [custom_drift(sp) for sp in d[1]]
        return fs[0] if (len(fs) == 1 and d[2]) else fs     # a single callable may be passed bare
    return d


def is_unbiased(cfg):
    v = cfg["variant"]
    if v in ("Simple", "Detrended"):
        return False
    if v == "Krige":
        return bool(cfg["unbiased"])
    return True


def gen_values(rng, cfg, cp):
    """conditioning values that are valid for the configuration's normaliser / mean / trend:
    value = trend + denormalize(mean + gaussian)"""
    n = cp.shape[1]
    sc = pos_scale(cfg)
    if cfg.get("norm") is None:
        return rng.randn(n) * 2 + 1
    lo, hi = gauss_range(cfg["norm"])
    y = np.clip(np.clip(rng.randn(n) * 0.6, -1.3, 1.3) + eval_spec(cfg.get("mean"), cp, sc), lo, hi)
    return eval_spec(cfg.get("trend"), cp, sc) + ref_denormalize(cfg["norm"], y)


def gen_positions(rng, latlon, temporal, fdim, n, m):
    if latlon:
        cp = np.vstack([rng.uniform(-80, 80, n), rng.uniform(-170, 170, n)] + ([rng.uniform(0, 4, n)] if temporal else []))
        tp = np.vstack([rng.uniform(-80, 80, m), rng.uniform(-170, 170, m)] + ([rng.uniform(0, 4, m)] if temporal else []))
    else:
        # well separated conditioning points (jittered lattice) keep the system well conditioned
        grid = np.array(np.meshgrid(*([np.arange(4)] * fdim), indexing="ij")).reshape(fdim, -1)
        idx = rng.choice(grid.shape[1], size=min(n, grid.shape[1]), replace=False)
        n = len(idx)
        cp = grid[:, idx] * 2.0 + rng.uniform(-0.4, 0.4, size=(fdim, n))
        tp = rng.uniform(-1, 7, size=(fdim, m))
    return cp, tp


VARIANTS = ("Simple", "Ordinary", "Universal", "ExtDrift", "Detrended", "Krige")
VARIANT_WEIGHT = {"Simple": 0.2, "Ordinary": 0.13, "Universal": 0.17, "ExtDrift": 0.15, "Detrended": 0.1, "Krige": 0.25}


def gen_config(rng, variants=VARIANTS, latlon_ok=True, max_n=9, mnt=True):
    """returns dict describing a kriging problem (everything needed to rebuild it).
    mnt=True: non-identity normalizers, constant / callable means and trends wherever the variant accepts them"""
    pv = np.array([VARIANT_WEIGHT[v] for v in variants], dtype=float)
    variant = str(rng.choice(variants, p=pv / pv.sum()))
    generic = variant == "Krige"
    latlon = bool(latlon_ok and rng.rand() < 0.15 and variant in ("Simple", "Ordinary", "Krige"))
    temporal = bool(rng.rand() < 0.15)
    dim = 2 if latlon else int(rng.randint(1, 4))
    fdim = dim + (1 if temporal else 0)
    if fdim > 3 and not latlon:
        temporal = False
        fdim = dim
    # the generic class is drawn as one of the classical systems or a free combination of the options
    shape = str(rng.choice(["simple", "ordinary", "universal", "extdrift", "free"])) if generic else variant.lower()
    if latlon and shape in ("universal", "extdrift", "free"):
        shape = "ordinary"
    wants_drift = variant == "Universal" or shape in ("universal", "free")
    n = int(rng.randint(2, max_n + (6 if wants_drift else 0)))
    m = int(rng.randint(1, 12))
    cp, tp = gen_positions(rng, latlon, temporal, fdim, n, m)
    n = cp.shape[1]
    cfg = dict(variant=variant, latlon=latlon, temporal=temporal, dim=dim, fdim=fdim, cond_pos=cp,
               pos=tp, seed=int(rng.randint(0, 2**31 - 1)))
    cfg["exact"] = bool(rng.rand() < 0.3)
    cfg["cond_err"] = "nugget"
    if not cfg["exact"] and rng.rand() < 0.3:
        cfg["cond_err"] = float(rng.choice([0.0, 0.0625])) if rng.rand() < 0.5 else (rng.randint(0, 3, n) / 16.0)
    cfg["drift"] = None
    cfg["ext"] = None
    cfg["unbiased"] = None
    if generic:
        cfg["unbiased"] = {"simple": False, "ordinary": True, "universal": True, "extdrift": True}.get(shape, bool(rng.rand() < 0.5))
    if wants_drift:
        ch = str(rng.choice(["linear", "linear", "1", "0", "quadratic", "custom", "custom"])) if n > fdim + 2 else "0"
        if ch == "quadratic" and n <= (fdim + 1) * (fdim + 2) // 2 + 1:
            ch = "linear"
        if ch == "custom":
            pool = [("coord", int(rng.randint(0, fdim))), ("sinmix",), ("sq", int(rng.randint(0, fdim)))]
            k = int(rng.randint(1, 3))
            sel = [pool[i] for i in rng.permutation(3)[:k]]
            cfg["drift"] = ("custom", sel, bool(rng.rand() < 0.5))
        else:
            cfg["drift"] = ch if ch in ("linear", "quadratic") else int(ch)
        if generic and cfg["drift"] == 0:
            cfg["drift"] = None
    if variant == "ExtDrift" or shape == "extdrift" or (shape == "free" and rng.rand() < 0.4):
        room = n - len(drift_callables(cfg)) - 3
        k = int(rng.randint(1, 3)) if room >= 2 else 1
        if room >= 1 or shape != "free":
            cfg["ext"] = (rng.randn(k, n), rng.randn(k, m))
    # mean / normalizer / trend wherever the variant accepts them
    cfg["mean"], cfg["norm"], cfg["trend"] = None, None, None
    takes_mean = variant == "Simple" or generic
    takes_norm = variant != "Detrended"
    if variant == "Detrended":
        cfg["trend"] = gen_func(rng, fdim, 1.0, kinds=("lin", "sin"))
    if mnt:
        if takes_mean:
            cfg["mean"] = gen_func(rng, fdim, 0.6, p=[0.25, 0.3, 0.25, 0.2])
        if takes_norm:
            cfg["norm"] = gen_norm(rng)
        if variant != "Detrended":
            cfg["trend"] = gen_func(rng, fdim, 1.0, p=[0.4, 0.15, 0.25, 0.2])
    elif variant == "Simple":
        cfg["mean"] = ("const", 1.5) if rng.rand() < 0.5 else None
    cfg["cond_val"] = gen_values(rng, cfg, cp)
    cfg["pinv"] = bool(rng.rand() < 0.5)
    cfg["pinv_type"] = str(rng.choice(["pinv", "pinvh"]))
    cfg["chunk"] = None if rng.rand() < 0.4 else int(rng.randint(1, m + 2))
    cfg["model_seed"] = int(rng.randint(0, 2**31 - 1))
    return cfg


def describe(cfg):
    """JSON-friendly description of a configuration"""
    out = {}
    for k, v in cfg.items():
        if k == "ext":
            out[k] = None if v is None else [np.asarray(a).tolist() for a in v]
        elif isinstance(v, np.ndarray):
            out[k] = v.tolist()
        else:
            out[k] = v
    return out


def mnt_tag(cfg):
    """which of mean / normalizer / trend are active: e.g. 'norm=BoxCox/mean=lin/trend=none'"""
    f = lambda s: "none" if s is None else s[0]
    return f"norm={'none' if cfg.get('norm') is None else cfg['norm']['kind']}/mean={f(cfg.get('mean'))}/trend={f(cfg.get('trend'))}"


def build(cfg, capture=None, cond_pos=None, cond_val=None, ext_cond=None, model=None):
    """construct the Krige object described by cfg.  capture: list receiving the raw kriging matrices"""
    import gstools as gs
    from gstools import krige
    mr = np.random.RandomState(cfg["model_seed"])
    if model is None:
        model = make_model(mr, cfg["dim"], cfg["latlon"], cfg["temporal"])
    cp = cfg["cond_pos"] if cond_pos is None else cond_pos
    cv = cfg["cond_val"] if cond_val is None else cond_val
    kw = dict(exact=cfg["exact"], cond_err=cfg["cond_err"], pseudo_inv=cfg["pinv"], pseudo_inv_type=cfg["pinv_type"])
    if capture is not None:
        def cap(mat, _t=cfg["pinv_type"], _p=cfg["pinv"]):
            capture.append(np.array(mat, copy=True))
            if not _p:
                return spl.inv(mat)
            return spl.pinv(mat) if _t == "pinv" else spl.pinvh(mat)
        kw.update(pseudo_inv=True, pseudo_inv_type=cap)
    sc = pos_scale(cfg)
    mean, trend = func_of(cfg.get("mean"), sc), func_of(cfg.get("trend"), sc)
    nt = dict(normalizer=make_normalizer(cfg.get("norm")), trend=trend)
    ext = None if cfg["ext"] is None else (cfg["ext"][0] if ext_cond is None else ext_cond)
    v = cfg["variant"]
    if v == "Simple":
        return krige.Simple(model, cp, cv, mean=0.0 if mean is None else mean, **nt, **kw)
    if v == "Ordinary":
        return krige.Ordinary(model, cp, cv, **nt, **kw)
    if v == "Universal":
        return krige.Universal(model, cp, cv, drift_functions=drift_arg(cfg), **nt, **kw)
    if v == "ExtDrift":
        return krige.ExtDrift(model, cp, cv, ext_drift=ext, **nt, **kw)
    if v == "Detrended":
        return krige.Detrended(model, cp, cv, trend=trend, **kw)
    if v == "Krige":
        return krige.Krige(model, cp, cv, drift_functions=drift_arg(cfg), ext_drift=ext, mean=mean,
                           unbiased=cfg["unbiased"], **nt, **kw)
    raise ValueError(v)


@contextlib.contextmanager
def capture_kernel(store):
    """wrap the kernel entry points of krige/base.py; store gets (name, krig_mat, k_vec, cond, result)"""
    from gstools.krige import base
    o1, o2 = base._calc_field_krige_and_variance, base._calc_field_krige

    def w1(mat, vec, cond, *a, **k):
        r = o1(mat, vec, cond, *a, **k)
        store.append(("fv", np.array(mat), np.array(vec), np.array(cond), (np.array(r[0]), np.array(r[1]))))
        return r

    def w2(mat, vec, cond, *a, **k):
        r = o2(mat, vec, cond, *a, **k)
        store.append(("f", np.array(mat), np.array(vec), np.array(cond), (np.array(r),)))
        return r
    base._calc_field_krige_and_variance, base._calc_field_krige = w1, w2
    try:
        yield
    finally:
        base._calc_field_krige_and_variance, base._calc_field_krige = o1, o2


def call(kr, cfg, pos=None, **kw):
    pos = cfg["pos"] if pos is None else pos
    args = dict(chunk_size=cfg["chunk"])
    if cfg["ext"] is not None:
        args["ext_drift"] = cfg["ext"][1]
    args.update(kw)
    return kr(pos, **args)


# ------------------------------------------------------------------ independent solve (from the configuration alone)
def cond_err_of(cfg, model, n):
    ce = cfg["cond_err"]
    if isinstance(ce, str):
        return np.full(n, float(model.nugget))
    return np.broadcast_to(np.asarray(ce, dtype=float), (n,)).copy()


def prepared_data(cfg, cond_pos=None, cond_val=None):
    """normalize(cond_val - trend(cond_pos)) - mean(cond_pos), with the reference formulas"""
    cp = cfg["cond_pos"] if cond_pos is None else cond_pos
    cv = cfg["cond_val"] if cond_val is None else cond_val
    sc = pos_scale(cfg)
    return ref_normalize(cfg.get("norm"), cv - eval_spec(cfg.get("trend"), cp, sc)) - eval_spec(cfg.get("mean"), cp, sc)


def ref_post(cfg, raw, pos):
    """trend(pos) + denormalize(mean(pos) + raw), with the reference formulas"""
    sc = pos_scale(cfg)
    pos = np.asarray(pos, dtype=float).reshape(cfg["fdim"], -1)
    raw = np.asarray(raw, dtype=float)
    y = raw.reshape(-1) + eval_spec(cfg.get("mean"), pos, sc)
    return (eval_spec(cfg.get("trend"), pos, sc) + ref_denormalize(cfg.get("norm"), y)).reshape(raw.shape)


def solve_direct(cfg, model, pos, ext_t=None, only_mean=False):
    """kriging by solving the system with numpy for each target.  Everything is derived from the configuration
    (variant, drift, errors, exact flag, mean / normalizer / trend specs) and the covariance model; nothing is
    read from a Krige object.  Returns dict(raw, var, cond, z)."""
    cp = np.asarray(cfg["cond_pos"], dtype=float)
    n = cp.shape[1]
    tp = np.asarray(pos, dtype=float).reshape(cfg["fdim"], -1)
    m = tp.shape[1]
    cp_iso, tp_iso = model.isometrize(cp), model.isometrize(tp)
    C = model.covariance(cdist(cp_iso.T, cp_iso.T)) + np.diag(cond_err_of(cfg, model, n))
    rows, trows = [], []
    if is_unbiased(cfg):
        rows.append(np.ones(n)); trows.append(np.ones(m))
    for f in drift_callables(cfg):
        rows.append(np.broadcast_to(f(*cp), (n,))); trows.append(np.broadcast_to(f(*tp), (m,)))
    if cfg["ext"] is not None:
        et = cfg["ext"][1] if ext_t is None else ext_t
        for a, b in zip(np.atleast_2d(cfg["ext"][0]), np.atleast_2d(et)):
            rows.append(a); trows.append(b)
    r = len(rows)
    B = np.array(rows, dtype=float).reshape(r, n)
    K = np.block([[C, B.T], [B, np.zeros((r, r))]])
    cf = model.cov_nugget if cfg["exact"] else model.covariance
    ck = np.zeros((n, m)) if only_mean else cf(cdist(cp_iso.T, tp_iso.T))
    k = np.vstack([ck, np.array(trows, dtype=float).reshape(r, m)])
    z = np.concatenate([prepared_data(cfg), np.zeros(r)])
    W = np.linalg.solve(K, k)
    return dict(raw=z @ W, var=np.maximum(model.sill - np.einsum("ij,ij->j", k, W), 0), cond=float(np.linalg.cond(K)), z=z)


def rebuild_model(m):
    """a new model object with the parameters read back from `m` (public attributes only); None if the copy
    does not compare equal (then the case is not used)"""
    kw = dict(var=float(m.var), len_scale=float(m.len_scale), nugget=float(m.nugget))
    for a in m.opt_arg:
        kw[a] = getattr(m, a)
    if m.latlon:
        kw.update(latlon=True, geo_scale=float(m.geo_scale))
        if m.temporal:
            kw.update(temporal=True, anis=float(m.anis[-1]))
    else:
        if m.temporal:
            kw.update(temporal=True, spatial_dim=int(m.spatial_dim))
        else:
            kw["dim"] = int(m.dim)
        if m.dim > 1:
            kw.update(anis=[float(a) for a in m.anis], angles=[float(a) for a in m.angles])
    try:
        with warnings.catch_warnings():
            warnings.simplefilter("ignore")
            c = type(m)(**kw)
    except Exception:
        return None
    same = (c == m and c.var == m.var and c.len_scale == m.len_scale and c.nugget == m.nugget
            and np.array_equal(c.anis, m.anis) and np.array_equal(c.angles, m.angles)
            and c.geo_scale == m.geo_scale and c.rescale == m.rescale)
    return c if same else None


# ------------------------------------------------------------------ operation histories on one Krige object
class History:
    """A random history of {model edits, mean/normalizer/trend re-assignments, set_condition in all argument forms,
    calls} on ONE Krige object.  `cur` is the configuration a freshly constructed object would be given now;
    `ops` is the same history over abstract version identifiers for the Lean protocol model (krige_history)."""

    def __init__(self, rng, cfg, zero_mode=None):
        self.rng = rng
        self.cur = copy.deepcopy(cfg)
        self.zero_mode = zero_mode          # C06: None | "exact" | "zero-err" | "no-nugget"
        self.kr = build(cfg, model=make_hist_model(cfg, zero_mode))
        self.counter = 1
        self.init_ids = dict(model=1, pos=1, val=1, err=1, ext=1 if cfg["ext"] is not None else 0, mnt=1)
        self.ops = []
        self.log = []
        self.stale = False       # a model edit happened after the last set_condition
        self.need_val = False    # the current values may be outside the range of the current normalizer / trend
        self.last_sel = None     # indices of the conditioning points the last on-data call was placed on

    def _id(self):
        self.counter += 1
        return self.counter

    # -- model edits
    def edit_model(self):
        rng, kr, cfg = self.rng, self.kr, self.cur
        m = kr.model
        kinds = ["len_scale", "var", "replace"]
        if self.zero_mode != "no-nugget":
            kinds.append("nugget")
        if not cfg["latlon"] and cfg["fdim"] > 1:
            kinds += ["anis", "angles"]
        k = str(rng.choice(kinds))
        if k == "len_scale":
            m.len_scale = float(m.len_scale) * float(rng.choice([0.5, 1.5, 2.0]))
        elif k == "var":
            m.var = float(m.var) * float(rng.choice([0.5, 2.0, 3.0]))
        elif k == "nugget":
            m.nugget = float(rng.choice([v for v in (0.0, 0.125, 0.5, 0.75) if v != m.nugget]))
        elif k == "anis":
            m.anis = [float(a) for a in rng.choice([0.25, 0.5, 2.0, 3.0], size=cfg["fdim"] - 1)]
        elif k == "angles":
            m.angles = [float(a) for a in rng.uniform(-1.5, 1.5, size=cfg["fdim"] * (cfg["fdim"] - 1) // 2)]
        else:
            kr.model = make_model(rng, cfg["dim"], cfg["latlon"], cfg["temporal"],
                                  nugget=0.0 if self.zero_mode == "no-nugget" else None)
        self.stale = True
        self.ops.append(dict(k="model", v=self._id()))
        self.log.append("model:" + k)

    # -- mean / normalizer / trend re-assignment
    def edit_mnt(self):
        rng, kr, cfg = self.rng, self.kr, self.cur
        v = cfg["variant"]
        kinds = []
        if v in ("Simple", "Krige"):
            kinds.append("mean")
        if v != "Detrended":
            kinds += ["norm", "trend"]
        else:
            kinds.append("trend")
        k = str(rng.choice(kinds))
        sc = pos_scale(cfg)
        if k == "mean":
            cfg["mean"] = gen_func(rng, cfg["fdim"], 0.6, kinds=("const", "lin", "sin"))
            kr.mean = func_of(cfg["mean"], sc)
            lo, hi = gauss_range(cfg.get("norm"))
            self.need_val |= np.isfinite(lo) or np.isfinite(hi)
        elif k == "trend":
            cfg["trend"] = gen_func(rng, cfg["fdim"], 1.0, kinds=("const", "lin", "sin") if v == "Detrended" else ("none", "const", "lin", "sin"))
            kr.trend = func_of(cfg["trend"], sc)
            self.need_val |= cfg.get("norm") is not None and cfg["norm"]["kind"] in RESTRICTED
        else:
            cfg["norm"] = gen_norm(rng, p_none=0.25)
            kr.normalizer = make_normalizer(cfg["norm"])
            self.need_val |= cfg["norm"] is not None
        self.ops.append(dict(k="mnt", v=self._id()))
        self.log.append("mnt:" + k)

    # -- set_condition in its argument forms
    def set_condition(self, form=None):
        rng, kr, cfg = self.rng, self.kr, self.cur
        forms = ["none", "val", "pos+val", "val+err", "all", "err"]
        if cfg["ext"] is not None:
            forms += ["ext", "pos+val+ext"]
        else:
            forms.append("pos+val")
        if self.need_val:
            forms = [f for f in forms if "val" in f or f == "all"]
        form = str(rng.choice(forms)) if form is None else form
        n = cfg["cond_pos"].shape[1]
        kw, op = {}, dict(k="set_condition")
        if form in ("pos+val", "pos+val+ext", "all"):
            arr_err = isinstance(cfg["cond_err"], np.ndarray)
            n_new = n if (arr_err and form != "all") or rng.rand() < 0.5 else int(rng.randint(max(2, n - 2), n + 3))
            cp, _ = gen_positions(rng, cfg["latlon"], cfg["temporal"], cfg["fdim"], n_new, 1)
            if arr_err and form != "all" and cp.shape[1] != n:
                cp = cfg["cond_pos"] + rng.uniform(-0.2, 0.2, size=cfg["cond_pos"].shape)
            kw["cond_pos"] = cp
            cfg["cond_pos"] = cp
            op["pos"] = self._id()
            n = cp.shape[1]
        if "val" in form or form == "all":
            cv = gen_values(rng, cfg, cfg["cond_pos"])
            kw["cond_val"] = cv
            cfg["cond_val"] = cv
            op["val"] = self._id()
            self.need_val = False
        if form in ("ext", "pos+val+ext", "all") and cfg["ext"] is not None:
            k = cfg["ext"][0].shape[0]
            e = rng.randn(k, n)
            kw["ext_drift"] = e
            cfg["ext"] = (e, None)
            op["ext"] = self._id()
        elif "cond_pos" in kw and cfg["ext"] is not None:
            cfg["ext"] = None          # documented: the stored drift is only reused when no new positions are given
        if form in ("val+err", "all", "err"):
            if cfg["exact"] or self.zero_mode == "no-nugget":
                ce = "nugget"
            elif self.zero_mode == "zero-err":
                ce = 0.0
            else:
                ce = [float(rng.choice([0.0, 0.0625, 0.125])), rng.randint(0, 3, n) / 16.0, "nugget"][int(rng.randint(0, 3))]
            kw["cond_err"] = ce
            cfg["cond_err"] = ce
            op["err"] = self._id()
        if rng.rand() < 0.3 and "cond_pos" in kw and "cond_val" in kw:   # positional form
            args = [kw.pop("cond_pos"), kw.pop("cond_val")]
        else:
            args = []
        kr.set_condition(*args, **kw)
        self.stale = False
        self.ops.append(op)
        self.log.append("set_condition:" + form)
        return form

    # -- calls
    def call_args(self, on_data=False):
        rng, cfg = self.rng, self.cur
        m = int(rng.randint(1, 9))
        _, tp = gen_positions(rng, cfg["latlon"], cfg["temporal"], cfg["fdim"], 2, m)
        self.last_sel = None
        if on_data or rng.rand() < 0.25:
            k = cfg["cond_pos"].shape[1]
            sel = rng.permutation(k)[: max(1, k // 2)]
            tp = cfg["cond_pos"][:, sel].copy() if on_data else np.hstack([cfg["cond_pos"][:, sel], tp])
            self.last_sel = sel if on_data else None
        m = tp.shape[1]
        kw = dict(chunk_size=None if rng.rand() < 0.4 else int(rng.randint(1, m + 2)),
                  only_mean=bool(rng.rand() < 0.15), return_var=bool(rng.rand() < 0.7),
                  post_process=bool(rng.rand() < 0.6), store=bool(rng.rand() < 0.5))
        if on_data:
            kw.update(only_mean=False, return_var=True, post_process=True)
        if cfg["ext"] is not None:
            kw["ext_drift"] = rng.randn(cfg["ext"][0].shape[0], m)
            if self.last_sel is not None:     # targets on the data carry the data's external drift
                kw["ext_drift"] = np.asarray(cfg["ext"][0])[:, self.last_sel].copy()
        return tp, kw

    def call(self, tp, kw, obj=None):
        """returns ("ok", field, var-or-None) or ("error", type name)"""
        kr = self.kr if obj is None else obj
        try:
            with warnings.catch_warnings():
                warnings.simplefilter("ignore")
                out = kr(tp, **kw)
        except Exception as e:
            return ("error", type(e).__name__)
        if isinstance(out, tuple):
            return ("ok", np.array(out[0]), np.array(out[1]))
        return ("ok", np.array(out), None)

    def record_call(self):
        self.ops.append(dict(k="call"))

    def fresh(self):
        """a freshly constructed object with the current model parameters and conditions (or None)"""
        mod = rebuild_model(self.kr.model)
        if mod is None:
            return None, None
        with warnings.catch_warnings():
            warnings.simplefilter("ignore")
            return build(self.cur, model=mod), mod


def make_hist_model(cfg, zero_mode):
    mr = np.random.RandomState(cfg["model_seed"])
    return make_model(mr, cfg["dim"], cfg["latlon"], cfg["temporal"], nugget=0.0 if zero_mode == "no-nugget" else None)


def run_history(rng, cfg, segments=3, zero_mode=None):
    """generator: drives one History and yields, for every call made, a dict
    (hist, tp, kw, res, synced, step).  Calls in a stale state (model edited, no set_condition yet) are made and
    yielded with synced=False (nothing is claimed about them)."""
    with warnings.catch_warnings():
        warnings.simplefilter("ignore")
        h = History(rng, cfg, zero_mode)
    step = 0
    for seg in range(segments):
        # calls on the synced object (first segment: the freshly constructed one)
        for _ in range(int(rng.randint(1, 3))):
            if h.need_val:
                break
            tp, kw = h.call_args(on_data=bool(zero_mode) and rng.rand() < 0.5)
            res = h.call(tp, kw)
            h.record_call()
            step += 1
            yield dict(hist=h, tp=tp, kw=kw, res=res, synced=True, step=step, sel=h.last_sel)
        # edits
        ne = int(rng.randint(0, 3))
        for _ in range(ne):
            with warnings.catch_warnings():
                warnings.simplefilter("ignore")
                (h.edit_model if rng.rand() < 0.7 else h.edit_mnt)()
            if rng.rand() < 0.3 and not h.need_val:      # a call between the edits and set_condition
                tp, kw = h.call_args()
                res = h.call(tp, kw)
                h.record_call()
                step += 1
                yield dict(hist=h, tp=tp, kw=kw, res=res, synced=not h.stale, step=step, sel=None)
        with warnings.catch_warnings():
            warnings.simplefilter("ignore")
            h.set_condition()
    for _ in range(int(rng.randint(1, 3))):
        tp, kw = h.call_args(on_data=bool(zero_mode) and rng.rand() < 0.5)
        res = h.call(tp, kw)
        h.record_call()
        step += 1
        yield dict(hist=h, tp=tp, kw=kw, res=res, synced=True, step=step, sel=h.last_sel)
