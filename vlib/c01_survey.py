#!/usr/bin/env python3
"""Development aid: measure the spectral-sampling outcomes of every configuration of C01's sampling test on the CURRENT tree for one
tier and print them as JSON (used once, on the pristine tree, to write vlib/c01_sampling_baseline.json and the S1/S2 entries of
known_findings.json).  usage: c01_survey.py quick|thorough out.json [i/n]   (i/n: process the i-th of n slices)"""
import json, sys, os
sys.path.insert(0, os.path.dirname(os.path.abspath(__file__)))
import core
from props import C01
tier, out = sys.argv[1], sys.argv[2]
ctx = core.Ctx("C01", tier, 0)
allc = [(n, kw, d, N) for n, kw in C01.SAMPLING_CONFIGS for d in (1, 2, 3) for N in (64, 1000)]
if len(sys.argv) > 3:
    i, n = map(int, sys.argv[3].split("/"))
    allc = allc[i::n]
rec = {}
C01.sampling_search(ctx, False, only=allc, record=rec)
json.dump(rec, open(out, "w"), indent=0)
