#!/usr/bin/env python3
"""combine the coverage data written by `GSV_COVERAGE=<dir> ./check Cxx` runs and list, per gstools module, the statements no
check harness reached (development aid for stratifying the generators; usage: covreport.py <dir> [--json out])"""
import glob, json, os, sys
import coverage
d = sys.argv[1]
files = glob.glob(os.path.join(d, ".coverage.*"))
cov = coverage.Coverage(data_file=os.path.join(d, ".coverage.combined"), branch=True)
cov.combine(files, keep=True)
cov.save()
data = cov.get_data()
out = {}
tot_s = tot_m = 0
for f in sorted(data.measured_files()):
    if "/gstools/" not in f:
        continue
    try:
        _, stmts, excl, missing, _ = cov.analysis2(f)
    except Exception:
        continue
    rel = f.split("/gstools/", 1)[1]
    tot_s += len(stmts); tot_m += len(missing)
    out[rel] = {"statements": len(stmts), "missing": len(missing), "missing_lines": missing}
    print(f"{rel:32s} {len(stmts):5d} stmts  {len(missing):4d} missed  {100 - 100 * len(missing) / max(1, len(stmts)):5.1f}%")
print(f"TOTAL {tot_s} statements, {tot_m} missed, {100 - 100 * tot_m / max(1, tot_s):.1f}% reached")
if "--json" in sys.argv:
    json.dump(out, open(sys.argv[sys.argv.index("--json") + 1], "w"), indent=0)
