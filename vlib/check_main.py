import argparse
import os
import sys
import traceback

sys.path.insert(0, os.path.dirname(os.path.abspath(__file__)))


def main():
    ap = argparse.ArgumentParser()
    ap.add_argument("prop")
    ap.add_argument("--tier", default=os.environ.get("VERIF_TIER", "quick"), choices=["quick", "thorough"])
    ap.add_argument("--replay", default=None)
    a = ap.parse_args()
    seed = int(os.environ.get("VERIF_SEED", "0") or 0)
    import core
    cov = None
    if os.environ.get("GSV_COVERAGE"):
        # development aid: which lines / branches of gstools do this check's harnesses reach?  (vlib/covreport.py combines)
        import coverage
        os.makedirs(os.environ["GSV_COVERAGE"], exist_ok=True)
        cov = coverage.Coverage(data_file=os.path.join(os.environ["GSV_COVERAGE"], f".coverage.{a.prop}.{seed}"),
                                source=[core.SRC], branch=True)
        cov.start()
    kw = None
    if os.environ.get("GSV_KWCOV"):
        # development aid: which keyword parameters of gstools are ever given non-default values (vlib/kwcov.py reports)
        import kwcov as kw
        kw.install()
    try:
        try:
            rc = core.run_check(a.prop, a.tier, seed, a.replay)
        finally:
            if kw is not None:
                kw.dump(os.environ["GSV_KWCOV"], f"{a.prop}.{seed}")
            if cov is not None:
                cov.stop()
                cov.save()
    except SystemExit:
        raise
    except BaseException:
        traceback.print_exc()
        print("check: internal error (exit 2)")
        sys.exit(2)
    sys.exit(rc)


if __name__ == "__main__":
    main()
