"""Tie B for GSV.Model.Grid: gstools.tools.geometric.generate_grid + the C-order reshape of Field.structured
against the Lean model (exact), and the end-to-end statement 'structured call == unstructured call on the expanded
point list, reshaped' on real field classes.  Shared by C05 / C11 (DESIGN §4)."""
import numpy as np
from proto import run_driver, fbits, unbits


def grid_correspondence(ctx, n=None):
    from gstools.tools.geometric import generate_grid
    rng = np.random.RandomState(ctx.seed + 3301)
    n = n or ctx.scale(40, 300)
    ops, refs, dis, distinct = [], [], [], set()
    for t in range(n):
        dim = int(rng.randint(1, 5))
        shape = [int(rng.randint(1, 5)) for _ in range(dim)]
        if rng.rand() < 0.1:
            shape[int(rng.randint(dim))] = 0
        axes = [rng.randint(-20, 20, size=s) / 4.0 for s in shape]
        ops.append({"op": "grid_generate", "axes": [fbits(a) for a in axes]})
        real = generate_grid(axes)
        refs.append((axes, real, shape))
        distinct.add(tuple(shape))
        # decode: numpy's own C-order unravel
        if np.prod(shape) > 0:
            k = int(rng.randint(0, np.prod(shape)))
            ops.append({"op": "grid_decode", "dims": shape, "n": k})
            refs.append(("decode", [int(x) for x in np.unravel_index(k, shape)], (shape, k)))
    res = run_driver(ops)
    for o, ref, r in zip(ops, refs, res):
        if isinstance(r, dict) and "error" in r:
            dis.append({"what": "grid: driver error " + r["error"]})
            continue
        if ref[0] == "decode" if isinstance(ref[0], str) else False:
            if list(r) != ref[1]:
                dis.append({"what": "grid: C-order decode differs from numpy.unravel_index", "case": ref[2], "numpy": ref[1], "model": r})
            continue
        axes, real, shape = ref
        lean = np.array([unbits(row) for row in r], dtype=float).reshape(len(axes), -1) if len(r) else np.zeros((0, 0))
        if lean.shape != real.shape or not np.array_equal(lean, real):
            dis.append({"what": "generate_grid differs from the model (meshgrid ij, C order)", "shape": shape,
                        "real": real.tolist(), "model": lean.tolist()})
    return {"evaluations": len(ops), "distinct": len(distinct), "disagreements": dis,
            "rule": "generate_grid on random axes (dim 1-4, axis lengths 0-4) and C-order index decoding vs numpy.unravel_index, exact"}
