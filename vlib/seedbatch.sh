#!/bin/bash
# seedbatch.sh Cxx [related props...]: import /tmp/seed/Cxx/SEED/{a,b} into /verif/seeded/Cxx{a,b}, confirm, run checks
P=$1; shift; REL="$@"
for x in a b; do
  s=${SEEDSRC:-/tmp/seed}/$P/SEED/$x; d=/verif/seeded/${SEEDPFX}$P$x
  [ -f $s/patch.diff ] || { echo "no $s"; continue; }
  mkdir -p $d; cp $s/patch.diff $s/demo.py $s/meta.json $d/ 2>/dev/null
  ( /venv/bin/python /verif/vlib/seedtool.py confirm $d > $d/confirm.json 2>&1;
    /venv/bin/python /verif/vlib/seedtool.py run $d $P $REL > $d/run.json 2>&1 ) &
done
wait
for x in a b; do d=/verif/seeded/${SEEDPFX}$P$x; echo "== $P$x"; python3 - <<PY
import json
try:
    c=json.load(open("$d/confirm.json")); print(" confirm:",c["confirmed"],"demo0",c["demo_pristine_exit"],"demo1",c["demo_patched_exit"],"tests",c.get("tests_exit"),c.get("tests_tail"))
except Exception as e: print(" confirm unreadable",e, open("$d/confirm.json").read()[-300:])
try:
    r=json.load(open("$d/run.json"))
    for k,v in r.items(): print("  ",k,"exit",v["exit"],v["wall_s"],"s",v["detail"][:300])
except Exception as e: print(" run unreadable",e, open("$d/run.json").read()[-300:])
PY
done
