#!/bin/bash
# harmrun.sh <harmless-dir>...: run every quick check against a scratch worktree with the (behaviour-preserving) patch applied
for d in "$@"; do
  /venv/bin/python /verif/vlib/seedtool.py run $d C01 C02 C03 C04 C05 C06 C07 C08 C09 C10 C11 C12 C13 C14 C15 C16 C17 C18 C19 C20 > $d/run.json 2>&1
  python3 - <<PY
import json
try:
    r=json.load(open("$d/run.json")); bad={k:(v["exit"],v["detail"][:140]) for k,v in r.items() if v["exit"]!=0}
    print("$d", "ALL GREEN" if not bad else bad)
except Exception as e: print("$d unreadable", e)
PY
done
