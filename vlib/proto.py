"""Line protocol to the Lean driver (tie B / kernel correspondence)."""
import json
import os
import struct
import subprocess

VERIF = os.path.dirname(os.path.dirname(os.path.abspath(__file__)))
LEAN_DIR = os.environ.get("GSV_LEAN") or os.path.join(VERIF, "lean")
DRIVER_EXE = os.path.join(LEAN_DIR, ".lake", "build", "bin", "gsvdriver")


def f2b(x):
    """double -> its 64-bit pattern as int"""
    return struct.unpack("<Q", struct.pack("<d", float(x)))[0]


def b2f(b):
    return struct.unpack("<d", struct.pack("<Q", int(b)))[0]


def fbits(arr):
    import numpy as np
    a = np.ascontiguousarray(arr, dtype=np.float64).ravel()
    return [int(v) for v in a.view(np.uint64)]


def unbits(lst):
    import numpy as np
    return np.array(lst, dtype=np.uint64).view(np.float64)


def rat(x):
    """exact rational of a python float / int / Fraction as [num, den]"""
    from fractions import Fraction
    fr = Fraction(x)
    return [fr.numerator, fr.denominator]


def unrat(p):
    from fractions import Fraction
    return Fraction(int(p[0]), int(p[1]))


def run_driver(ops, timeout=1800):
    """ops: list of dicts (each with key 'op').  Returns list of decoded JSON results."""
    if not ops:
        return []
    data = "\n".join(json.dumps(o, separators=(",", ":")) for o in ops) + "\n"
    if os.path.exists(DRIVER_EXE) and os.environ.get("GSV_DRIVER_INTERP") != "1":
        cmd = [DRIVER_EXE]
    else:
        cmd = ["lake", "env", "lean", "--run", "Driver.lean"]
    p = subprocess.run(cmd, input=data.encode(), cwd=LEAN_DIR, capture_output=True, timeout=timeout)
    if p.returncode != 0:
        raise RuntimeError(f"driver failed rc={p.returncode}: {p.stderr.decode()[-2000:]}")
    lines = [l for l in p.stdout.decode().split("\n") if l.strip()]
    if len(lines) != len(ops):
        raise RuntimeError(f"driver returned {len(lines)} lines for {len(ops)} ops; stderr={p.stderr.decode()[-1000:]}")
    return [json.loads(l) for l in lines]
