#!/usr/bin/env python3
"""self-test of pyexpr2lean (run by hand: /venv/bin/python vlib/selftest_pyexpr2lean.py; ~2 min): semantic edits change the generated text and break the tie theorem; cosmetic edits
leave the generated text byte-identical.  Works on a scratch copy of /repo/src only."""
import os
import re
import shutil
import subprocess
import sys

sys.path.insert(0, "/verif/vlib")
import pyexpr2lean  # noqa: E402

SCR = os.environ.get("PYEXPR_SCRATCH", "/tmp/pyexpr")   # scratch directory (created, not removed)
LEAN = "/verif/lean"
TIES = {"NormFormulas": ["GenTieNorm"], "CorFormulas": ["GenTieCor", "GenTieCorGamma"],
        "TransformFormulas": ["GenTieTransform"], "SpectralFormulas": ["GenTieSpectral"]}


def fresh():
    shutil.rmtree(f"{SCR}/src", ignore_errors=True)
    shutil.copytree("/repo/src", f"{SCR}/src")


def gen(tag):
    d = f"{SCR}/gen_{tag}"
    shutil.rmtree(d, ignore_errors=True)
    os.makedirs(d)
    broken, changed = pyexpr2lean.regenerate_all(f"{SCR}/src/gstools", d)
    return d, broken


def edit(rel, old, new, count=1, nth=0):
    p = f"{SCR}/src/gstools/{rel}"
    s = open(p).read()
    idx = [m.start() for m in re.finditer(re.escape(old), s)]
    assert idx, f"pattern not found in {rel}: {old!r}"
    i = idx[nth]
    s = s[:i] + new + s[i + len(old):]
    open(p, "w").write(s)


def lean_check(gen_dir, ns):
    """concatenate the (mutated) generated file and its tie files into one scratch module; return failing theorems"""
    gtxt = open(f"{gen_dir}/{ns}.lean").read()
    ttxts = [open(f"{LEAN}/GSV/Props/{tie}.lean").read() for tie in TIES[ns]]
    local = {f"GSV.Gen.{ns}"} | {f"GSV.Props.{t}" for t in TIES[ns]}
    imports = []
    for txt in [gtxt] + ttxts:
        for m in re.finditer(r"^import\s+(\S+)", txt, re.M):
            if m.group(1) not in local and m.group(1) not in imports:
                imports.append(m.group(1))
    strip = lambda t: "\n".join(l for l in t.split("\n") if not l.startswith("import "))
    body = "".join(f"import {i}\n" for i in imports) + strip(gtxt) + "\n" + "\n".join(strip(t) for t in ttxts)
    os.makedirs(f"{SCR}/chk", exist_ok=True)
    path = f"{SCR}/chk/Mut_{ns}.lean"
    open(path, "w").write(body)
    p = subprocess.run(["lake", "env", "lean", path], cwd=LEAN, capture_output=True, text=True)
    out = p.stdout + p.stderr
    lines = body.split("\n")
    failing = []
    for m in re.finditer(r"Mut_\w+\.lean:(\d+):\d+: error", out):
        ln = int(m.group(1))
        name = None
        for k in range(ln - 1, -1, -1):
            mm = re.match(r"^(theorem|example|def|noncomputable def)\s*(\w+)?", lines[k])
            if mm:
                name = "example" if mm.group(1) == "example" else mm.group(2)
                break
        if name not in failing:
            failing.append(name)
    return p.returncode, failing


def main():
    fresh()
    base, broken0 = gen("base")
    assert not broken0, broken0
    for ns in TIES:
        if os.path.exists(f"{base}/{ns}.lean"):
            same = open(f"{base}/{ns}.lean").read() == open(f"{LEAN}/GSV/Gen/{ns}.lean").read()
            rc, failing = lean_check(base, ns)
            print(f"BASE  {ns}: scratch output identical to /verif/lean/GSV/Gen: {same}; tie file checks: rc={rc} failing={failing}")

    semantic = [
        ("S1 BoxCox._normalize: `- 1` -> `+ 1`", "NormFormulas", "normalizer/methods.py",
         "return (np.power(data, self.lmbda) - 1) / self.lmbda", "return (np.power(data, self.lmbda) + 1) / self.lmbda", 0),
        ("S2 BoxCox._derivative: `lmbda - 1` -> `1 - lmbda`", "NormFormulas", "normalizer/methods.py",
         "return np.power(data, self.lmbda - 1)", "return np.power(data, 1 - self.lmbda)", 0),
        ("S3 YeoJohnson._normalize: np.log1p -> np.log", "NormFormulas", "normalizer/methods.py",
         "res[pos] = np.log1p(data[pos])", "res[pos] = np.log(data[pos])", 0),
        ("S4 YeoJohnson._normalize: mask `>=` -> `>`", "NormFormulas", "normalizer/methods.py",
         "pos = data >= 0", "pos = data > 0", 1),
        ("S5 Manly.denormalize_range: sign of the finite end for lmbda<0 (defect D1 re-introduced)", "NormFormulas",
         "normalizer/methods.py", "return (-np.inf, -np.divide(1, self.lmbda))", "return (-np.inf, np.divide(1, self.lmbda))", 2),
        ("S6 BoxCoxShift.normalize_range: ends swapped", "NormFormulas", "normalizer/methods.py",
         "return (-self.shift, np.inf)", "return (np.inf, -self.shift)", 0),
        ("S7 Cubic.cor: coefficient 8.75 -> 8.5", "CorFormulas", "covmodel/models.py",
         "8.75 * h**3", "8.5 * h**3", 0),
        ("S8 Circular.cor: mask `<` -> `<=`", "CorFormulas", "covmodel/models.py",
         "h_l1 = h < 1.0", "h_l1 = h <= 1.0", 0),
        ("S9 Gaussian.calc_integral_scale: `/ 2.0` -> `/ 4.0`", "CorFormulas", "covmodel/models.py",
         "return self.len_rescaled * np.sqrt(np.pi) / 2.0", "return self.len_rescaled * np.sqrt(np.pi) / 4.0", 0),
        ("S10 Modulus._denormalize rewritten with a loop (outside the subset)", "NormFormulas", "normalizer/methods.py",
         "            return np.sign(data) * np.expm1(np.abs(data))",
         "            for _ in range(1):\n                pass\n            return np.sign(data) * np.expm1(np.abs(data))", 0),
    ]
    semantic += [
        ("S11 Exponential.spectral_rad_cdf dim 2: `1.0 -` -> `1.0 +`", "SpectralFormulas", "covmodel/models.py",
         "return 1.0 - 1.0 / np.sqrt(1.0 + (r * self.len_rescaled) ** 2)",
         "return 1.0 + 1.0 / np.sqrt(1.0 + (r * self.len_rescaled) ** 2)", 0),
        ("S12 Gaussian.spectral_rad_ppf: dim test 2 -> 3", "SpectralFormulas", "covmodel/models.py",
         "        if self.dim == 2:\n            return 2.0 / self.len_rescaled * np.sqrt(-np.log(1.0 - u))",
         "        if self.dim == 3:\n            return 2.0 / self.len_rescaled * np.sqrt(-np.log(1.0 - u))", 0),
        ("S13 array_zinnharvey: `if conn == \"high\"` -> `\"low\"`", "TransformFormulas", "transform/array.py",
         'if conn == "high":', 'if conn == "low":', 0),
        ("S14 array_to_uquad: default bound 5/3 -> 3/5", "TransformFormulas", "transform/array.py",
         "a = mean - np.sqrt(5.0 / 3.0 * var) if a is None else float(a)",
         "a = mean - np.sqrt(3.0 / 5.0 * var) if a is None else float(a)", 0),
        ("S15 array_force_moments: `field - mean_in` -> `field + mean_in`", "TransformFormulas", "transform/array.py",
         "return rescale * (field - mean_in) + mean", "return rescale * (field + mean_in) + mean", 0),
        ("S16 Stable.calc_integral_scale: `1.0 + 1.0 / alpha` -> `1.0 + alpha`", "CorFormulas", "covmodel/models.py",
         "sps.gamma(1.0 + 1.0 / self.alpha)", "sps.gamma(1.0 + self.alpha)", 0),
    ]
    only = os.environ.get("SELFTEST_ONLY")
    if only:
        semantic = [x for x in semantic if x[0].split()[0] in only.split(",")]
    extra = os.environ.get("SELFTEST_EXTRA")
    if extra:
        semantic += eval(open(extra).read())
    for what, ns, rel, old, new, nth in semantic:
        fresh()
        edit(rel, old, new, nth=nth)
        d, broken = gen("mut")
        changed = open(f"{d}/{ns}.lean").read() != open(f"{base}/{ns}.lean").read()
        others = [n for n in TIES if n != ns and os.path.exists(f"{d}/{n}.lean")
                  and open(f"{d}/{n}.lean").read() != open(f"{base}/{n}.lean").read()]
        rc, failing = lean_check(d, ns)
        print(f"SEM   {what}\n      generated text changed: {changed} (other files changed: {others}); translator broken: "
              f"{[b['detail'][:90] for b in broken]}\n      tie file rc={rc}; failing: {failing}")

    cosmetic = [
        ("K1 comments + blank lines inside BoxCox._normalize / Cubic.cor", [
            ("normalizer/methods.py", "        return (np.power(data, self.lmbda) - 1) / self.lmbda",
             "        # the classical Box-Cox transform\n\n        return (np.power(data, self.lmbda) - 1) / self.lmbda  # (x^l - 1)/l", 0),
            ("covmodel/models.py", "        h = np.minimum(np.abs(h, dtype=np.double), 1.0)\n        return 1.0 - 7",
             "        # clip\n        h = np.minimum(np.abs(h, dtype=np.double), 1.0)\n\n\n        return 1.0 - 7", 0)]),
        ("K2 docstrings of YeoJohnson._normalize and Gaussian.cor changed / added", [
            ("normalizer/methods.py", "    def _normalize(self, data):\n        data = np.asanyarray(data)",
             "    def _normalize(self, data):\n        \"\"\"Yeo-Johnson forward transform (new docstring).\"\"\"\n        data = np.asanyarray(data)", 0),
            ("covmodel/models.py", '"""Gaussian normalized correlation function.', '"""Gaussian normalized correlation function (edited).', 0)]),
        ("K3 expressions re-wrapped over several lines with redundant parentheses", [
            ("normalizer/methods.py", "        return (np.power(data, self.lmbda) - 1) / self.lmbda",
             "        return (\n            (np.power(data, (self.lmbda)) - 1)\n            / self.lmbda\n        )", 0),
            ("covmodel/models.py", "        return 1.0 - 1.5 * h + 0.5 * h**3", "        return (\n            (1.0 - (1.5 * h))\n            + 0.5 * h ** 3\n        )", 0)]),
        ("K4 local variables renamed / introduced (YeoJohnson._normalize res->out, pos->mask; temp in Manly._normalize)", [
            ("normalizer/methods.py",
             None, None, 0)]),
    ]
    for what, edits in cosmetic:
        fresh()
        for rel, old, new, nth in edits:
            if old is None:
                p = f"{SCR}/src/gstools/{rel}"
                s = open(p).read()
                i = s.index("class YeoJohnson")
                j = s.index("    def _normalize", i)
                k = s.index("    def _derivative", j)
                blk = s[j:k]
                blk2 = re.sub(r"\bres\b", "out", re.sub(r"\bpos\b", "mask", blk))
                assert blk2 != blk
                s = s[:j] + blk2 + s[k:]
                old2 = "        return np.expm1(np.multiply(data, self.lmbda)) / self.lmbda"
                assert old2 in s
                s = s.replace(old2, "        scaled = np.multiply(data, self.lmbda)\n        top = np.expm1(scaled)\n        return top / self.lmbda")
                open(p, "w").write(s)
            else:
                edit(rel, old, new, nth=nth)
        d, broken = gen("cos")
        ident = {n: open(f"{d}/{n}.lean").read() == open(f"{base}/{n}.lean").read()
                 for n in TIES if os.path.exists(f"{d}/{n}.lean")}
        print(f"COS   {what}\n      generated files byte-identical: {ident}; broken: {broken}")


if __name__ == "__main__":
    main()
