#!/usr/bin/env python3
"""self-test of pyexpr2lean and of the tie theorems (run by hand: /venv/bin/python vlib/selftest_pyexpr2lean.py; ~5 min):
  SEM   semantic edits change the generated text and break an OBLIGATION (`*_eq_model_real` of GSV/Props/GenTie*.lean) or the translator;
  COS   cosmetic edits leave the generated text byte-identical;
  HARM  behaviour-preserving algebraic rewrites (harmless/H03b, H08b, H09b: regrouped products / quotients / roots) change the
        generated text, break only INFORMATIVE theorems (the carrier-polymorphic `rfl` form in GenTie*Exact.lean) and leave every
        obligation checking.
Works on a scratch copy of /repo/src only; a summary table is printed at the end."""
import os
import re
import shutil
import subprocess
import sys

sys.path.insert(0, "/verif/vlib")
import pyexpr2lean  # noqa: E402

SCR = os.environ.get("PYEXPR_SCRATCH", "/tmp/pyexpr")   # scratch directory (created, not removed)
LEAN = "/verif/lean"
# generated module -> (tie files holding the registered obligations, tie files holding informative theorems)
TIES = {"NormFormulas": (["GenTieNorm"], ["GenTieNormExact"]),
        "CorFormulas": (["GenTieCor", "GenTieCorGamma"], ["GenTieCorExact"]),
        "TransformFormulas": (["GenTieTransform"], ["GenTieTransformExact"]),
        "SpectralFormulas": (["GenTieSpectral"], ["GenTieSpectralExact"])}
REGISTRY = {"NormFormulas": "C18", "CorFormulas": "C03", "TransformFormulas": "C19", "SpectralFormulas": "C04"}
HARMLESS = [("H03b", ["CorFormulas", "SpectralFormulas"]), ("H08b", ["NormFormulas"]), ("H09b", ["TransformFormulas"])]


def fresh():
    shutil.rmtree(f"{SCR}/src", ignore_errors=True)
    shutil.copytree("/repo/src", f"{SCR}/src")


def gen(tag):
    d = f"{SCR}/gen_{tag}"
    shutil.rmtree(d, ignore_errors=True)
    os.makedirs(d)
    broken, changed = pyexpr2lean.regenerate_all(f"{SCR}/src/gstools", d)
    return d, broken


def edit(rel, old, new, count=1, nth=0):
    p = f"{SCR}/src/gstools/{rel}"
    s = open(p).read()
    idx = [m.start() for m in re.finditer(re.escape(old), s)]
    assert idx, f"pattern not found in {rel}: {old!r}"
    i = idx[nth]
    s = s[:i] + new + s[i + len(old):]
    open(p, "w").write(s)


def lean_check(gen_dir, ns):
    """concatenate the (mutated) generated file and its tie files into one scratch module (error recovery keeps later
    theorems checkable); return (rc, failing obligations, failing informative theorems, other failing declarations)"""
    import json
    gtxt = open(f"{gen_dir}/{ns}.lean").read()
    oblig, info = TIES[ns]
    files = oblig + info
    ttxts = [open(f"{LEAN}/GSV/Props/{tie}.lean").read() for tie in files]
    local = {f"GSV.Gen.{ns}"} | {f"GSV.Props.{t}" for t in files}
    imports = []
    for txt in [gtxt] + ttxts:
        for m in re.finditer(r"^import\s+(\S+)", txt, re.M):
            if m.group(1) not in local and m.group(1) not in imports:
                imports.append(m.group(1))
    strip = lambda t: "\n".join(l for l in t.split("\n") if not l.startswith("import "))
    body = "".join(f"import {i}\n" for i in imports) + strip(gtxt) + "\n"
    owner = {}                               # line number (1-based) -> tie file
    for tie, t in zip(files, ttxts):
        start = body.count("\n") + 1
        body += strip(t) + "\n"
        for ln in range(start, body.count("\n") + 1):
            owner[ln] = tie
    os.makedirs(f"{SCR}/chk", exist_ok=True)
    path = f"{SCR}/chk/Mut_{ns}.lean"
    open(path, "w").write(body)
    p = subprocess.run(["lake", "env", "lean", path], cwd=LEAN, capture_output=True, text=True)
    out = p.stdout + p.stderr
    lines = body.split("\n")
    reg = json.load(open(f"/verif/vlib/registry/{REGISTRY[ns]}.json"))
    ob_names = {t.split(".")[-2] + "." + t.split(".")[-1] for t in reg["theorems"]}
    in_names = {t.split(".")[-2] + "." + t.split(".")[-1] for t in reg.get("informative", {}).get("theorems", [])}
    f_ob, f_in, f_other = [], [], []
    for m in re.finditer(r"Mut_\w+\.lean:(\d+):\d+: error", out):
        ln = int(m.group(1))
        name = None
        # an error reported at the doc comment of a declaration belongs to that declaration (scan forward), otherwise
        # to the declaration the line lies in (scan backward)
        doc = lines[ln - 1].lstrip().startswith("/--")
        for k in (range(ln - 1, len(lines)) if doc else range(ln - 1, -1, -1)):
            mm = re.match(r"^(theorem|example|def|noncomputable def)\s*(\w+)?", lines[k])
            if mm:
                name = "example" if mm.group(1) == "example" else mm.group(2)
                break
        q = f"{owner.get(ln, '?')}.{name}"
        dst = f_ob if q in ob_names else f_in if q in in_names else f_other
        if name not in dst:
            dst.append(name)
    return p.returncode, f_ob, f_in, f_other


def main():
    table = []
    fresh()
    base, broken0 = gen("base")
    assert not broken0, broken0
    for ns in TIES:
        if os.path.exists(f"{base}/{ns}.lean"):
            same = open(f"{base}/{ns}.lean").read() == open(f"{LEAN}/GSV/Gen/{ns}.lean").read()
            rc, f_ob, f_in, f_other = lean_check(base, ns)
            print(f"BASE  {ns}: scratch output identical to /verif/lean/GSV/Gen: {same}; tie files check: rc={rc} "
                  f"failing obligations={f_ob} informative={f_in} other={f_other}")
            table.append(("BASE " + ns, "unchanged tree", "all hold" if rc == 0 else "FAILS", f_ob, f_in))

    semantic = [
        ("S1 BoxCox._normalize: `- 1` -> `+ 1`", "NormFormulas", "normalizer/methods.py",
         "return (np.power(data, self.lmbda) - 1) / self.lmbda", "return (np.power(data, self.lmbda) + 1) / self.lmbda", 0),
        ("S2 BoxCox._derivative: `lmbda - 1` -> `1 - lmbda`", "NormFormulas", "normalizer/methods.py",
         "return np.power(data, self.lmbda - 1)", "return np.power(data, 1 - self.lmbda)", 0),
        ("S3 YeoJohnson._normalize: np.log1p -> np.log", "NormFormulas", "normalizer/methods.py",
         "res[pos] = np.log1p(data[pos])", "res[pos] = np.log(data[pos])", 0),
        ("S4 YeoJohnson._normalize: mask `>=` -> `>`", "NormFormulas", "normalizer/methods.py",
         "pos = data >= 0", "pos = data > 0", 1),
        ("S5 Manly.denormalize_range: sign of the finite end for lmbda<0 (defect D1 re-introduced)", "NormFormulas",
         "normalizer/methods.py", "return (-np.inf, -np.divide(1, self.lmbda))", "return (-np.inf, np.divide(1, self.lmbda))", 2),
        ("S6 BoxCoxShift.normalize_range: ends swapped", "NormFormulas", "normalizer/methods.py",
         "return (-self.shift, np.inf)", "return (np.inf, -self.shift)", 0),
        ("S7 Cubic.cor: coefficient 8.75 -> 8.5", "CorFormulas", "covmodel/models.py",
         "8.75 * h**3", "8.5 * h**3", 0),
        ("S8 Circular.cor: mask `<` -> `<=`", "CorFormulas", "covmodel/models.py",
         "h_l1 = h < 1.0", "h_l1 = h <= 1.0", 0),
        ("S9 Gaussian.calc_integral_scale: `/ 2.0` -> `/ 4.0`", "CorFormulas", "covmodel/models.py",
         "return self.len_rescaled * np.sqrt(np.pi) / 2.0", "return self.len_rescaled * np.sqrt(np.pi) / 4.0", 0),
        ("S10 Modulus._denormalize rewritten with a loop (outside the subset)", "NormFormulas", "normalizer/methods.py",
         "            return np.sign(data) * np.expm1(np.abs(data))",
         "            for _ in range(1):\n                pass\n            return np.sign(data) * np.expm1(np.abs(data))", 0),
    ]
    semantic += [
        ("S11 Exponential.spectral_rad_cdf dim 2: `1.0 -` -> `1.0 +`", "SpectralFormulas", "covmodel/models.py",
         "return 1.0 - 1.0 / np.sqrt(1.0 + (r * self.len_rescaled) ** 2)",
         "return 1.0 + 1.0 / np.sqrt(1.0 + (r * self.len_rescaled) ** 2)", 0),
        ("S12 Gaussian.spectral_rad_ppf: dim test 2 -> 3", "SpectralFormulas", "covmodel/models.py",
         "        if self.dim == 2:\n            return 2.0 / self.len_rescaled * np.sqrt(-np.log(1.0 - u))",
         "        if self.dim == 3:\n            return 2.0 / self.len_rescaled * np.sqrt(-np.log(1.0 - u))", 0),
        ("S13 array_zinnharvey: `if conn == \"high\"` -> `\"low\"`", "TransformFormulas", "transform/array.py",
         'if conn == "high":', 'if conn == "low":', 0),
        ("S14 array_to_uquad: default bound 5/3 -> 3/5", "TransformFormulas", "transform/array.py",
         "a = mean - np.sqrt(5.0 / 3.0 * var) if a is None else float(a)",
         "a = mean - np.sqrt(3.0 / 5.0 * var) if a is None else float(a)", 0),
        ("S15 array_force_moments: `field - mean_in` -> `field + mean_in`", "TransformFormulas", "transform/array.py",
         "return rescale * (field - mean_in) + mean", "return rescale * (field + mean_in) + mean", 0),
        ("S16 Stable.calc_integral_scale: `1.0 + 1.0 / alpha` -> `1.0 + alpha`", "CorFormulas", "covmodel/models.py",
         "sps.gamma(1.0 + 1.0 / self.alpha)", "sps.gamma(1.0 + self.alpha)", 0),
    ]
    only = os.environ.get("SELFTEST_ONLY")
    if only:
        semantic = [x for x in semantic if x[0].split()[0] in only.split(",")]
    extra = os.environ.get("SELFTEST_EXTRA")
    if extra:
        semantic += eval(open(extra).read())
    for what, ns, rel, old, new, nth in semantic:
        fresh()
        edit(rel, old, new, nth=nth)
        d, broken = gen("mut")
        changed = open(f"{d}/{ns}.lean").read() != open(f"{base}/{ns}.lean").read()
        others = [n for n in TIES if n != ns and os.path.exists(f"{d}/{n}.lean")
                  and open(f"{d}/{n}.lean").read() != open(f"{base}/{n}.lean").read()]
        rc, f_ob, f_in, f_other = lean_check(d, ns)
        print(f"SEM   {what}\n      generated text changed: {changed} (other files changed: {others}); translator broken: "
              f"{[b['detail'][:90] for b in broken]}\n      tie files rc={rc}; failing obligations: {f_ob}; "
              f"failing informative: {f_in}; other: {f_other}")
        detected = bool(f_ob) or bool(broken)
        table.append((what.split()[0], what.split(" ", 1)[1][:70], "DETECTED" if detected else "MISSED",
                      f_ob + ["translator-broken"] * bool(broken), f_in))

    cosmetic = [
        ("K1 comments + blank lines inside BoxCox._normalize / Cubic.cor", [
            ("normalizer/methods.py", "        return (np.power(data, self.lmbda) - 1) / self.lmbda",
             "        # the classical Box-Cox transform\n\n        return (np.power(data, self.lmbda) - 1) / self.lmbda  # (x^l - 1)/l", 0),
            ("covmodel/models.py", "        h = np.minimum(np.abs(h, dtype=np.double), 1.0)\n        return 1.0 - 7",
             "        # clip\n        h = np.minimum(np.abs(h, dtype=np.double), 1.0)\n\n\n        return 1.0 - 7", 0)]),
        ("K2 docstrings of YeoJohnson._normalize and Gaussian.cor changed / added", [
            ("normalizer/methods.py", "    def _normalize(self, data):\n        data = np.asanyarray(data)",
             "    def _normalize(self, data):\n        \"\"\"Yeo-Johnson forward transform (new docstring).\"\"\"\n        data = np.asanyarray(data)", 0),
            ("covmodel/models.py", '"""Gaussian normalized correlation function.', '"""Gaussian normalized correlation function (edited).', 0)]),
        ("K3 expressions re-wrapped over several lines with redundant parentheses", [
            ("normalizer/methods.py", "        return (np.power(data, self.lmbda) - 1) / self.lmbda",
             "        return (\n            (np.power(data, (self.lmbda)) - 1)\n            / self.lmbda\n        )", 0),
            ("covmodel/models.py", "        return 1.0 - 1.5 * h + 0.5 * h**3", "        return (\n            (1.0 - (1.5 * h))\n            + 0.5 * h ** 3\n        )", 0)]),
        ("K4 local variables renamed / introduced (YeoJohnson._normalize res->out, pos->mask; temp in Manly._normalize)", [
            ("normalizer/methods.py",
             None, None, 0)]),
    ]
    for what, edits in cosmetic:
        if only and "COS" not in only.split(","):
            break
        fresh()
        for rel, old, new, nth in edits:
            if old is None:
                p = f"{SCR}/src/gstools/{rel}"
                s = open(p).read()
                i = s.index("class YeoJohnson")
                j = s.index("    def _normalize", i)
                k = s.index("    def _derivative", j)
                blk = s[j:k]
                blk2 = re.sub(r"\bres\b", "out", re.sub(r"\bpos\b", "mask", blk))
                assert blk2 != blk
                s = s[:j] + blk2 + s[k:]
                old2 = "        return np.expm1(np.multiply(data, self.lmbda)) / self.lmbda"
                assert old2 in s
                s = s.replace(old2, "        scaled = np.multiply(data, self.lmbda)\n        top = np.expm1(scaled)\n        return top / self.lmbda")
                open(p, "w").write(s)
            else:
                edit(rel, old, new, nth=nth)
        d, broken = gen("cos")
        ident = {n: open(f"{d}/{n}.lean").read() == open(f"{base}/{n}.lean").read()
                 for n in TIES if os.path.exists(f"{d}/{n}.lean")}
        print(f"COS   {what}\n      generated files byte-identical: {ident}; broken: {broken}")
        table.append((what.split()[0], what.split(" ", 1)[1][:70], "identical" if all(ident.values()) and not broken else "CHANGED", [], []))

    # real-equal rewrites of single formulas (regrouping, x**2 -> x*x, Horner form, hoisting, sqrt of a product, reciprocal):
    # the generated text changes, every obligation must keep checking (only informative theorems may fail)
    real_equal = [
        ("R1 Gaussian.cor: `h**2` -> `h * h`", "CorFormulas", "covmodel/models.py",
         "return np.exp(-(h**2))", "return np.exp(-(h * h))", 0),
        ("R2 Gaussian.calc_integral_scale: `len * sqrt(pi) / 2` -> `0.5 * sqrt(pi) * len`", "CorFormulas", "covmodel/models.py",
         "return self.len_rescaled * np.sqrt(np.pi) / 2.0", "return 0.5 * np.sqrt(np.pi) * self.len_rescaled", 0),
        ("R3 array_to_uniform: `sqrt(2 * var)` -> `sqrt(2) * sqrt(var)`", "TransformFormulas", "transform/array.py",
         "0.5 * (1 + erf((field - mean) / np.sqrt(2 * var))) * (high - low) + low",
         "low + (high - low) * (1 + erf((field - mean) / (np.sqrt(2) * np.sqrt(var)))) / 2", 0),
        ("R4 BoxCox._normalize: `(x**l - 1) / l` -> `x**l / l - 1 / l`", "NormFormulas", "normalizer/methods.py",
         "return (np.power(data, self.lmbda) - 1) / self.lmbda",
         "return np.power(data, self.lmbda) / self.lmbda - 1 / self.lmbda", 0),
        ("R5 Cubic.cor: polynomial in Horner form", "CorFormulas", "covmodel/models.py",
         "return 1.0 - 7 * h**2 + 8.75 * h**3 - 3.5 * h**5 + 0.75 * h**7",
         "return 1.0 + h**2 * (-7 + h * (8.75 + h**2 * (-3.5 + 0.75 * h**2)))", 0),
        ("R6 Gaussian.spectral_density: `(l / 2 / sqrt(pi))**d` -> `(l / (2 sqrt(pi)))**d`, `(k l / 2)**2` -> `(k l)**2 / 4`",
         "SpectralFormulas", "covmodel/models.py",
         "return (self.len_rescaled / 2.0 / np.sqrt(np.pi)) ** self.dim * np.exp(\n            -((k * self.len_rescaled / 2.0) ** 2)\n        )",
         "return np.exp(-((k * self.len_rescaled) ** 2) / 4.0) * (self.len_rescaled / (2.0 * np.sqrt(np.pi))) ** self.dim", 0),
        ("R7 Spherical.cor: `1 - 1.5 h + 0.5 h**3` -> `1 - h (1.5 - 0.5 h h)`", "CorFormulas", "covmodel/models.py",
         "return 1.0 - 1.5 * h + 0.5 * h**3", "return 1.0 - h * (1.5 - 0.5 * h * h)", 0),
        ("R8 array_force_moments: `rescale * (field - mean_in) + mean` -> `mean + field * rescale - mean_in * rescale`",
         "TransformFormulas", "transform/array.py",
         "return rescale * (field - mean_in) + mean", "return mean + field * rescale - mean_in * rescale", 0),
        ("R9 Exponential.spectral_rad_cdf dim 1: `arctan(r l) * 2 / pi` -> `2 / pi * arctan(l r)`", "SpectralFormulas",
         "covmodel/models.py", "return np.arctan(r * self.len_rescaled) * 2.0 / np.pi",
         "return 2.0 / np.pi * np.arctan(self.len_rescaled * r)", 0),
        ("R10 YeoJohnson._derivative: operands commuted", "NormFormulas", "normalizer/methods.py",
         "return (np.abs(data) + 1) ** (np.sign(data) * (self.lmbda - 1))",
         "return (1 + np.abs(data)) ** ((self.lmbda - 1) * np.sign(data))", 0),
        ("R11 Manly._normalize: `expm1(x l) / l` -> `(exp(l x) - 1) * (1 / l)`", "NormFormulas", "normalizer/methods.py",
         "return np.expm1(np.multiply(data, self.lmbda)) / self.lmbda",
         "return (np.exp(self.lmbda * data) - 1) * (1 / self.lmbda)", 0),
        ("R12 Matern.spectral_density nu>20: `sqrt(1 + x/nu)**(-d)` -> `1 / (1 + x/nu)**(d/2)`", "SpectralFormulas", "covmodel/models.py",
         "                * np.sqrt(1 + x / self.nu) ** (-self.dim)\n", "                / (1 + x / self.nu) ** (self.dim / 2.0)\n", 0),
    ]
    for what, ns, rel, old, new, nth in real_equal:
        if only and "REAL" not in only.split(",") and what.split()[0] not in only.split(","):
            continue
        fresh()
        edit(rel, old, new, nth=nth)
        d, broken = gen("real")
        changed = open(f"{d}/{ns}.lean").read() != open(f"{base}/{ns}.lean").read()
        rc, f_ob, f_in, f_other = lean_check(d, ns)
        print(f"REAL  {what}\n      generated text changed: {changed}; translator broken: {broken}; failing obligations: {f_ob}; "
              f"failing informative: {f_in}; other: {f_other}")
        table.append((what.split()[0], what.split(" ", 1)[1][:70],
                      "obligations hold" if changed and not f_ob and not broken else "OBLIGATION BROKEN" if changed else "TEXT UNCHANGED", f_ob, f_in))

    # behaviour-preserving algebraic rewrites made by independent agents (harmless/<id>/patch.diff)
    for hid, nss in HARMLESS:
        if only and "HARM" not in only.split(","):
            break
        fresh()
        r = subprocess.run(["patch", "-p1", "-s", "-d", SCR, "-i", f"/verif/harmless/{hid}/patch.diff"], capture_output=True, text=True)
        assert r.returncode == 0, r.stdout + r.stderr
        d, broken = gen("harm")
        for ns in nss:
            changed = open(f"{d}/{ns}.lean").read() != open(f"{base}/{ns}.lean").read()
            rc, f_ob, f_in, f_other = lean_check(d, ns)
            print(f"HARM  {hid} {ns}: generated text changed: {changed}; translator broken: {broken}; failing obligations: {f_ob}; "
                  f"failing informative: {f_in}; other: {f_other}")
            table.append((hid, f"harmless rewrite, {ns}", "obligations hold" if not f_ob and not broken else "OBLIGATION BROKEN", f_ob, f_in))

    print("\n%-6s %-72s %-18s %s" % ("id", "edit", "result", "failing obligations | failing informative"))
    for i, w, r, fo, fi in table:
        print("%-6s %-72s %-18s %s | %s" % (i, w, r, ",".join(map(str, fo)) or "-", ",".join(map(str, fi)) or "-"))


if __name__ == "__main__":
    main()
