"""Kernel-level correspondence: compiled .so  <->  generated Lean definitions run on Float (tie A)."""
import numpy as np
from proto import fbits, unbits, run_driver


def so_funcs():
    from gstools.field import summator as S
    from gstools.krige import krigesum as K
    from gstools.variogram import estimator as E
    return S, K, E


def lattice_pos(rng, dim, n, span=6):
    return rng.randint(0, span, size=(dim, n)).astype(float)


def dyadic(rng, shape, scale=8):
    return rng.randint(-4 * scale, 4 * scale + 1, size=shape) / float(scale)


def gen_case(rng, kind, big=False):
    """returns (op dict for the Lean driver, thunk computing the .so result, descriptor)"""
    S, K, E = so_funcs()
    hi = 40 if big else 24
    if kind in ("summate", "summate_fourier", "summate_incompr"):
        dim = int(rng.randint(1, 5)) if kind != "summate_incompr" else int(rng.randint(2, 4))
        N = int(rng.choice([0, 1, 2, 3, rng.randint(4, hi)]))
        X = int(rng.choice([0, 1, 2, rng.randint(3, hi)]))
        cov = rng.randn(dim, N) * rng.choice([0.1, 1.0, 10.0])
        z1, z2 = rng.randn(N), rng.randn(N)
        pos = rng.randn(dim, X) * rng.choice([0.5, 5.0, 500.0])
        op = dict(op=kind, dim=dim, N=N, X=X, cov=fbits(cov), z1=fbits(z1), z2=fbits(z2), pos=fbits(pos))
        if kind == "summate":
            return op, (lambda nt=None: S.summate(cov, z1, z2, pos, nt)), dict(dim=dim, N=N, X=X)
        if kind == "summate_incompr":
            return op, (lambda nt=None: S.summate_incompr(cov, z1, z2, pos, nt)), dict(dim=dim, N=N, X=X)
        sf = np.abs(rng.randn(N))
        op["sf"] = fbits(sf)
        return op, (lambda nt=None: S.summate_fourier(sf, cov, z1, z2, pos, nt)), dict(dim=dim, N=N, X=X)
    if kind in ("krige_fv", "krige_f"):
        M = int(rng.choice([0, 1, 2, rng.randint(3, hi)]))
        R = int(rng.choice([0, 1, 2, rng.randint(3, hi)]))
        mat, vecs, cond = rng.randn(M, M), rng.randn(M, R), rng.randn(M)
        op = dict(op=kind, M=M, R=R, mat=fbits(mat), vecs=fbits(vecs), cond=fbits(cond))
        if kind == "krige_fv":
            return op, (lambda nt=None: K.calc_field_krige_and_variance(mat, vecs, cond, nt)), dict(M=M, R=R)
        return op, (lambda nt=None: K.calc_field_krige(mat, vecs, cond, nt)), dict(M=M, R=R)
    if kind in ("unstructured", "directional"):
        dim = int(rng.randint(1, 4))
        P = int(rng.choice([1, 2, 3, rng.randint(4, 14 if big else 11)]))
        F = int(rng.randint(1, 4))
        B = int(rng.randint(2, 7))
        pos = lattice_pos(rng, dim, P) if rng.rand() < 0.7 else rng.randn(dim, P) * 3
        f = dyadic(rng, (F, P)) if rng.rand() < 0.7 else rng.randn(F, P)
        if rng.rand() < 0.5:
            f[rng.rand(F, P) < 0.15] = np.nan
        first = rng.choice([0.0, 0.5, 1.0])
        bins = first + np.concatenate([[0], np.cumsum(rng.choice([0.5, 1.0, 1.5, 2.0], size=B - 1))])
        est = str(rng.choice(["m", "c"]))
        if kind == "unstructured":
            dist = "e"
            if dim == 2 and rng.rand() < 0.3:
                dist = "h"
                pos = np.vstack([rng.uniform(-90, 90, P), rng.uniform(-180, 180, P)])
                bins = bins / 8.0
            op = dict(op=kind, dim=dim, P=P, F=F, B=B, f=fbits(f), bins=fbits(bins), pos=fbits(pos), est=est, dist=dist)
            return op, (lambda nt=None: E.unstructured(f, bins, pos, est, dist, nt)), dict(dim=dim, P=P, F=F, B=B, est=est, dist=dist, nan=bool(np.isnan(f).any()))
        D = int(rng.randint(1, 4))
        d = rng.randn(D, dim)
        if rng.rand() < 0.5:   # axis-aligned directions: exact angle boundaries are exercised
            d = np.eye(dim)[rng.randint(0, dim, size=D)]
        d = d / np.linalg.norm(d, axis=1)[:, None]
        tol = float(rng.choice([np.pi / 8, np.pi / 4, np.pi / 2, 0.1]))
        bw = float(rng.choice([-1.0, 0.5, 1.0, 2.5]))
        sep = bool(rng.rand() < 0.5)
        op = dict(op=kind, dim=dim, P=P, F=F, B=B, D=D, f=fbits(f), bins=fbits(bins), pos=fbits(pos), dir=fbits(d),
                  tol=fbits([tol])[0], bw=fbits([bw])[0], sep=sep, est=est)
        return op, (lambda nt=None: E.directional(f, bins, pos, d, tol, bw, sep, est, nt)), dict(dim=dim, P=P, F=F, B=B, D=D, est=est, sep=sep, bw=bw, nan=bool(np.isnan(f).any()))
    if kind in ("structured", "ma_structured"):
        n0 = int(rng.choice([1, 2, 3, rng.randint(4, 18 if big else 14)]))
        n1 = int(rng.choice([1, 2, rng.randint(3, 12)]))
        f = dyadic(rng, (n0, n1)) if rng.rand() < 0.6 else rng.randn(n0, n1)
        est = str(rng.choice(["m", "c"]))
        if kind == "structured":
            op = dict(op=kind, n0=n0, n1=n1, f=fbits(f), est=est)
            return op, (lambda nt=None: E.structured(f, est, nt)), dict(n0=n0, n1=n1, est=est)
        mask = (rng.rand(n0, n1) < 0.3)
        op = dict(op=kind, n0=n0, n1=n1, f=fbits(f), est=est, mask=[int(v) for v in mask.ravel()])
        return op, (lambda nt=None: E.ma_structured(f, mask, est, nt)), dict(n0=n0, n1=n1, est=est, masked=int(mask.sum()))
    raise ValueError(kind)


def decode(kind, r):
    """Lean driver result -> tuple of numpy arrays"""
    if isinstance(r, dict) and "error" in r:
        raise RuntimeError("driver: " + r["error"])
    if isinstance(r, str):
        return ("exc", r)
    if kind in ("summate", "summate_fourier", "krige_f", "structured", "ma_structured"):
        return (unbits(r),)
    if kind == "summate_incompr":
        return (np.array([unbits(x) for x in r]).reshape(len(r), -1),)
    if kind == "krige_fv":
        return (unbits(r[0]), unbits(r[1]))
    if kind == "unstructured":
        return (unbits(r[0]), np.array(r[1], dtype=np.int64))
    if kind == "directional":
        return (np.array([unbits(x) for x in r[0]]).reshape(len(r[0]), -1),
                np.array(r[1], dtype=np.int64).reshape(len(r[1]), -1))
    raise ValueError(kind)


def same(a, b, ulps=0):
    a, b = np.asarray(a), np.asarray(b)
    if a.shape != b.shape:
        if a.size == 0 and b.size == 0:
            return True
        return False
    if a.dtype.kind in "iu":
        return bool(np.array_equal(a, b))
    if ulps == 0:
        return bool(np.array_equal(a, b, equal_nan=True))
    na, nb = np.isnan(a), np.isnan(b)
    if not np.array_equal(na, nb):
        return False
    a, b = a[~na], b[~nb]
    return bool(np.all(np.abs(a - b) <= ulps * np.spacing(np.maximum(np.abs(a), np.abs(b)))))


KINDS = ["summate", "summate_fourier", "summate_incompr", "krige_fv", "krige_f",
         "unstructured", "directional", "structured", "ma_structured"]


def kernel_correspondence(ctx, kinds, n_per_kind, scheds=("seq", "rev", "mix"), ulps=0, big=False):
    """run cases through the .so and through the generated Lean; exact comparison (ulps=0)"""
    rng = np.random.RandomState(ctx.seed + 1234)
    ops, thunks, descs, knd = [], [], [], []
    for kind in kinds:
        for _ in range(n_per_kind):
            op, th, d = gen_case(rng, kind, big)
            for sc in scheds:
                o = dict(op)
                o["sched"] = sc
                ops.append(o)
                thunks.append(th)
                descs.append(dict(d, kind=kind, sched=sc))
                knd.append(kind)
    res = run_driver(ops)
    disagreements, distinct = [], set()
    dist = {}
    for o, th, d, kind, r in zip(ops, thunks, descs, knd, res):
        try:
            so = th()
            so = so if isinstance(so, tuple) else (so,)
            so_exc = None
        except ValueError as e:
            so, so_exc = None, "ValueError"
        lean = decode(kind, r)
        dist[kind] = dist.get(kind, 0) + 1
        nontrivial = any(np.asarray(x).size > 0 and np.any(np.nan_to_num(np.asarray(x, dtype=float)) != 0) for x in (so or ()))
        if nontrivial:
            distinct.add((kind, repr(sorted((k, v) for k, v in d.items() if k != "sched"))))
        if so_exc or lean[0] == "exc" if isinstance(lean[0], str) else False:
            ok = (so_exc == (lean[1] if isinstance(lean[0], str) and lean[0] == "exc" else None))
        else:
            ok = len(so) == len(lean) and all(same(a, b, ulps) for a, b in zip(so, lean))
        if not ok:
            disagreements.append({"what": f"kernel {kind}: compiled .so differs from the Lean translation of its source",
                                  "op": o, "so": [np.asarray(x).tolist() for x in (so or [so_exc])],
                                  "lean": [np.asarray(x).tolist() if not isinstance(x, str) else x for x in lean], "desc": d})
    return {"evaluations": len(ops), "distinct_nontrivial": len(distinct),
            "rule": "random kernel inputs (sizes 0/1/2/random, lattice+dyadic and gaussian values, NaNs) run through the compiled "
                    ".so and through the generated Lean definitions on Float under three schedules; bit-exact comparison; "
                    "distinct = distinct (kind, shape/options) with a non-zero output",
            "samples": descs[:3] + descs[-2:], "disagreements": disagreements[:10], "distribution": dist}


# ------------------------------------------------------------------ rebuilds of the generated C (thorough tier of C15)
CSRC = [("field/summator.c", "summator", "gcc"), ("krige/krigesum.c", "krigesum", "gcc"), ("variogram/estimator.cpp", "estimator", "g++")]


def rebuild_extensions(src_root, scratch, openmp):
    """compile the Cython-generated C/C++ of the tree into `scratch` (serial or -fopenmp) and import the results under private
    names; returns {name: module} or raises RuntimeError with the compiler output.  Cython itself is not available in the
    sandbox, so this is 'the compiled artefact the tree's own C gives', not a re-cythonization."""
    import importlib.util
    import os
    import subprocess
    import sysconfig
    inc = [sysconfig.get_paths()["include"], np.get_include()]
    ext = sysconfig.get_config_var("EXT_SUFFIX")
    mods = {}
    tag = "omp" if openmp else "ser"
    for rel, name, cc in CSRC:
        src = os.path.join(src_root, rel)
        if not os.path.exists(src):
            raise RuntimeError(f"generated source {rel} is not in the tree")
        d = os.path.join(scratch, tag)
        os.makedirs(d, exist_ok=True)
        out = os.path.join(d, name + ext)
        cmd = [cc, "-O2", "-shared", "-fPIC", "-w"] + (["-fopenmp"] if openmp else []) + ["-I" + i for i in inc] + [src, "-o", out, "-lm"]
        p = subprocess.run(cmd, capture_output=True, text=True, timeout=900)
        if p.returncode != 0:
            raise RuntimeError(f"{' '.join(cmd[:3])} ... failed: {p.stderr[-600:]}")
        spec = importlib.util.spec_from_file_location(name, out)
        mod = importlib.util.module_from_spec(spec)
        spec.loader.exec_module(mod)
        mods[name] = mod
    return mods


def thread_sweep(ctx, n_cases, threads=(None, 1, 2, 3, 4, 8, 16)):
    """three-way comparison on random inputs: the tree's .so  ==  serial rebuild of the tree's C  ==  OpenMP rebuild for every
    thread count, bit for bit (counts exactly)"""
    import shutil
    import tempfile
    import core
    S, K, E = so_funcs()
    scratch = tempfile.mkdtemp(prefix="gsv_c15_")
    viol, ev, info = [], 0, {}
    try:
        try:
            ser = rebuild_extensions(core.SRC, scratch, False)
            omp = rebuild_extensions(core.SRC, scratch, True)
        except RuntimeError as e:
            return 0, [{"key": "rebuild-failed", "what": str(e), "case": {}}], {"rebuild": "failed"}
        info["rebuild"] = "ok"
        rng = np.random.RandomState(ctx.seed + 1515)

        def cmp(label, tree_out, fn_ser, fn_omp, case):
            nonlocal ev
            tree_out = tree_out if isinstance(tree_out, tuple) else (tree_out,)
            o = fn_ser(None)
            o = o if isinstance(o, tuple) else (o,)
            ev += 1
            if not all(same(a, b) for a, b in zip(tree_out, o)):
                viol.append({"key": f"so-vs-own-c:{label}", "what": f"the tree's compiled {label} differs from a serial gcc build of the tree's generated C", "case": case})
            for nt in threads:
                p = fn_omp(nt)
                p = p if isinstance(p, tuple) else (p,)
                ev += 1
                if not all(same(a, b) for a, b in zip(tree_out, p)):
                    viol.append({"key": f"openmp-threads:{label}", "what": f"OpenMP build of {label} with num_threads={nt} is not bit-identical to the serial artefact",
                                 "case": dict(case, num_threads=nt)})
                    break

        for t in range(n_cases):
            dim, N, X = int(rng.randint(1, 4)), int(rng.randint(1, 200)), int(rng.choice([1, 2, 7, 64, 500, 3000]))
            cov, z1, z2, pos = rng.randn(dim, N), rng.randn(N), rng.randn(N), rng.randn(dim, X) * 5
            sf = np.abs(rng.randn(N))
            case = dict(dim=dim, N=N, X=X, seed=int(ctx.seed), case=t)
            cmp("summate", S.summate(cov, z1, z2, pos), lambda nt: ser["summator"].summate(cov, z1, z2, pos, nt),
                lambda nt: omp["summator"].summate(cov, z1, z2, pos, nt), case)
            cmp("summate_fourier", S.summate_fourier(sf, cov, z1, z2, pos), lambda nt: ser["summator"].summate_fourier(sf, cov, z1, z2, pos, nt),
                lambda nt: omp["summator"].summate_fourier(sf, cov, z1, z2, pos, nt), case)
            if dim > 1:
                cmp("summate_incompr", S.summate_incompr(cov, z1, z2, pos), lambda nt: ser["summator"].summate_incompr(cov, z1, z2, pos, nt),
                    lambda nt: omp["summator"].summate_incompr(cov, z1, z2, pos, nt), case)
            M, R = int(rng.randint(1, 60)), int(rng.choice([1, 3, 50, 1500]))
            mat, vecs, cond = rng.randn(M, M), rng.randn(M, R), rng.randn(M)
            cmp("krige_fv", K.calc_field_krige_and_variance(mat, vecs, cond), lambda nt: ser["krigesum"].calc_field_krige_and_variance(mat, vecs, cond, nt),
                lambda nt: omp["krigesum"].calc_field_krige_and_variance(mat, vecs, cond, nt), dict(M=M, R=R, case=t))
            cmp("krige_f", K.calc_field_krige(mat, vecs, cond), lambda nt: ser["krigesum"].calc_field_krige(mat, vecs, cond, nt),
                lambda nt: omp["krigesum"].calc_field_krige(mat, vecs, cond, nt), dict(M=M, R=R, case=t))
            P, F, B = int(rng.choice([2, 5, 40, 300])), int(rng.randint(1, 3)), int(rng.randint(2, 9))
            vpos = rng.randn(dim, P) * 3
            f = rng.randn(F, P)
            if rng.rand() < 0.5:
                f[rng.rand(F, P) < 0.1] = np.nan
            bins = np.concatenate([[0.0], np.cumsum(rng.uniform(0.3, 2.0, size=B - 1))])
            est = str(rng.choice(["m", "c"]))
            vcase = dict(dim=dim, P=P, F=F, B=B, est=est, case=t)
            cmp("unstructured", E.unstructured(f, bins, vpos, est, "e"), lambda nt: ser["estimator"].unstructured(f, bins, vpos, est, "e", nt),
                lambda nt: omp["estimator"].unstructured(f, bins, vpos, est, "e", nt), vcase)
            if dim > 1:
                D = int(rng.randint(1, 4))
                dr = rng.randn(D, dim)
                dr /= np.linalg.norm(dr, axis=1)[:, None]
                sep = bool(rng.rand() < 0.5)
                cmp("directional", E.directional(f, bins, vpos, dr, np.pi / 8, -1.0, sep, est),
                    lambda nt: ser["estimator"].directional(f, bins, vpos, dr, np.pi / 8, -1.0, sep, est, nt),
                    lambda nt: omp["estimator"].directional(f, bins, vpos, dr, np.pi / 8, -1.0, sep, est, nt), dict(vcase, D=D, sep=sep))
            g = rng.randn(int(rng.choice([2, 9, 60])), int(rng.choice([1, 4, 30])))
            cmp("structured", E.structured(g, est), lambda nt: ser["estimator"].structured(g, est, nt), lambda nt: omp["estimator"].structured(g, est, nt),
                dict(shape=list(g.shape), est=est, case=t))
            msk = rng.rand(*g.shape) < 0.2
            cmp("ma_structured", E.ma_structured(g, msk, est), lambda nt: ser["estimator"].ma_structured(g, msk, est, nt),
                lambda nt: omp["estimator"].ma_structured(g, msk, est, nt), dict(shape=list(g.shape), est=est, case=t))
    finally:
        shutil.rmtree(scratch, ignore_errors=True)
    return ev, viol, info
