#!/usr/bin/env python3
"""(re)write MANIFEST.json from vlib/manifest_src.json + the property list; validates it."""
import json, os, sys
V = os.path.dirname(os.path.dirname(os.path.abspath(__file__)))
src = json.load(open(os.path.join(V, "vlib", "manifest_src.json")))
props = [json.loads(l) for l in open(os.path.join(V, "properties.jsonl"))]
checks, na = [], []
for p in props:
    pid = p["id"]
    cp = os.path.join(V, "vlib", "manifest", pid + ".json")
    c = json.load(open(cp)) if os.path.exists(cp) else None
    if c and c.get("claimed", True):
        checks.append({
            "property_id": pid,
            "quick_cmd": f"./check {pid} --tier quick",
            "thorough_cmd": f"./check {pid} --tier thorough",
            "evidence_file": f"evidence/{pid}.json",
            "replay_cmd_template": f"./check {pid} --replay {{path}}",
            "engine": "lean4-proof+correspondence",
            "level_claimed": {"category": "proof", "text": c["text"], "design_ref": c.get("design_ref", f"DESIGN.md §4 {pid}")},
            "level_note": c["note"],
            "technique": c["technique"],
        })
    else:
        na.append({"property_id": pid, "reason": (c or {}).get("reason", "machinery for this property is not built yet (see DESIGN.md §8 order of construction); not claimed until its check exists")})
m = {
    "version": 1,
    "setup_cmd": src["setup_cmd"],
    "hooks": src["hooks"],
    "engines": src["engines"],
    "checks": checks,
    "notes": src["notes"],
    "not_applicable": na,
}
json.dump(m, open(os.path.join(V, "MANIFEST.json"), "w"), indent=1)
print(f"MANIFEST.json: {len(checks)} checks, {len(na)} not claimed")
