#!/usr/bin/env python3
"""pyx2lean — translate the Cython subset used by the GSTools kernels into Lean 4 definitions.

Tie A of DESIGN.md: the Lean model of the three kernels is *regenerated from the current source*
on every run.  The translation is shallow and state passing; nothing is recognised or tidied
(accumulators stay accumulators, loops stay loops).  Anything outside the subset raises
`Unsupported`, which the check driver treats as a broken tie.

usage: pyx2lean.py <in.pyx> <LeanNamespace> <out.lean>      (writes only when content changes)
"""
import ast
import re
import sys
import os


class Unsupported(Exception):
    pass


# ----------------------------------------------------------------------------- front end
SCALAR_T = {"double": "F", "int": "N", "bint": "B", "str": "S", "np.int64_t": "I",
            "uint8": "U", "Py_ssize_t": "N", "long": "I"}


def _split_top(s, sep=","):
    out, depth, cur = [], 0, ""
    for ch in s:
        if ch in "([{":
            depth += 1
        elif ch in ")]}":
            depth -= 1
        if ch == sep and depth == 0:
            out.append(cur)
            cur = ""
        else:
            cur += ch
    if cur.strip():
        out.append(cur)
    return [x.strip() for x in out]


def parse_type(t, fptypes):
    t = t.strip()
    t = re.sub(r"\bconst\b", "", t).strip()
    t = re.sub(r"\binline\b", "", t).strip()
    if t.startswith("(") and t.endswith(")"):
        t = t[1:-1].strip()
    m = re.match(r"^([\w\.]+)\s*\[(.*)\]$", t)
    if m:
        base = parse_type(m.group(1), fptypes)
        nd = len(_split_top(m.group(2)))
        return ("arr", nd, base)
    if t in SCALAR_T:
        return SCALAR_T[t]
    if t in fptypes:
        return ("fp", t)
    if t == "void":
        return "V"
    if t == "":
        return None
    raise Unsupported(f"type {t!r}")


def parse_arg(a, fptypes):
    """'const double[:, :] pos' / 'str e="m"' / 'num_threads=None' -> (name, type, has_default)"""
    parts = _split_top(a, "=")
    lhs = parts[0].strip()
    m = re.match(r"^(.*?)(\w+)$", lhs, re.S)
    name = m.group(2)
    ty = parse_type(m.group(1), fptypes) if m.group(1).strip() else None
    return name, ty, len(parts) > 1


def front_end(src):
    """Strip Cython-only syntax; return (python_source, info) where info has function signatures,
    local declarations and function-pointer typedefs."""
    lines = src.split("\n")
    # join physical lines into logical lines (parenthesis balance), keeping indentation of the first
    logical, buf, depth = [], [], 0
    in_doc = False
    for ln in lines:
        stripped = ln.strip()
        if not buf and (stripped.startswith('"""') or in_doc):
            # module / function docstrings: drop
            cnt = stripped.count('"""')
            if in_doc:
                if cnt % 2 == 1:
                    in_doc = False
            elif cnt == 1:
                in_doc = True
            continue
        code = re.sub(r"#.*$", "", ln) if "'" not in ln and '"' not in ln else ln
        if "#" in code and ("'" in code or '"' in code):
            # remove a trailing comment outside string literals
            out, q = "", None
            for ch in code:
                if q:
                    out += ch
                    if ch == q:
                        q = None
                elif ch in "'\"":
                    q = ch
                    out += ch
                elif ch == "#":
                    break
                else:
                    out += ch
            code = out
        if not code.strip() and not buf:
            continue
        buf.append(code.rstrip() if not buf else code.strip())
        depth += sum(code.count(c) for c in "([{") - sum(code.count(c) for c in ")]}")
        if depth <= 0:
            logical.append(" ".join(buf))
            buf, depth = [], 0
    info = {"funcs": {}, "fptypes": {}, "order": []}
    fptypes = info["fptypes"]
    # first pass: ctypedef function pointers
    for l in logical:
        m = re.match(r"^ctypedef\s+(.+?)\s*\(\*(\w+)\)\s*\((.*)\)\s*(nogil)?\s*$", l.strip())
        if m:
            fptypes[m.group(2)] = None
    for l in logical:
        m = re.match(r"^ctypedef\s+(.+?)\s*\(\*(\w+)\)\s*\((.*)\)\s*(nogil)?\s*$", l.strip())
        if m:
            ret = parse_type(m.group(1), fptypes)
            args = [parse_type(a, fptypes) for a in _split_top(m.group(3))]
            fptypes[m.group(2)] = (ret, args)
    out = []
    cur = None
    skip_block_indent = None
    for l in logical:
        ind = len(l) - len(l.lstrip())
        s = l.strip()
        if skip_block_indent is not None:
            if ind > skip_block_indent:
                continue
            skip_block_indent = None
        if s.startswith("cimport ") or re.match(r"^from\s+\S+\s+cimport\b", s) or s.startswith("ctypedef "):
            continue
        if re.match(r"^(import |from \S+ import )", s):
            continue
        if ind == 0 and s.startswith("if OPENMP"):
            skip_block_indent = 0
            continue
        m = re.match(r"^cdef\s+(.*?)\s*(\w+)\s*\((.*)\)\s*(nogil)?\s*:\s*$", s)
        if m and ind == 0:
            name = m.group(2)
            ret = parse_type(m.group(1), fptypes)
            args = [parse_arg(a, fptypes) for a in _split_top(m.group(3))]
            info["funcs"][name] = {"ret": ret, "args": args, "locals": {}, "kind": "cdef"}
            info["order"].append(name)
            cur = name
            out.append(" " * ind + f"def {name}({', '.join(a[0] for a in args)}):")
            continue
        m = re.match(r"^def\s+(\w+)\s*\((.*)\)\s*:\s*$", s)
        if m and ind == 0:
            name = m.group(1)
            args = [parse_arg(a, fptypes) for a in _split_top(m.group(2))]
            info["funcs"][name] = {"ret": None, "args": args, "locals": {}, "kind": "def"}
            info["order"].append(name)
            cur = name
            out.append(f"def {name}({', '.join(a[0] for a in args)}):")
            continue
        m = re.match(r"^cdef\s+(.*)$", s)
        if m:
            decl = m.group(1)
            if "=" in _split_top(decl, "=")[0] or len(_split_top(decl, "=")) > 1:
                lhs, rhs = decl.split("=", 1)
                mm = re.match(r"^(.*?)(\w+)\s*$", lhs.strip(), re.S)
                info["funcs"][cur]["locals"][mm.group(2)] = parse_type(mm.group(1), fptypes)
                out.append(" " * ind + f"{mm.group(2)} = {rhs.strip()}")
            else:
                names = _split_top(decl)
                mm = re.match(r"^(.*?)(\w+)\s*$", names[0], re.S)
                ty = parse_type(mm.group(1), fptypes)
                info["funcs"][cur]["locals"][mm.group(2)] = ty
                for n in names[1:]:
                    info["funcs"][cur]["locals"][n.strip()] = ty
                out.append(" " * ind + "pass")
            continue
        if s.startswith("raise "):
            exc = re.match(r"^raise\s+(\w+)", s).group(1)
            out.append(" " * ind + f"raise {exc}()")
            continue
        out.append(l)
    return "\n".join(out) + "\n", info


# ----------------------------------------------------------------------------- back end
LIBM1 = {"cos": "cos", "sin": "sin", "sqrt": "sqrt", "fabs": "fabs", "acos": "acos",
         "exp": "exp", "log": "log"}
IGNORED_FUNCS = {"set_num_threads"}
IGNORED_VARS = {"num_threads", "num_threads_c"}
LEAN_KEYWORDS = {"end", "from", "at", "in", "do", "fun", "let", "have", "show", "then", "else",
                 "if", "match", "with", "open", "variable", "def", "theorem", "where", "by"}


def lname(n):
    return n + "_" if n in LEAN_KEYWORDS else n


def lean_type(t, fpt=None):
    if t == "F":
        return "α"
    if t in ("N", "U"):
        return "Nat"
    if t == "I":
        return "Int"
    if t == "B":
        return "Bool"
    if t == "S":
        return "String"
    if isinstance(t, tuple) and t[0] == "arr":
        return " → ".join(["Nat"] * t[1] + [lean_type(t[2])])
    if isinstance(t, tuple) and t[0] == "fp":
        ret, args = fpt[t[1]]
        parts = []
        for a in args:
            parts.append("(" + lean_type(a) + ")")
            if isinstance(a, tuple) and a[0] == "arr":
                parts += ["Nat"] * a[1]
        return " → ".join(parts + ["(" + lean_type(ret if ret != "V" else args[0]) + ")"])
    raise Unsupported(f"lean_type {t}")


def zero_of(t):
    if t == "F":
        return "((0:Nat):α)"
    if t in ("N", "U"):
        return "(0:Nat)"
    if t == "I":
        return "(0:Int)"
    if t == "B":
        return "false"
    if isinstance(t, tuple) and t[0] == "arr":
        return "(fun " + " ".join(["_"] * t[1]) + " => " + zero_of(t[2]) + ")"
    raise Unsupported(f"zero_of {t}")


def is_arr(t):
    return isinstance(t, tuple) and t[0] == "arr"


class Fn:
    """translation of one function"""

    def __init__(self, tr, name, node):
        self.tr, self.name, self.node = tr, name, node
        self.sig = tr.info["funcs"][name]
        self.types = {}
        for (n, t, _d) in self.sig["args"]:
            if n in IGNORED_VARS:
                continue
            self.types[n] = t
        self.types.update(self.sig["locals"])
        self.params = [(n, t) for (n, t, _d) in self.sig["args"] if n not in IGNORED_VARS]
        self.loopvars = set()
        self.state = []      # ordered list of state variable names
        self.lets = set()
        self.shapes = {}     # local array name -> list of lean shape exprs (names)
        self.fpvars = {}     # function-pointer variable -> chooser function name
        self.guards = []     # list of (lean condition, exception name)
        self.analyse()

    # ---- analysis
    def analyse(self):
        assigns = {}   # name -> list of (depth_kind)
        written_params = set()

        def visit(stmts, nest):
            for s in stmts:
                if isinstance(s, ast.Assign):
                    if len(s.targets) != 1:
                        raise Unsupported("multi-target assign")
                    t = s.targets[0]
                    if isinstance(t, ast.Name):
                        assigns.setdefault(t.id, []).append(nest)
                    elif isinstance(t, ast.Subscript):
                        nm = self.sub_base(t)
                        assigns.setdefault(nm, []).append("sub")
                    else:
                        raise Unsupported("assign target")
                elif isinstance(s, ast.AugAssign):
                    t = s.target
                    if isinstance(t, ast.Name):
                        assigns.setdefault(t.id, []).append("aug")
                    else:
                        assigns.setdefault(self.sub_base(t), []).append("sub")
                elif isinstance(s, ast.For):
                    if not isinstance(s.target, ast.Name):
                        raise Unsupported("for target")
                    self.loopvars.add(s.target.id)
                    visit(s.body, "loop")
                    if s.orelse:
                        raise Unsupported("for-else")
                elif isinstance(s, ast.If):
                    visit(s.body, "if" if nest == "top" else nest)
                    visit(s.orelse, "if" if nest == "top" else nest)
                elif isinstance(s, ast.With):
                    visit(s.body, nest)
                elif isinstance(s, ast.Expr):
                    # call statement: a void cdef function writing through its arguments
                    if isinstance(s.value, ast.Call):
                        for nm in self.call_written_args(s.value):
                            assigns.setdefault(nm, []).append("sub")
                    elif isinstance(s.value, ast.Constant):
                        pass
                    else:
                        raise Unsupported("expression statement")
                elif isinstance(s, (ast.Return, ast.Pass, ast.Continue, ast.Break, ast.Raise)):
                    pass
                else:
                    raise Unsupported(f"statement {type(s).__name__}")

        visit(self.node.body, "top")
        self.ifelse_lets = set()
        # if/else single-assignment pattern at top level -> let
        for s in self.node.body:
            v = self.ifelse_pattern(s)
            if v:
                self.ifelse_lets.add(v)
        pnames = {n for n, _ in self.params}
        for nm, kinds in assigns.items():
            if nm in IGNORED_VARS:
                continue
            if nm in self.loopvars:
                raise Unsupported(f"loop variable {nm} assigned")
            if nm in pnames:
                if any(k != "sub" for k in kinds):
                    raise Unsupported(f"parameter {nm} re-bound")
                written_params.add(nm)
                self.state.append(nm)
                continue
            if kinds == ["top"]:
                self.lets.add(nm)
            elif nm in self.ifelse_lets and all(k == "if" for k in kinds):
                self.lets.add(nm)
            else:
                self.state.append(nm)
        self.written_params = [n for n, _ in self.params if n in written_params]
        for nm in list(self.lets) + self.state:
            if nm not in self.types:
                raise Unsupported(f"{self.name}: variable {nm} has no declared type")

    def ifelse_pattern(self, s):
        """if c: v = a  else: v = b [; if c2: raise]   -> returns v"""
        if not isinstance(s, ast.If) or not s.orelse:
            return None

        def single(b):
            asg = [x for x in b if isinstance(x, ast.Assign)]
            rest = [x for x in b if not isinstance(x, ast.Assign)]
            if len(asg) != 1 or not isinstance(asg[0].targets[0], ast.Name):
                return None
            for r in rest:
                if not (isinstance(r, ast.If) and len(r.body) == 1 and isinstance(r.body[0], ast.Raise)
                        and not r.orelse):
                    return None
            return asg[0].targets[0].id

        a, b = single(s.body), single(s.orelse)
        return a if a and a == b else None

    def sub_base(self, t):
        v = t.value
        if not isinstance(v, ast.Name):
            raise Unsupported("subscript base")
        return v.id

    def call_written_args(self, call):
        """names of local arrays that the callee writes through (by position)"""
        if not isinstance(call.func, ast.Name):
            raise Unsupported("call target")
        f = call.func.id
        wpos = self.tr.written_positions(self, f)
        out = []
        for i in wpos:
            a = call.args[i]
            if isinstance(a, ast.Name):
                out.append(a.id)
            elif isinstance(a, ast.Subscript):
                out.append(self.sub_base(a))
            else:
                raise Unsupported("written argument form")
        return out

    # ---- expressions
    def ref(self, nm):
        if nm in self.state:
            return f"st.{lname(nm)}"
        return lname(nm)

    def cast(self, code, frm, to):
        if frm == to or to is None:
            return code
        if frm == "U":
            frm = "N"
        if to == "U":
            to = "N"
        if frm == to:
            return code
        if frm == "N" and to == "I":
            return f"(({code} : Nat) : Int)"
        if frm == "N" and to == "F":
            return f"(({code} : Nat) : α)"
        if frm == "I" and to == "F":
            return f"(({code} : Int) : α)"
        raise Unsupported(f"cast {frm}->{to} of {code}")

    @staticmethod
    def join_ty(a, b):
        order = {"N": 0, "U": 0, "I": 1, "F": 2}
        if a not in order or b not in order:
            raise Unsupported(f"arithmetic on {a},{b}")
        return a if order[a] >= order[b] else b

    def shape_of(self, nm, k):
        return f"{lname(nm)}_s{k}"

    def expr(self, e, want=None):
        """-> (lean code, type).  type in F N I U B(Bool) P(Prop) S or arr/fp tuples"""
        code, ty = self._expr(e, want)
        if want in ("F", "I", "N") and ty in ("F", "I", "N", "U") and ty != want:
            code, ty = self.cast(code, ty, want), want
        return code, ty

    def _expr(self, e, want):
        if isinstance(e, ast.Constant):
            v = e.value
            if isinstance(v, bool):
                return ("true" if v else "false"), "B"
            if isinstance(v, float):
                if v == int(v) and abs(v) < 2**53:
                    return f"(({int(v)}:Nat):α)", "F"
                txt = ast.get_source_segment(self.tr.pysrc, e) or repr(v)
                return f"({txt}:α)", "F"
            if isinstance(v, int):
                if want == "F":
                    return f"(({v}:Nat):α)", "F"
                if want == "I":
                    return f"({v}:Int)", "I"
                return f"({v}:Nat)", "N"
            if isinstance(v, str):
                return '"' + v + '"', "S"
            raise Unsupported(f"constant {v!r}")
        if isinstance(e, ast.Name):
            nm = e.id
            if nm == "M_PI":
                return "(Transc.pi : α)", "F"
            if nm in self.loopvars:
                return lname(nm), "N"
            if nm in self.types:
                return self.ref(nm), self.types[nm]
            if nm in self.tr.info["funcs"]:
                return f"{self.tr.ns}.{nm}", ("fn", nm)
            raise Unsupported(f"{self.name}: unknown name {nm}")
        if isinstance(e, ast.Attribute):
            raise Unsupported("attribute expression")
        if isinstance(e, ast.Subscript):
            # x.shape[k]
            if isinstance(e.value, ast.Attribute) and e.value.attr == "shape":
                nm = e.value.value.id
                return self.shape_of(nm, e.slice.value), "N"
            nm = self.sub_base(e)
            t = self.types[nm]
            if not is_arr(t):
                raise Unsupported("subscript of non-array")
            idx = e.slice.elts if isinstance(e.slice, ast.Tuple) else [e.slice]
            if len(idx) != t[1]:
                raise Unsupported("partial index")
            if any(isinstance(i, ast.Slice) for i in idx):
                # row / column slice
                if t[1] != 2:
                    raise Unsupported("slice of 1-D")
                if isinstance(idx[1], ast.Slice) and not isinstance(idx[0], ast.Slice):
                    i0, _ = self.expr(idx[0], "N")
                    return f"({self.ref(nm)} {i0})", ("arr", 1, t[2], [self.shape_of(nm, 1)])
                if isinstance(idx[0], ast.Slice) and not isinstance(idx[1], ast.Slice):
                    i1, _ = self.expr(idx[1], "N")
                    return (f"(fun i_ => {self.ref(nm)} i_ {i1})",
                            ("arr", 1, t[2], [self.shape_of(nm, 0)]))
                raise Unsupported("full slice")
            parts = [self.expr(i, "N")[0] for i in idx]
            return f"{self.ref(nm)} " + " ".join(f"({p})" if " " in p else p for p in parts), t[2]
        if isinstance(e, ast.BinOp):
            if isinstance(e.op, ast.Pow):
                b, bt = self.expr(e.left)
                if not (isinstance(e.right, ast.Constant) and isinstance(e.right.value, int)):
                    raise Unsupported("non-literal exponent")
                n = e.right.value
                if bt == "F":
                    return f"npow ({b}) {n}", "F"
                return f"({b}) ^ {n}", bt
            lw = rw = None
            l, lt = self.expr(e.left)
            r, rt = self.expr(e.right)
            ty = self.join_ty(lt, rt)
            if want == "F":
                ty = "F"
            # re-translate literals with the joined type so that 1 becomes ((1:Nat):α) etc.
            l, lt = self.expr(e.left, ty)
            r, rt = self.expr(e.right, ty)
            op = {ast.Add: "+", ast.Sub: "-", ast.Mult: "*", ast.Div: "/"}.get(type(e.op))
            if op is None:
                raise Unsupported(f"operator {type(e.op).__name__}")
            if op == "/" and ty != "F":
                raise Unsupported("integer division")
            return f"({l} {op} {r})", ty
        if isinstance(e, ast.UnaryOp):
            if isinstance(e.op, ast.Not):
                c = self.prop(e.operand)
                return f"(¬ {c})", "P"
            if isinstance(e.op, ast.USub):
                c, t = self.expr(e.operand, want)
                return f"(-{c})", t
            raise Unsupported("unary op")
        if isinstance(e, ast.BoolOp):
            op = " ∧ " if isinstance(e.op, ast.And) else " ∨ "
            return "(" + op.join(self.prop(v) for v in e.values) + ")", "P"
        if isinstance(e, ast.Compare):
            if len(e.ops) != 1:
                # a op1 b op2 c  ==  (a op1 b) and (b op2 c); the operands of the kernels are side-effect free
                parts, left = [], e.left
                for op_, right in zip(e.ops, e.comparators):
                    parts.append(ast.Compare(left=left, ops=[op_], comparators=[right]))
                    left = right
                return self.expr(ast.BoolOp(op=ast.And(), values=parts), want)
            l, lt = self.expr(e.left)
            r, rt = self.expr(e.comparators[0])
            if lt == "S" or rt == "S":
                if not isinstance(e.ops[0], ast.Eq):
                    raise Unsupported("string comparison")
                return f"({l} == {r})", "B"
            ty = self.join_ty(lt, rt)
            l, _ = self.expr(e.left, ty)
            r, _ = self.expr(e.comparators[0], ty)
            op = {ast.Lt: "<", ast.LtE: "≤", ast.Gt: ">", ast.GtE: "≥", ast.Eq: "=", ast.NotEq: "≠"}[type(e.ops[0])]
            if ty == "F" and op in ("=", "≠"):
                raise Unsupported("floating equality")
            return f"({l} {op} {r})", "P"
        if isinstance(e, ast.Call):
            return self.call(e, want)
        if isinstance(e, ast.Tuple):
            raise Unsupported("tuple expression")
        raise Unsupported(f"expression {type(e).__name__}")

    def prop(self, e):
        c, t = self.expr(e)
        if t == "P":
            return c
        if t == "B":
            return f"({c} = true)"
        raise Unsupported(f"condition of type {t}")

    def boolean(self, e):
        c, t = self.expr(e)
        if t == "B":
            return c
        if t == "P":
            return f"(decide {c})"
        raise Unsupported(f"boolean of type {t}")

    def arg_for(self, a, pt):
        """translate an actual argument for a formal of type pt (arrays get their shapes appended)"""
        if is_arr(pt):
            if isinstance(a, ast.Name):
                nm = a.id
                return " ".join([self.ref(nm)] + [self.shape_of(nm, k) for k in range(pt[1])])
            c, t = self.expr(a)
            if not is_arr(t):
                raise Unsupported("array argument")
            return " ".join([c] + t[3])
        if pt == "B":
            return self.boolean(a)
        if isinstance(pt, tuple) and pt[0] == "fp":
            c, _ = self.expr(a)
            return c
        c, _ = self.expr(a, pt if pt in ("F", "I", "N") else None)
        return c if re.match(r"^[\w\.]+$", c) or c.startswith("(") else f"({c})"

    def call(self, e, want):
        if not isinstance(e.func, ast.Name):
            raise Unsupported("call of non-name")
        f = e.func.id
        if e.keywords:
            raise Unsupported("keyword arguments")
        if f in LIBM1:
            a, _ = self.expr(e.args[0], "F")
            return f"{LIBM1[f]} {self.paren(a)}", "F"
        if f == "isnan":
            a, _ = self.expr(e.args[0], "F")
            return f"isnan {self.paren(a)}", "B"
        if f == "atan2":
            a, _ = self.expr(e.args[0], "F")
            b, _ = self.expr(e.args[1], "F")
            return f"atan2 {self.paren(a)} {self.paren(b)}", "F"
        if f == "pow":
            a, _ = self.expr(e.args[0], "F")
            b, _ = self.expr(e.args[1], "F")
            return f"rpow {self.paren(a)} {self.paren(b)}", "F"
        if f == "max":
            a, at = self.expr(e.args[0])
            b, bt = self.expr(e.args[1])
            ty = self.join_ty(at, bt)
            a, _ = self.expr(e.args[0], ty)
            b, _ = self.expr(e.args[1], ty)
            return f"max {self.paren(a)} {self.paren(b)}", ty
        if f == "len":
            return self.shape_of(e.args[0].id, 0), "N"
        if f in self.tr.info["funcs"] and f not in IGNORED_FUNCS:
            sig = self.tr.info["funcs"][f]
            formals = [(n, t) for (n, t, _d) in sig["args"] if n not in IGNORED_VARS]
            if len(e.args) != len(formals):
                raise Unsupported(f"call {f}: positional arity")
            args = [self.arg_for(a, pt) for a, (_n, pt) in zip(e.args, formals)]
            return f"({self.tr.ns}.{f} " + " ".join(args) + ")", self.tr.ret_type(f)
        if f in self.types and isinstance(self.types[f], tuple) and self.types[f][0] == "fp":
            ret, ptys = self.tr.info["fptypes"][self.types[f][1]]
            args = [self.arg_for(a, pt) for a, pt in zip(e.args, ptys)]
            rt = ret if ret != "V" else ptys[0]
            return f"({self.ref(f)} " + " ".join(args) + ")", rt
        raise Unsupported(f"call of {f}")

    @staticmethod
    def paren(c):
        if re.match(r"^[\w\.]+$", c) or (c.startswith("(") and c.endswith(")")):
            return c
        return f"({c})"

    # ---- statements
    def with_update(self, nm, val):
        return f"{{ st with {lname(nm)} := {val} }}"

    def np_alloc(self, call, nm):
        """np.zeros(n) / np.zeros((a, b)) / np.empty(n): returns the shape expressions"""
        a = call.args[0]
        dims = a.elts if isinstance(a, ast.Tuple) else [a]
        return [self.expr(d, "N")[0] for d in dims]

    def is_np(self, e, names):
        return (isinstance(e, ast.Call) and isinstance(e.func, ast.Attribute)
                and isinstance(e.func.value, ast.Name) and e.func.value.id == "np"
                and e.func.attr in names)

    def assign_value(self, nm, value, out, ind):
        """emit lets for shapes when allocating; return lean value code"""
        t = self.types[nm]
        if self.is_np(value, ("zeros", "empty")):
            shp = self.np_alloc(value, nm)
            if not is_arr(t) or len(shp) != t[1]:
                raise Unsupported("allocation shape")
            for k, sx in enumerate(shp):
                out.append(f"{ind}let {self.shape_of(nm, k)} : Nat := {sx}")
            return zero_of(t)
        if t == "B":
            return self.boolean(value)
        if isinstance(t, tuple) and t[0] == "fp":
            c, vt = self.expr(value)
            return c
        c, vt = self.expr(value, t if t in ("F", "I", "N") else None)
        return c

    def block(self, stmts, ind, tail):
        """emit a Lean expression (list of lines) evaluating to tail(st) after running stmts on `st`"""
        out = []
        i = 0
        while i < len(stmts):
            s = stmts[i]
            rest = stmts[i + 1:]
            if isinstance(s, ast.Pass) or (isinstance(s, ast.Expr) and isinstance(s.value, ast.Constant)):
                i += 1
                continue
            if isinstance(s, ast.Raise):
                raise Unsupported("raise outside a top-level guard")
            if isinstance(s, ast.Return):
                if rest:
                    raise Unsupported("code after return")
                out.append(f"{ind}{self.ret(s)}")
                return out
            if isinstance(s, ast.Assign):
                t = s.targets[0]
                if isinstance(t, ast.Name):
                    nm = t.id
                    if nm in IGNORED_VARS:
                        i += 1
                        continue
                    val = self.assign_value(nm, s.value, out, ind)
                    if nm in self.lets:
                        out.append(f"{ind}let {lname(nm)} : {lean_type(self.types[nm], self.tr.info['fptypes'])} := {val}")
                    else:
                        out.append(f"{ind}let st : {self.name}.St α := {self.with_update(nm, val)}")
                else:
                    out.append(f"{ind}let st : {self.name}.St α := {self.store(t, s.value, None)}")
                i += 1
                continue
            if isinstance(s, ast.AugAssign):
                out.append(f"{ind}let st : {self.name}.St α := {self.store(s.target, s.value, s.op)}")
                i += 1
                continue
            if isinstance(s, ast.Expr) and isinstance(s.value, ast.Call):
                out.append(f"{ind}let st : {self.name}.St α := {self.call_stmt(s.value)}")
                i += 1
                continue
            if isinstance(s, ast.With):
                # `with nogil, parallel(...)`: a plain block
                out += self.block_inline(s.body, ind)
                i += 1
                continue
            if isinstance(s, ast.For):
                out.append(f"{ind}let st : {self.name}.St α :=")
                out += self.loop(s, ind + "  ")
                i += 1
                continue
            if isinstance(s, ast.If):
                v = self.ifelse_pattern(s)
                if v and v in self.lets:
                    a = [x for x in s.body if isinstance(x, ast.Assign)][0]
                    b = [x for x in s.orelse if isinstance(x, ast.Assign)][0]
                    c = self.prop(s.test)
                    av = self.assign_value(v, a.value, out, ind)
                    bv = self.assign_value(v, b.value, out, ind)
                    out.append(f"{ind}let {lname(v)} : {lean_type(self.types[v], self.tr.info['fptypes'])} := if {c} then {av} else {bv}")
                    i += 1
                    continue
                if len(s.body) == 1 and isinstance(s.body[0], ast.Raise) and not s.orelse:
                    i += 1   # guard, handled separately
                    continue
                if len(s.body) == 1 and isinstance(s.body[0], ast.Continue) and not s.orelse:
                    c = self.prop(s.test)
                    out.append(f"{ind}if {c} then {tail('st')} else")
                    out += self.block(rest, ind + "  ", tail)
                    return out
                if len(s.body) == 1 and isinstance(s.body[0], ast.Break) and not s.orelse:
                    if rest:
                        raise Unsupported("break not at the end of a loop body")
                    if tail("st") == "st":
                        raise Unsupported("break outside loop")
                    out.append(f"{ind}(st, {self.boolean(s.test)})")
                    return out
                c = self.prop(s.test)
                out.append(f"{ind}let st : {self.name}.St α :=")
                out.append(f"{ind}  if {c} then")
                out += self.block(s.body, ind + "    ", lambda x: x)
                out.append(f"{ind}  else")
                if s.orelse:
                    out += self.block(s.orelse, ind + "    ", lambda x: x)
                else:
                    out.append(f"{ind}    st")
                i += 1
                continue
            raise Unsupported(f"statement {type(s).__name__}")
        out.append(f"{ind}{tail('st')}")
        return out

    def block_inline(self, stmts, ind):
        """statements of a `with` block, spliced into the enclosing let-chain (no tail)"""
        lines = self.block(stmts, ind, lambda x: "__SPLICE__")
        if not lines or lines[-1].strip() != "__SPLICE__":
            raise Unsupported("with-block ending")
        return lines[:-1]

    def has_break(self, body):
        for s in body:
            if isinstance(s, ast.If) and len(s.body) == 1 and isinstance(s.body[0], ast.Break):
                return True
        return False

    def loop(self, s, ind):
        it = s.iter
        if not (isinstance(it, ast.Call) and isinstance(it.func, ast.Name) and it.func.id in ("range", "prange")):
            raise Unsupported("loop iterator")
        par = it.func.id == "prange"
        args = it.args
        if len(args) == 1:
            lo, hi = "0", self.expr(args[0], "N")[0]
        elif len(args) == 2:
            lo, hi = self.expr(args[0], "N")[0], self.expr(args[1], "N")[0]
        else:
            raise Unsupported("range with step")
        for kw in it.keywords:
            if kw.arg not in ("nogil", "num_threads", "schedule"):
                raise Unsupported(f"prange keyword {kw.arg}")
        v = lname(s.target.id)
        brk = self.has_break(s.body)
        if brk and par:
            raise Unsupported("break in prange")
        if brk:
            head = f"{ind}forRangeBrk {self.paren(lo)} {self.paren(hi)} st fun {v} (st : {self.name}.St α) =>"
            body = self.block(s.body, ind + "  ", lambda x: f"({x}, false)")
        elif par:
            head = f"{ind}parRange sched {self.paren(lo)} {self.paren(hi)} st fun {v} (st : {self.name}.St α) =>"
            body = self.block(s.body, ind + "  ", lambda x: x)
        else:
            head = f"{ind}forRange {self.paren(lo)} {self.paren(hi)} st fun {v} (st : {self.name}.St α) =>"
            body = self.block(s.body, ind + "  ", lambda x: x)
        return [head] + body

    def store(self, target, value, op):
        nm = self.sub_base(target)
        t = self.types[nm]
        idx = target.slice.elts if isinstance(target.slice, ast.Tuple) else [target.slice]
        if len(idx) != t[1] or any(isinstance(i, ast.Slice) for i in idx):
            raise Unsupported("store index form")
        ix = [self.paren(self.expr(i, "N")[0]) for i in idx]
        et = t[2]
        if isinstance(target, ast.Name):
            raise Unsupported("store")
        v, vt = self.expr(value, et if et in ("F", "I", "N") else None)
        cur = f"{self.ref(nm)} " + " ".join(ix)
        if op is not None:
            o = {ast.Add: "+", ast.Sub: "-", ast.Mult: "*", ast.Div: "/"}.get(type(op))
            if o is None:
                raise Unsupported("augmented operator")
            if o == "/" and et != "F":
                raise Unsupported("integer division")
            v = f"({cur} {o} {v})"
        u = "upd" if t[1] == 1 else "upd2"
        return self.with_update(nm, f"{u} {self.ref(nm)} {' '.join(ix)} {self.paren(v)}")

    def store_scalar_aug(self, s):
        raise Unsupported("unused")

    def call_stmt(self, call):
        """void function writing through array arguments: write the result(s) back"""
        f = call.func.id
        wpos = self.tr.written_positions(self, f)
        if len(wpos) != 1:
            raise Unsupported("call statement must write exactly one array")
        c, _ = self.call(call, None)
        a = call.args[wpos[0]]
        if isinstance(a, ast.Name):
            return self.with_update(a.id, c)
        if isinstance(a, ast.Subscript):
            nm = self.sub_base(a)
            idx = a.slice.elts
            if isinstance(idx[1], ast.Slice) and not isinstance(idx[0], ast.Slice):
                i0 = self.paren(self.expr(idx[0], "N")[0])
                return self.with_update(nm, f"setRow {self.ref(nm)} {i0} {c}")
        raise Unsupported("written argument form")

    def ret(self, s):
        v = s.value
        def one(x):
            if self.is_np(x, ("asarray",)):
                x = x.args[0]
            if isinstance(x, ast.Name) and x.id in self.types and is_arr(self.types[x.id]):
                return self.ref(x.id), self.types[x.id]
            c, t = self.expr(x)
            if t == "P":
                c, t = f"(decide {c})", "B"
            return c, t
        if isinstance(v, ast.Tuple):
            parts = [one(x) for x in v.elts]
            self.ret_ty = ("tuple", [t for _, t in parts])
            return "(" + ", ".join(c for c, _ in parts) + ")"
        c, t = one(v)
        self.ret_ty = t
        return c

    # ---- whole function
    def aug_scalar(self):
        pass

    def emit(self):
        fpt = self.tr.info["fptypes"]
        ns = self.tr.ns
        name = self.name
        lines = []
        # state structure
        if self.state:
            lines.append(f"structure {name}.St (α : Type) where")
            for nm in self.state:
                lines.append(f"  {lname(nm)} : {lean_type(self.types[nm], fpt)}")
            lines.append("")
        # parameters
        ps = []
        uses_sched = self.uses_sched()
        if uses_sched:
            ps.append("(sched : Sched)")
        for n, t in self.params:
            ps.append(f"({lname(n)} : {lean_type(t, fpt)})")
            if is_arr(t):
                ps += [f"({self.shape_of(n, k)} : Nat)" for k in range(t[1])]
        body = list(self.node.body)
        self.ret_ty = None
        # void functions: return the written parameter
        sig_ret = self.sig["ret"]
        out = []
        if self.state:
            inits = []
            for nm in self.state:
                if nm in [p for p, _ in self.params]:
                    inits.append(f"{lname(nm)} := {lname(nm)}")
                else:
                    inits.append(f"{lname(nm)} := {zero_of(self.types[nm])}")
            out.append(f"  let st : {name}.St α := {{ {', '.join(inits)} }}")
        # scalar augmented assignment on Name targets handled here by rewriting into Assign
        body = [self.rewrite(s) for s in body]
        has_return = any(isinstance(s, ast.Return) for s in body)
        if has_return:
            blk = self.block(body, "  ", lambda x: x)
        else:
            if sig_ret not in ("V", None):
                raise Unsupported("missing return")
            if len(self.written_params) != 1:
                raise Unsupported("void function must write exactly one parameter")
            w = self.written_params[0]
            self.ret_ty = self.types[w]
            blk = self.block(body, "  ", lambda x: f"{x}.{lname(w)}")
        out += blk
        rt = self.ret_ty
        if rt is None:
            raise Unsupported("no return type")
        self.final_ret = rt
        if isinstance(rt, tuple) and rt[0] == "tuple":
            rts = " × ".join("(" + lean_type(x, fpt) + ")" for x in rt[1])
        else:
            rts = lean_type(rt if rt != "P" else "B", fpt)
        hdr = f"def {name} " + " ".join(ps) + f" : {rts} :="
        lines.append(hdr)
        lines += out
        lines.append("")
        # guard
        g = self.guard_def(ps)
        if g:
            lines += g
            lines.append("")
        return lines

    def uses_sched(self):
        for n in ast.walk(self.node):
            if isinstance(n, ast.Call) and isinstance(n.func, ast.Name):
                if n.func.id == "prange":
                    return True
        return False

    def rewrite(self, s):
        """x += e on a scalar Name  ->  x = x + e  (so that block() sees only Assign)"""
        class R(ast.NodeTransformer):
            def visit_AugAssign(self_, node):
                self_.generic_visit(node)
                if isinstance(node.target, ast.Name):
                    new = ast.Assign(targets=[node.target],
                                     value=ast.BinOp(left=ast.Name(id=node.target.id, ctx=ast.Load()),
                                                     op=node.op, right=node.value))
                    return ast.copy_location(new, node)
                return node
        r = R().visit(s)
        ast.fix_missing_locations(r)
        return r

    def guard_def(self, ps):
        """collect `if c: raise E()` reachable at the top level (possibly under one if/else)"""
        guards = []
        lets = []

        def walk(stmts, path):
            for s in stmts:
                if isinstance(s, ast.Assign) and isinstance(s.targets[0], ast.Name):
                    nm = s.targets[0].id
                    if nm in self.lets and not path and nm not in IGNORED_VARS:
                        t = self.types[nm]
                        if t in ("N", "I", "F", "B", "S", "U"):
                            dummy = []
                            try:
                                val = self.assign_value(nm, s.value, dummy, "  ")
                                lets.append(f"  let {lname(nm)} : {lean_type(t)} := {val}")
                            except Unsupported:
                                pass
                elif isinstance(s, ast.If):
                    if len(s.body) == 1 and isinstance(s.body[0], ast.Raise):
                        c = self.prop(s.test)
                        exc = s.body[0].exc.func.id
                        cond = " ∧ ".join(path + [c])
                        guards.append((list(lets), cond, exc))
                        if s.orelse:
                            walk(s.orelse, path + [f"(¬ {c})"])
                    else:
                        c = self.prop(s.test)
                        walk(s.body, path + [c])
                        walk(s.orelse, path + [f"(¬ {c})"])
                elif isinstance(s, (ast.For, ast.With)):
                    for n in ast.walk(s):
                        if isinstance(n, ast.Raise):
                            raise Unsupported("raise inside a loop")
        walk(self.node.body, [])
        if not guards:
            return None
        ps = [p for p in ps if p != "(sched : Sched)"]
        lines = [f"/-- the exception `{self.name}` raises before doing any work, if any -/",
                 f"def {self.name}.guard " + " ".join(ps) + " : Option String :="]
        emitted = 0
        for (ls, cond, exc) in guards:
            for l in ls[emitted:]:
                lines.append(l)
            emitted = max(emitted, len(ls))
            lines.append(f"  if {cond} then some \"{exc}\" else")
        lines.append("  none")
        return lines


class Translator:
    def __init__(self, src, ns):
        self.ns = ns
        self.pysrc, self.info = front_end(src)
        self.tree = ast.parse(self.pysrc)
        self.nodes = {n.name: n for n in self.tree.body if isinstance(n, ast.FunctionDef)}
        for n in self.tree.body:
            if not isinstance(n, (ast.FunctionDef, ast.Expr, ast.Pass)):
                raise Unsupported(f"top-level {type(n).__name__}")
        self.fns = {}
        self._wp = {}

    def fn(self, name):
        if name not in self.fns:
            self.fns[name] = Fn(self, name, self.nodes[name])
        return self.fns[name]

    def written_positions(self, caller, f):
        """argument positions a callee writes through"""
        if f in self.info["funcs"] and f not in IGNORED_FUNCS:
            if f not in self._wp:
                self._wp[f] = []      # recursion guard
                fn = self.fn(f)
                formals = [n for n, _ in fn.params]
                self._wp[f] = [formals.index(w) for w in fn.written_params]
            return self._wp[f]
        if f in caller.types and isinstance(caller.types[f], tuple) and caller.types[f][0] == "fp":
            # function pointer: candidates = functions of that pointer type's choosers
            ret, ptys = self.info["fptypes"][caller.types[f][1]]
            if ret != "V":
                return []
            return [0]      # convention of this code base: void callbacks write their first argument
        return []

    def ret_type(self, f):
        sig = self.info["funcs"][f]
        if sig["ret"] not in (None, "V"):
            return sig["ret"]
        fn = self.fn(f)
        if not hasattr(fn, "final_ret"):
            fn.emit()
        return fn.final_ret

    def emit(self, srcname):
        out = [f"/- GENERATED by vlib/pyx2lean.py from {srcname} — do not edit.",
               "   Regenerated from the current source on every run of ./check (tie A, DESIGN §2.2). -/",
               "import GSV.Scalar", "import GSV.Ctl", "",
               "set_option linter.unusedVariables false", "",
               "namespace GSV." + self.ns, "open GSV GSV.Transc", "",
               "variable {α : Type} [Arith α] [Transc α] [DecidableLT α] [DecidableLE α]", ""]
        for name in self.info["order"]:
            if name in IGNORED_FUNCS:
                continue
            # void check of fp-callback convention
            out += self.fn(name).emit()
        out.append("end GSV." + self.ns)
        # verify the "void callbacks write their first argument" convention
        for name, sig in self.info["funcs"].items():
            if sig["ret"] == "V":
                if self.written_positions(None, name) != [0]:
                    raise Unsupported(f"void function {name} does not write exactly its first argument")
        txt = "\n".join(out) + "\n"
        # functions are referenced with the namespace prefix inside the namespace: strip it
        txt = txt.replace(f"{self.ns}.", "")
        return txt


def translate_file(path, ns):
    with open(path) as fh:
        src = fh.read()
    root = os.environ.get("GSV_REPO", "/repo")
    return Translator(src, ns).emit(os.path.relpath(path, root) if path.startswith(root) else path)


def main():
    src, ns, dst = sys.argv[1:4]
    txt = translate_file(src, ns)
    old = None
    if os.path.exists(dst):
        with open(dst) as fh:
            old = fh.read()
    if old != txt:
        with open(dst, "w") as fh:
            fh.write(txt)
        print(f"pyx2lean: {dst} rewritten")
    else:
        print(f"pyx2lean: {dst} unchanged")


if __name__ == "__main__":
    try:
        main()
    except Unsupported as e:
        print(f"pyx2lean: UNSUPPORTED {e}", file=sys.stderr)
        sys.exit(3)
