#!/bin/bash
# mkworktree.sh <dir>: scratch git worktree of /repo (HEAD) incl. the untracked compiled extensions
set -e
d="$1"
git -C /repo worktree add -q --detach "$d" HEAD
for f in _version.py field/summator.c field/summator.cpython-312-x86_64-linux-gnu.so krige/krigesum.c krige/krigesum.cpython-312-x86_64-linux-gnu.so variogram/estimator.cpp variogram/estimator.cpython-312-x86_64-linux-gnu.so; do
  cp /repo/src/gstools/$f "$d/src/gstools/$f"
done
echo "worktree $d ready: run python with PYTHONPATH=$d/src /venv/bin/python, tests with cd $d && PYTHONPATH=$d/src /venv/bin/python -m pytest -q -p no:cacheprovider"
