"""C14 — model parameters form a consistent state independent of how it was reached.

tie B: random setter histories on real CovModel objects (19 classes x plain / temporal / lat-lon /
lat-lon+temporal x dim 1-4, scalar and list forms, boundary and out-of-bounds values) are replayed on
the Lean state machine `GSV.Model.CovState` run on `Rat`; all values are dyadic (chosen so every float
operation of the real code is exact), hence every observable is compared for EQUALITY after every step:
parameters, bounds, derived quantities, canonical error kind (argument + error_case), warning flag and
the value of the path-independence predicate (`fresh construct == state`).

search: an oracle independent of the Lean model, on the real API with arbitrary (also non-dyadic)
values: rejection of out-of-bounds values, "a rejected assignment leaves the model unchanged", fresh
construction equality, bounds invariant, derived quantities, frame conditions.
"""
import contextlib
import copy
import math
import warnings
from fractions import Fraction

import numpy as np

import proto

ASSUMPTIONS = [
    "the Lean model GSV.Model.CovState (run on Rat) is tied to CovModel by exact differential execution on dyadic inputs; the theorems are about that model",
    "hankel.SymmetricFourierTransform is replaced by a stub while histories run (it is rebuilt on every dim change, costs ms, and holds no parameter state); a sample of histories runs unstubbed",
    "float() / np.array() conversion of user input and numpy inf/nan arithmetic (len_scale list starting with 0, rescale 0, hurst 0) are outside the model (marked `unmodelled`, never generated)",
    "integral_scale assignment is modelled only where calc_integral_scale is len_rescaled (Exponential and the user classes); the other classes are covered by the search with rtol 1e-9",
    "TPL var_factor uses ** with a float exponent: exact only for hurst in {0.5, 1, 2} on the generated dyadic values (Rat power)",
]

TPL = ("TPLGaussian", "TPLExponential", "TPLStable")
DIMDEP = ("JBessel", "SuperSpherical", "TPLSimple")
CLASSES = ["Exponential", "Stable", "Matern", "Integral", "Rational", "Cubic", "Linear", "Circular", "Spherical",
           "HyperSpherical", "SuperSpherical", "JBessel", "TPLGaussian", "TPLExponential", "TPLStable", "TPLSimple",
           "Gaussian", "UserFix2", "UserFix3"]
INTSCALE_EXACT = ("Exponential", "UserFix2", "UserFix3")
CONFIGS = [("plain", False, False), ("temporal", False, True), ("latlon", True, False), ("latlon+temporal", True, True)]

_user = {}


def get_class(name):
    import gstools as gs
    if name.startswith("UserFix"):
        if name not in _user:
            n = int(name[-1])

            def cor(self, h):
                return np.exp(-h)

            def fix_dim(self, _n=n):
                return _n

            def calc_integral_scale(self):
                return self.len_rescaled

            _user[name] = type(name, (gs.CovModel,), {"cor": cor, "fix_dim": fix_dim,
                                                      "calc_integral_scale": calc_integral_scale})
        return _user[name]
    return getattr(gs, name)


@contextlib.contextmanager
def stub_sft(enable=True):
    import gstools.covmodel.base as B
    import gstools.covmodel.tools as T
    if not enable:
        yield
        return

    class SFTStub:  # parameter-free stand-in (see ASSUMPTIONS)
        def __init__(self, ndim=1, **kw):
            self.ndim = ndim

    old = (B.SFT, T.SFT)
    B.SFT = T.SFT = SFTStub
    try:
        yield
    finally:
        B.SFT, T.SFT = old


# ------------------------------------------------------------------ canonical forms
def frac(x):
    x = float(x)
    if not math.isfinite(x):
        raise OverflowError("non-finite value")
    f = Fraction(x)
    # dyadic values travel exactly; decimal constants of the source (0.1, 0.2, 0.3) as the decimal they are written as
    return f if f.denominator <= 2 ** 44 else Fraction(repr(x))


def rat(x):
    f = frac(x)
    return [f.numerator, f.denominator]


def rat_or_none(x):
    x = float(x)
    return None if math.isinf(x) else rat(x)


def canon_bnd(b):
    b = list(b)
    return [rat_or_none(b[0]), rat_or_none(b[1]), b[2] if len(b) == 3 else "cc"]


def canon_err(e):
    if e is None:
        return None
    if not isinstance(e, ValueError):
        return {"e": "other:" + type(e).__name__, "msg": str(e)[:80]}
    s = str(e)
    if s.startswith("anisotropy-ratios needs to be > 0"):
        return {"e": "anis_nonpos"}
    if "Only dimensions of d >= 1" in s:
        return {"e": "dim_lt_1"}
    if "not compatible with a latlon model" in s:
        return {"e": "fixdim_latlon"}
    if s.startswith("Given bounds for '"):
        return {"e": "bad_bounds", "arg": s.split("'")[1]}
    if s.startswith("set_arg_bounds: unknown argument"):
        return {"e": "unknown_arg", "arg": s.split("'")[1]}
    if "Integral scale could not be set correctly" in s:
        return {"e": "int_scale"}
    for pat, case in ((" needs to be >= ", 1), (" needs to be > ", 2), (" needs to be <= ", 3), (" needs to be < ", 4)):
        if pat in s:
            return {"e": "bound", "arg": s.split(pat)[0], "case": case}
    return {"e": "other:ValueError", "msg": s[:80]}


def observe(m):
    """public observables of a CovModel in the layout of `obsJson` of the Lean driver"""
    return {
        "dim": int(m.dim), "latlon": bool(m.latlon), "temporal": bool(m.temporal),
        "var": rat(m.var), "var_raw": rat(m.var_raw), "len_scale": rat(m.len_scale),
        "anis": [rat(a) for a in np.asarray(m.anis).ravel()], "angles": [rat(a) for a in np.asarray(m.angles).ravel()],
        "nugget": rat(m.nugget), "rescale": rat(m.rescale),
        "opt": [[o, rat(getattr(m, o)), canon_bnd(b)] for o, b in m.opt_arg_bounds.items()],
        "var_bounds": canon_bnd(m.var_bounds), "len_scale_bounds": canon_bnd(m.len_scale_bounds),
        "nugget_bounds": canon_bnd(m.nugget_bounds), "anis_bounds": canon_bnd(m.anis_bounds),
        "sill": rat(m.sill), "len_scale_vec": [rat(a) for a in m.len_scale_vec],
        "field_dim": int(m.field_dim), "spatial_dim": int(m.spatial_dim),
    }


def py_in_bounds(m):
    """independent oracle: first argument (dict order) outside its interval, else None"""
    for arg, b in m.arg_bounds.items():
        b = list(b)
        typ = b[2] if len(b) == 3 else "cc"
        vals = np.atleast_1d(np.asarray(getattr(m, arg), dtype=float))
        for v in vals:
            lo_ok = v >= b[0] if typ[0] == "c" else v > b[0]
            hi_ok = v <= b[1] if typ[1] == "c" else v < b[1]
            if not (lo_ok and hi_ok):
                return arg
    return None


def fresh_like(cname, m):
    """a model constructed directly with the values read off `m`"""
    cls = get_class(cname)
    kw = {o: getattr(m, o) for o in m.opt_arg}
    return cls(dim=m.dim, var=m.var, len_scale=m.len_scale, anis=m.anis, angles=m.angles, nugget=m.nugget,
               rescale=m.rescale, latlon=m.latlon, temporal=m.temporal, **kw)


def fixed_point(cname, m, exact=True, obs=None):
    """0: fresh construct equals m; 1: constructor raises; 2: differs"""
    try:
        with warnings.catch_warnings():
            warnings.simplefilter("ignore")
            f = fresh_like(cname, m)
    except ValueError:
        return 1, None
    a, b = obs or observe(m), observe(f)
    if exact:
        return (0 if a == b else 2), b
    return (0 if obs_close(a, b) else 2), b


def obs_close(a, b, rtol=1e-9):
    for k in a:
        if not _close(a[k], b[k], rtol):
            return False
    return True


def _close(x, y, rtol):
    if isinstance(x, list) and len(x) == 2 and all(isinstance(t, int) and not isinstance(t, bool) for t in x) \
            and isinstance(y, list) and len(y) == 2 and all(isinstance(t, int) and not isinstance(t, bool) for t in y):
        fx, fy = Fraction(*x), Fraction(*y)
        return abs(fx - fy) <= rtol * (abs(fx) + abs(fy)) + Fraction(1, 10**300)
    if isinstance(x, list) and isinstance(y, list):
        return len(x) == len(y) and all(_close(p, q, rtol) for p, q in zip(x, y))
    return x == y


# ------------------------------------------------------------------ real execution of one operation
def apply_op(m, op):
    """run one setter on the real model; returns (exception or None, AttributeWarning issued, other warnings)"""
    from gstools.covmodel.tools import AttributeWarning
    k = op["k"]
    err = None
    with warnings.catch_warnings(record=True) as wl:
        warnings.simplefilter("always")
        try:
            if k == "dim":
                m.dim = op["d"]
            elif k == "var":
                m.var = op["v"]
            elif k == "var_raw":
                m.var_raw = op["v"]
            elif k == "nugget":
                m.nugget = op["v"]
            elif k in ("len_scale", "anis", "angles", "integral_scale"):
                vs = op["vs"]
                setattr(m, k, vs[0] if op.get("scalar") else list(vs))
            elif k == "rescale":
                m.rescale = op["v"]
            elif k == "opt":
                setattr(m, op["name"], op["v"])
            elif k == "arg_bounds":
                m.set_arg_bounds(check_args=op["check"], **{b["arg"]: py_bounds(b) for b in op["bs"]})
            elif k == "bounds_prop":
                setattr(m, op["arg"] + "_bounds", py_bounds(op))
            else:
                raise KeyError(k)
        except ValueError as e:
            err = e
    aw = any(issubclass(w.category, AttributeWarning) for w in wl)
    other = [str(w.message)[:60] for w in wl if not issubclass(w.category, AttributeWarning)]
    return err, aw, other


def py_bounds(b):
    lo = -np.inf if b["lo"] is None else b["lo"]
    hi = np.inf if b["hi"] is None else b["hi"]
    return [lo, hi] if b["typ"] == "" else [lo, hi, b["typ"]]


def op_json(op):
    """the operation in the driver's line protocol"""
    k = op["k"]
    if k == "dim":
        return {"k": k, "d": int(op["d"])}
    if k in ("var", "var_raw", "nugget"):
        return {"k": k, "v": rat(op["v"])}
    if k in ("len_scale", "anis", "angles", "integral_scale"):
        return {"k": k, "vs": [rat(v) for v in op["vs"]]}
    if k == "rescale":
        return {"k": k, "v": None if op["v"] is None else rat(op["v"])}
    if k == "opt":
        return {"k": k, "name": op["name"], "v": rat(op["v"])}
    jb = lambda b: {"lo": None if b["lo"] is None else rat(b["lo"]), "hi": None if b["hi"] is None else rat(b["hi"]),
                    "typ": b["typ"]}
    if k == "arg_bounds":
        return {"k": k, "check": bool(op["check"]), "bs": [dict(arg=b["arg"], **jb(b)) for b in op["bs"]]}
    if k == "bounds_prop":
        return dict(k=k, arg=op["arg"], **jb(op))
    raise KeyError(k)


def cfg_json(cfg):
    return {"dim": int(cfg["dim"]), "spatial_dim": cfg.get("spatial_dim"), "latlon": cfg["latlon"],
            "temporal": cfg["temporal"], "var": rat(cfg["var"]),
            "var_raw": None if cfg.get("var_raw") is None else rat(cfg["var_raw"]),
            "len_scale": [rat(v) for v in cfg["len_scale"]], "anis": [rat(v) for v in cfg["anis"]],
            "angles": [rat(v) for v in cfg["angles"]], "nugget": rat(cfg["nugget"]),
            "rescale": None if cfg.get("rescale") is None else rat(cfg["rescale"]),
            "opt": [{"name": n, "val": rat(v)} for n, v in cfg["opt"].items()],
            "integral_scale": None if cfg.get("integral_scale") is None else [rat(v) for v in cfg["integral_scale"]]}


def build(cname, cfg):
    """construct the real model from a cfg dict; returns (model or None, exception, warned, other warnings)"""
    from gstools.covmodel.tools import AttributeWarning
    cls = get_class(cname)
    kw = dict(var=cfg["var"], nugget=cfg["nugget"], latlon=cfg["latlon"], temporal=cfg["temporal"])
    for key in ("len_scale", "anis", "angles", "integral_scale"):
        v = cfg.get(key)
        if v is None:
            continue
        kw[key] = v[0] if cfg.get(key + "_scalar") else list(v)
    if cfg.get("spatial_dim") is not None:
        kw["spatial_dim"] = cfg["spatial_dim"]
    else:
        kw["dim"] = cfg["dim"]
    if cfg.get("var_raw") is not None:
        kw["var_raw"] = cfg["var_raw"]
    if cfg.get("rescale") is not None:
        kw["rescale"] = cfg["rescale"]
    kw.update(cfg["opt"])
    m, err = None, None
    with warnings.catch_warnings(record=True) as wl:
        warnings.simplefilter("always")
        try:
            m = cls(**kw)
        except ValueError as e:
            err = e
    aw = any(issubclass(w.category, AttributeWarning) for w in wl)
    other = [str(w.message)[:60] for w in wl if not issubclass(w.category, AttributeWarning)]
    return m, err, aw, other


# ------------------------------------------------------------------ generators (dyadic, exact by construction)
POW2 = [0.25, 0.5, 1.0, 2.0, 4.0]
DYAD = [0.25, 0.5, 0.75, 1.0, 1.5, 2.0, 3.0, 4.0, 8.0]
ANG = [0.0, 0.25, 0.5, -0.5, 1.0, 1.5, -2.0, 3.0]


def pick(rng, seq):
    return seq[int(rng.randint(len(seq)))]


def is_pow2(x):
    x = float(x)
    return x > 0 and math.isfinite(x) and math.frexp(x)[0] == 0.5


def opt_values(cname, name, dim, rng, bad):
    """representative values of an optional argument: inside, on the bounds, outside"""
    if name == "hurst":
        return pick(rng, [1.0, 2.0]) if bad else 0.5
    if name == "len_low":
        return pick(rng, [-1.0, -0.25]) if bad else pick(rng, [0.0, 0.0, 0.5, 1.0, 3.0])
    if name == "alpha" and cname in ("Stable", "TPLStable"):
        return pick(rng, [0.0, -1.0, 2.5, 4.0]) if bad else pick(rng, [0.25, 0.5, 1.0, 1.5, 2.0])
    if name == "alpha":  # Rational [0.5, 50]
        return pick(rng, [0.25, 0.0, 50.5, 64.0]) if bad else pick(rng, [0.5, 1.0, 2.0, 50.0, 8.0])
    if name == "nu" and cname == "Matern":  # [0.2, 30]
        return pick(rng, [0.125, 0.0, 30.5, 32.0]) if bad else pick(rng, [0.25, 0.5, 1.0, 1.5, 30.0])
    if name == "nu" and cname == "Integral":  # (0, 50]
        return pick(rng, [0.0, -1.0, 50.5]) if bad else pick(rng, [0.25, 1.0, 2.0, 50.0])
    if name == "nu":  # dimension dependent lower bound; dim is the dim the bounds were made for
        lo = {"SuperSpherical": (dim - 1) / 2, "JBessel": dim / 2 - 1, "TPLSimple": (dim + 1) / 2}[cname]
        return pick(rng, [lo - 0.5, lo - 0.25, 50.5]) if bad else pick(rng, [lo, lo + 0.5, lo + 1.0, lo + 0.25, 50.0, 3.0])
    raise KeyError(name)


def gen_bounds(rng, arg, cname):
    """a bounds value for set_arg_bounds / the bounds properties: mostly valid, some invalid"""
    r = rng.rand()
    if r < 0.12:
        return pick(rng, [dict(lo=1.0, hi=1.0, typ=""), dict(lo=2.0, hi=1.0, typ="cc"), dict(lo=0.0, hi=1.0, typ="xx"),
                          dict(lo=4.0, hi=0.5, typ="oo"), dict(lo=0.0, hi=2.0, typ="c")])
    typ = pick(rng, ["", "cc", "co", "oc", "oo"])
    lo = pick(rng, [None, 0.0, 0.0, 0.25, 0.5, 1.0, -1.0, 2.0])
    hi = pick(rng, [None, None, 4.0, 8.0, 16.0, 1.0, 2.0, 3.0])
    if lo is not None and hi is not None and hi <= lo:
        hi = lo + pick(rng, [0.5, 1.0, 4.0])
    if arg in ("anis", "len_scale") and (lo is None or lo < 0):
        lo = 0.0  # keep ratios / scales positive so that no division by zero enters later operations
    if cname in TPL and arg in ("len_scale", "var", "hurst"):
        # defaults computed from the bounds must keep var_factor a power of two / hurst in {0.5}
        if arg == "hurst":
            return dict(lo=0.0, hi=1.0, typ=typ)
        lo, hi = pick(rng, [(0.0, None), (0.0, 8.0), (0.0, 2.0), (None, None), (1.0, None), (0.0, 0.5)])
    return dict(lo=lo, hi=hi, typ=typ)


def default_from(b):
    lo, hi = b["lo"], b["hi"]
    if lo is not None and hi is not None:
        return (lo + hi) / 2
    if lo is not None:
        return lo + 1.0
    if hi is not None:
        return hi - 1.0
    return 0.0


def gen_cfg(rng, cname, latlon, temporal):
    tpl = cname in TPL
    dim = int(rng.randint(1, 5))
    cfg = {"dim": dim, "latlon": latlon, "temporal": temporal, "opt": {}}
    if rng.rand() < 0.2:
        cfg["spatial_dim"] = int(rng.randint(0 if temporal else 1, 4))
    if rng.rand() < 0.04:
        cfg["dim"], cfg["spatial_dim"] = int(pick(rng, [0, -1])), None
    eff = 3 + int(temporal) if latlon else (cfg["spatial_dim"] + int(temporal) if cfg.get("spatial_dim") is not None else cfg["dim"])
    if cname.startswith("UserFix"):
        eff = 3 + int(temporal) if latlon else int(cname[-1])
    bad = rng.rand() < 0.15
    which = int(rng.randint(6)) if bad else -1
    cfg["var"] = pick(rng, [0.0, -1.0]) if which == 0 else pick(rng, DYAD)
    cfg["nugget"] = pick(rng, [-0.5, -2.0]) if which == 1 else pick(rng, [0.0, 0.0, 0.25, 1.0, 2.0])
    main = POW2 if (tpl or rng.rand() < 0.6) else DYAD
    n_ls = int(pick(rng, [1, 1, 1, 2, 3, 4, 5]))
    ls = [pick(rng, POW2)] + [pick(rng, DYAD) for _ in range(n_ls - 1)] if n_ls > 1 else [pick(rng, main)]
    if which == 2:
        ls = pick(rng, [[0.0], [-2.0], [-1.0, -2.0], [-1.0, 2.0], [1.0, 0.0], [2.0, -1.0, 1.0]])
        if tpl and ls[0] == 0.0:
            ls = [-2.0]   # var / var_factor with var_factor 0 is numpy inf/nan arithmetic: outside the model
    cfg["len_scale"], cfg["len_scale_scalar"] = ls, (len(ls) == 1 and rng.rand() < 0.7)
    n_an = int(pick(rng, [0, 1, 1, 2, 3, 4]))
    an = [pick(rng, [0.25, 0.5, 1.0, 2.0, 4.0, 1.5]) for _ in range(n_an)]
    if which == 3 and n_an:
        an[int(rng.randint(n_an))] = pick(rng, [0.0, -1.0])
    cfg["anis"], cfg["anis_scalar"] = (an or [1.0]), (len(an) <= 1 and rng.rand() < 0.6)
    if not an and not cfg["anis_scalar"]:
        cfg["anis"] = []
    n_ang = int(pick(rng, [0, 1, 1, 2, 3, 6, 7]))
    ang = [pick(rng, ANG) for _ in range(n_ang)]
    cfg["angles"], cfg["angles_scalar"] = (ang or [0.0]), (len(ang) <= 1 and rng.rand() < 0.6)
    if not ang and not cfg["angles_scalar"]:
        cfg["angles"] = []
    resc = pick(rng, [None, None, 0.5, 1.0, 2.0, 4.0, -2.0])
    if cname == "Gaussian" and resc is None:
        resc = 1.0
    cfg["rescale"] = resc
    # optional arguments (dimension-dependent ones relative to the effective dim of the new model)
    names = {"Stable": ["alpha"], "Matern": ["nu"], "Integral": ["nu"], "Rational": ["alpha"], "SuperSpherical": ["nu"],
             "JBessel": ["nu"], "TPLGaussian": ["hurst", "len_low"], "TPLExponential": ["hurst", "len_low"],
             "TPLStable": ["hurst", "alpha", "len_low"], "TPLSimple": ["nu"]}.get(cname, [])
    for n in names:
        if n == "hurst" or rng.rand() < 0.6:
            cfg["opt"][n] = opt_values(cname, n, max(eff, 1), rng, bad=(which == 4 and n != "hurst"))
    if rng.rand() < 0.2 and not tpl:
        cfg["var_raw"] = pick(rng, DYAD) if which != 5 else -1.0
    if cname in INTSCALE_EXACT and rng.rand() < 0.25:
        isc = [pick(rng, POW2)] + [pick(rng, DYAD) for _ in range(int(pick(rng, [0, 0, 1, 2])))]
        cfg["integral_scale"], cfg["integral_scale_scalar"] = isc, (len(isc) == 1 and rng.rand() < 0.7)
    return cfg


OP_KINDS = ["dim", "var", "var_raw", "nugget", "len_scale", "len_scale", "anis", "angles", "rescale", "opt", "opt",
            "integral_scale", "arg_bounds", "bounds_prop"]


def gen_op(rng, cname, m, allow_bounds, bounds_dim):
    """one operation, chosen adaptively so that all float arithmetic of the real code stays exact"""
    tpl = cname in TPL
    bad = rng.rand() < 0.22
    for _ in range(50):
        k = pick(rng, OP_KINDS)
        if k == "dim":
            return {"k": k, "d": int(pick(rng, [0, -1, 5]) if bad and rng.rand() < 0.5 else rng.randint(1, 5))}
        if k == "var":
            if not is_pow2(abs(float(m.var_factor()))):
                continue
            return {"k": k, "v": pick(rng, [0.0, -1.0, -0.25]) if bad else pick(rng, DYAD)}
        if k == "var_raw":
            return {"k": k, "v": pick(rng, [0.0, -1.0]) if bad else pick(rng, DYAD)}
        if k == "nugget":
            return {"k": k, "v": pick(rng, [-0.5, -2.0]) if bad else pick(rng, [0.0, 0.25, 0.5, 1.0, 2.0])}
        if k == "len_scale":
            n = int(pick(rng, [1, 1, 1, 2, 2, 3, 4, 5]))
            if n == 1:
                vs = [pick(rng, [0.0, -2.0, -0.5]) if bad else pick(rng, POW2 if (tpl or rng.rand() < 0.5) else DYAD)]
            else:
                vs = [pick(rng, POW2)] + [pick(rng, DYAD) for _ in range(n - 1)]
                if bad:
                    vs = pick(rng, [[-1.0, -2.0], [-1.0, 2.0], [1.0, 0.0], [2.0, -1.0, 1.0], [1.0, 2.0, 3.0, -4.0]])
            return {"k": k, "vs": vs, "scalar": n == 1 and len(vs) == 1 and rng.rand() < 0.7}
        if k == "anis":
            n = int(pick(rng, [0, 1, 1, 2, 3, 4]))
            vs = [pick(rng, [0.25, 0.5, 1.0, 2.0, 4.0, 1.5, 16.0]) for _ in range(n)]
            if bad and n:
                vs[int(rng.randint(n))] = pick(rng, [0.0, -1.0])
            if n == 0 and rng.rand() < 0.5:
                vs = [pick(rng, [0.5, 2.0])]
            return {"k": k, "vs": vs, "scalar": len(vs) == 1 and rng.rand() < 0.6}
        if k == "angles":
            n = int(pick(rng, [0, 1, 1, 2, 3, 5, 6, 7]))
            vs = [pick(rng, ANG) for _ in range(n)]
            if n == 0 and rng.rand() < 0.5:
                vs = [pick(rng, ANG)]
            return {"k": k, "vs": vs, "scalar": len(vs) == 1 and rng.rand() < 0.6}
        if k == "rescale":
            v = pick(rng, [None, 0.5, 1.0, 2.0, 4.0, -2.0, 0.25])
            if cname == "Gaussian" and v is None:
                v = 1.0
            return {"k": k, "v": v}
        if k == "opt":
            if not m.opt_arg:
                continue
            name = pick(rng, list(m.opt_arg_bounds))
            if name in ("hurst", "len_low", "alpha", "nu") and name in m.opt_arg_bounds and _custom_bounds(m, name, cname, bounds_dim):
                # user-changed bounds: pick around them
                b = list(m.opt_arg_bounds[name])
                cands = [x for x in (b[0], b[1]) if math.isfinite(x)] + [1.0, 0.5]
                v = pick(rng, cands) + (pick(rng, [-0.5, 0.5]) if bad else 0.0)
                if name == "hurst":
                    v = pick(rng, [0.5, 1.0, 2.0])
                return {"k": k, "name": name, "v": float(v)}
            return {"k": k, "name": name, "v": float(opt_values(cname, name, bounds_dim, rng, bad))}
        if k == "integral_scale":
            if cname not in INTSCALE_EXACT or not is_pow2(m.rescale):
                continue
            n = int(pick(rng, [1, 1, 2, 3]))
            vs = [pick(rng, POW2)] + [pick(rng, DYAD) for _ in range(n - 1)]
            if bad:
                vs = pick(rng, [[0.0], [-1.0], [-1.0, -2.0], [1.0, -1.0]])
            return {"k": k, "vs": vs, "scalar": len(vs) == 1 and rng.rand() < 0.7}
        if k == "arg_bounds":
            if not allow_bounds:
                continue
            args = ["var", "len_scale", "nugget", "anis"] + list(m.opt_arg_bounds)
            if rng.rand() < 0.05:
                args = ["nope"]
            chosen = [pick(rng, args) for _ in range(int(pick(rng, [1, 1, 2, 3])))]
            chosen = list(dict.fromkeys(chosen))
            check = bool(rng.rand() < 0.7)
            if check and tpl and not is_pow2(m.var_factor()):
                chosen = [a for a in chosen if a != "var"] or ["nugget"]
            if check and tpl and "var" in chosen and any(a in chosen for a in ("len_scale", "hurst", "len_low")):
                chosen = ["var"]
            return {"k": k, "check": check, "bs": [dict(arg=a, **gen_bounds(rng, a, cname)) for a in chosen]}
        if k == "bounds_prop":
            if not allow_bounds:
                continue
            a = pick(rng, ["var", "len_scale", "nugget", "anis"])
            return dict(k=k, arg=a, **gen_bounds(rng, a, cname))
    return {"k": "nugget", "v": 0.5}


def repair_op(rng, cname, m, arg, bounds_dim):
    """after a rejected assignment the value is stored anyway (D13); mostly put a valid value back so that the
    rest of the history explores valid states"""
    def inside(b):
        b = list(b)
        lo, hi = float(b[0]), float(b[1])
        cands = [v for v in POW2 + [8.0, 16.0, 0.125] if lo < v < hi]
        return pick(rng, cands) if cands else None
    if arg == "var":
        v = inside(m.var_bounds)
        if v is None:
            return None
        if is_pow2(abs(float(m.var_factor()))):
            return {"k": "var", "v": v}
        return None
    if arg == "len_scale":
        v = inside(m.len_scale_bounds)
        return None if v is None else {"k": "len_scale", "vs": [v], "scalar": True}
    if arg == "nugget":
        v = inside(m.nugget_bounds)
        return None if v is None else {"k": "nugget", "v": v}
    if arg == "anis":
        v = inside(m.anis_bounds)
        return None if v is None else {"k": "anis", "vs": [v] * max(int(m.dim) - 1, 1)}
    if arg in m.opt_arg_bounds:
        if arg == "hurst":
            return {"k": "opt", "name": arg, "v": 0.5}
        v = inside(m.opt_arg_bounds[arg])
        if arg == "len_low":
            v = 0.0 if list(m.opt_arg_bounds[arg])[0] <= 0.0 else v
        return None if v is None else {"k": "opt", "name": arg, "v": float(v)}
    return None


def _custom_bounds(m, name, cname, bounds_dim):
    """were the bounds of this optional argument changed by the history?"""
    cls = get_class(cname)
    try:
        with warnings.catch_warnings():
            warnings.simplefilter("ignore")
            ref = cls(dim=bounds_dim).opt_arg_bounds[name]
    except Exception:
        return True
    return canon_bnd(ref) != canon_bnd(m.opt_arg_bounds[name])


def run_history(rng, cname, latlon, temporal, n_ops, allow_bounds):
    """generate and run one history on the real code; returns the record for the driver + real outcomes"""
    cfg = gen_cfg(rng, cname, latlon, temporal)
    m, err, aw, other = build(cname, cfg)
    rec = {"cls": cname, "cfg": cfg, "ops": [], "real": {"construct": canon_err(err), "warn": aw, "steps": []},
           "other_warnings": list(other), "bounds_ops": False}
    if m is None:
        return rec
    rec["real"]["obs"] = observe(m)
    rec["real"]["fp"] = fixed_point(cname, m, obs=rec["real"]["obs"])[0] if is_pow2(m.var_factor()) else None
    bounds_dim = int(m.dim)
    repair = None
    for _ in range(n_ops):
        op = gen_op(rng, cname, m, allow_bounds, bounds_dim)
        if repair is not None and rng.rand() < 0.75:
            op = repair_op(rng, cname, m, repair, bounds_dim) or op
        e, w, oth = apply_op(m, op)
        ce = canon_err(e)
        repair = ce.get("arg") if (ce and ce["e"] == "bound") else None
        rec["other_warnings"] += oth
        if op["k"] in ("arg_bounds", "bounds_prop"):
            rec["bounds_ops"] = True
        try:
            obs = observe(m)
        except OverflowError:
            rec["other_warnings"].append("non-finite observable")
            break
        fp = None
        if not rec["bounds_ops"] and is_pow2(m.var_factor()):
            fp = fixed_point(cname, m, obs=obs)[0]
        rec["ops"].append(op)
        rec["real"]["steps"].append({"err": canon_err(e), "warn": w, "obs": obs, "fp": fp})
    return rec


def compare_history(rec, res):
    """diff the real outcomes with the Lean model's; returns (n_compared, first disagreement or None, signatures)"""
    real = rec["real"]
    sigs = []
    n = 1
    base = {"cls": rec["cls"], "cfg": rec["cfg"]}
    if "error" in res:
        return n, dict(base, what="driver error", detail=res["error"]), sigs
    if res["construct"] != real["construct"]:
        return n, dict(base, what="constructor outcome differs", real=real["construct"], model=res["construct"]), sigs
    sigs.append((rec["cls"], rec["cfg"]["latlon"], rec["cfg"]["temporal"], "ctor", str(real["construct"])))
    if real["construct"] is not None:
        return n, None, sigs
    if res["warn"] != real["warn"]:
        return n, dict(base, what="constructor warning differs", real=real["warn"], model=res["warn"]), sigs
    d = diff_obs(real["obs"], res["obs"], real.get("fp"))
    if d:
        return n, dict(base, what="state after construction differs: " + d[0], real=d[1], model=d[2]), sigs
    for i, (op, rs, ms) in enumerate(zip(rec["ops"], real["steps"], res["steps"])):
        n += 1
        hist = dict(base, ops=rec["ops"][: i + 1])
        if rs["err"] != ms["err"]:
            return n, dict(hist, what=f"outcome of `{op['k']}` differs", real=rs["err"], model=ms["err"]), sigs
        if rs["warn"] != ms["warn"]:
            return n, dict(hist, what=f"warning of `{op['k']}` differs", real=rs["warn"], model=ms["warn"]), sigs
        d = diff_obs(rs["obs"], ms["obs"], rs["fp"])
        if d:
            return n, dict(hist, what=f"state after `{op['k']}` differs: " + d[0], real=d[1], model=d[2]), sigs
        sigs.append((rec["cls"], rec["cfg"]["latlon"], rec["cfg"]["temporal"], rs["obs"]["dim"], op["k"],
                     str(rs["err"]), op.get("scalar"), len(op.get("vs", []))))
    return n, None, sigs


def diff_obs(real, model, fp):
    for k, v in real.items():
        mv = model.get(k)
        if k == "opt":
            mv = [[a, b, c] for a, b, c in mv]
        if v != mv:
            return k, v, mv
    if fp is not None and model.get("fixed_point") != fp:
        return "fixed_point (fresh construct == state)", fp, model.get("fixed_point")
    return None


# ------------------------------------------------------------------ directed cases (corpus)
def directed_histories():
    """hand-written histories replayed first: D7 (fixed), D8, D13, pad rules, couplings"""
    base = dict(latlon=False, temporal=False, var=1.0, nugget=0.0, len_scale=[1.0], len_scale_scalar=True,
                anis=[1.0], anis_scalar=True, angles=[0.0], angles_scalar=True, rescale=None, opt={})
    H = []
    # D7: lat-lon + temporal keeps the time anisotropy when len_scale is assigned
    H.append(("Exponential", dict(base, dim=3, latlon=True, temporal=True, anis=[1.0, 1.0, 4.0], anis_scalar=False),
              [{"k": "len_scale", "vs": [2.0], "scalar": True}, {"k": "len_scale", "vs": [2.0, 4.0, 6.0, 16.0]},
               {"k": "integral_scale", "vs": [4.0], "scalar": True}]))
    # D8: stale dimension-dependent bounds
    H.append(("JBessel", dict(base, dim=1, opt={"nu": 0.0}), [{"k": "dim", "d": 3}, {"k": "opt", "name": "nu", "v": 0.25}]))
    H.append(("SuperSpherical", dict(base, dim=1, opt={"nu": 0.0}), [{"k": "dim", "d": 4}]))
    H.append(("TPLSimple", dict(base, dim=1, opt={"nu": 1.0}), [{"k": "dim", "d": 3}]))
    # D13: store before check
    H.append(("Exponential", dict(base, dim=2), [{"k": "var", "v": -1.0}, {"k": "nugget", "v": 0.5},
                                                   {"k": "var", "v": 2.0}, {"k": "nugget", "v": 0.25}]))
    H.append(("Stable", dict(base, dim=3), [{"k": "opt", "name": "alpha", "v": 2.5}, {"k": "len_scale", "vs": [-1.0, -2.0]},
                                            {"k": "len_scale", "vs": [0.0], "scalar": True}]))
    # pad rules: anis filled in front with ones, angles at the end with zeros, length scales edge-padded
    H.append(("Exponential", dict(base, dim=3, anis=[0.5], anis_scalar=False, angles=[1.0], angles_scalar=False),
              [{"k": "len_scale", "vs": [2.0, 4.0]}, {"k": "dim", "d": 2}, {"k": "dim", "d": 4}, {"k": "anis", "vs": [0.25]},
               {"k": "angles", "vs": [0.5, 1.0, 1.5, 3.0, 0.25, -0.5, 1.0]}, {"k": "dim", "d": 1}, {"k": "dim", "d": 3}]))
    # TPL: variance follows the intensity
    H.append(("TPLStable", dict(base, dim=2, opt={"hurst": 0.5}),
              [{"k": "len_scale", "vs": [4.0], "scalar": True}, {"k": "rescale", "v": 2.0}, {"k": "opt", "name": "len_low", "v": 1.0},
               {"k": "var", "v": 3.0}, {"k": "opt", "name": "hurst", "v": 1.0}]))
    # temporal: no rotation with the time axis
    H.append(("Matern", dict(base, dim=4, temporal=True, angles=[0.5, 1.0, 1.5, 3.0, 0.25, -0.5], angles_scalar=False),
              [{"k": "dim", "d": 3}, {"k": "angles", "vs": [1.0, 1.0, 1.0]}, {"k": "dim", "d": 1}]))
    # fixed dimension classes
    H.append(("UserFix2", dict(base, dim=3), [{"k": "dim", "d": 3}, {"k": "dim", "d": 2}]))
    H.append(("UserFix2", dict(base, dim=3, latlon=True), []))
    H.append(("UserFix3", dict(base, dim=1, latlon=True), [{"k": "dim", "d": 2}]))
    # bounds machinery
    H.append(("Exponential", dict(base, dim=2),
              [{"k": "arg_bounds", "check": True, "bs": [dict(arg="var", lo=2.0, hi=4.0, typ="cc"), dict(arg="nugget", lo=1.0, hi=None, typ="")]},
               {"k": "bounds_prop", "arg": "len_scale", "lo": 2.0, "hi": 8.0, "typ": "oo"},
               {"k": "integral_scale", "vs": [4.0], "scalar": True},
               {"k": "arg_bounds", "check": True, "bs": [dict(arg="anis", lo=2.0, hi=4.0, typ="co")]}]))
    return H


def run_directed(cname, cfg, ops):
    m, err, aw, other = build(cname, cfg)
    rec = {"cls": cname, "cfg": cfg, "ops": [], "real": {"construct": canon_err(err), "warn": aw, "steps": []},
           "other_warnings": list(other), "bounds_ops": False}
    if m is None:
        return rec
    rec["real"]["obs"] = observe(m)
    rec["real"]["fp"] = fixed_point(cname, m, obs=rec["real"]["obs"])[0]
    for op in ops:
        e, w, oth = apply_op(m, op)
        rec["other_warnings"] += oth
        if op["k"] in ("arg_bounds", "bounds_prop"):
            rec["bounds_ops"] = True
        obs = observe(m)
        fp = None if rec["bounds_ops"] else fixed_point(cname, m, obs=obs)[0]
        rec["ops"].append(op)
        rec["real"]["steps"].append({"err": canon_err(e), "warn": w, "obs": obs, "fp": fp})
    return rec


# ------------------------------------------------------------------ tie B
def correspondence(ctx):
    rng = np.random.RandomState(ctx.seed + 14)
    n_hist = ctx.scale(1400, 20000)
    recs = []
    with stub_sft(True):
        for cname, cfg, ops in directed_histories():
            recs.append(run_directed(cname, cfg, ops))
        for i in range(n_hist):
            cname = CLASSES[i % len(CLASSES)]
            _, latlon, temporal = CONFIGS[(i // len(CLASSES)) % 4]
            n_ops = int(pick(rng, [2, 4, 6, 8, 12])) if ctx.quick else int(pick(rng, [2, 4, 8, 12, 20, 30]))
            recs.append(run_history(rng, cname, latlon, temporal, n_ops, allow_bounds=(rng.rand() < 0.35)))
    with stub_sft(False):   # a sample with the real hankel transform object
        for i in range(ctx.scale(20, 200)):
            cname = CLASSES[int(rng.randint(len(CLASSES)))]
            _, latlon, temporal = CONFIGS[int(rng.randint(4))]
            recs.append(run_history(rng, cname, latlon, temporal, 4, allow_bounds=False))
    ops = [{"op": "c14_history", "cls": r["cls"], "cfg": cfg_json(r["cfg"]), "ops": [op_json(o) for o in r["ops"]]} for r in recs]
    res = proto.run_driver(ops)
    evals, disagreements, sigs = 0, [], set()
    dist = {"histories": len(recs), "constructor_errors": 0, "steps_ok": 0, "steps_valueerror": 0, "steps_warning": 0,
            "op_kinds": {}, "error_kinds": {}, "configs": {}, "classes": {}, "fixed_point": {0: 0, 1: 0, 2: 0},
            "non_finite_or_numpy_warning_histories": 0, "histories_with_bounds_ops": 0}
    for r, x in zip(recs, res):
        if r["other_warnings"]:
            dist["non_finite_or_numpy_warning_histories"] += 1
            disagreements.append({"what": "generator left the exact domain (numpy warning / non-finite value)",
                                  "cls": r["cls"], "cfg": r["cfg"], "ops": r["ops"], "detail": r["other_warnings"][:3]})
            continue
        n, d, s = compare_history(r, x)
        evals += n
        sigs.update(s)
        if d:
            disagreements.append(d)
        real = r["real"]
        ck = ("latlon" if r["cfg"]["latlon"] else "") + ("+temporal" if r["cfg"]["temporal"] else "") or "plain"
        dist["configs"][ck] = dist["configs"].get(ck, 0) + 1
        dist["classes"][r["cls"]] = dist["classes"].get(r["cls"], 0) + 1
        dist["histories_with_bounds_ops"] += int(r["bounds_ops"])
        if real["construct"] is not None:
            dist["constructor_errors"] += 1
            ek = real["construct"]["e"]
            dist["error_kinds"]["ctor:" + ek] = dist["error_kinds"].get("ctor:" + ek, 0) + 1
        for op, st in zip(r["ops"], real["steps"]):
            dist["op_kinds"][op["k"]] = dist["op_kinds"].get(op["k"], 0) + 1
            if st["err"] is None:
                dist["steps_ok"] += 1
            else:
                dist["steps_valueerror"] += 1
                ek = st["err"]["e"] + (":" + st["err"].get("arg", "") + ":" + str(st["err"].get("case", "")) if st["err"]["e"] == "bound" else "")
                dist["error_kinds"][ek] = dist["error_kinds"].get(ek, 0) + 1
            dist["steps_warning"] += int(st["warn"])
            if st["fp"] is not None:
                dist["fixed_point"][st["fp"]] += 1
    samples = [{"cls": r["cls"], "cfg": {k: v for k, v in r["cfg"].items() if not k.endswith("_scalar")}, "ops": r["ops"][:4],
                "outcomes": [s["err"] for s in r["real"]["steps"][:4]]} for r in recs[:4]]
    return {"evaluations": evals, "distinct_nontrivial": len(sigs),
            "rule": "one evaluation = one constructor call or one setter call whose complete public state (parameters, bounds, "
                    "sill, len_scale_vec, field/spatial dim, error kind incl. argument and error_case, warning flag, value of the "
                    "predicate `fresh construct == state`) was compared for equality between CovModel and the Lean model on Rat; "
                    "distinct = different (class, lat-lon, temporal, dim, setter, outcome, scalar/list form, list length)",
            "samples": samples, "disagreements": disagreements[:10], "distribution": dist}


# ------------------------------------------------------------------ implementation-side search (no Lean model involved)
def snapshot(m):
    d = {}
    for k, v in m.__dict__.items():
        d[k] = copy.copy(v) if isinstance(v, (np.ndarray, list, dict)) else v
    d["_opt_arg_bounds"] = {k: copy.copy(v) for k, v in m._opt_arg_bounds.items()}
    return d


def restore(m, snap):
    m.__dict__.clear()
    m.__dict__.update({k: (copy.copy(v) if isinstance(v, (np.ndarray, list, dict)) else v) for k, v in snap.items()})


def values_of(m):
    out = {"var": float(m.var), "var_raw": float(m.var_raw), "len_scale": float(m.len_scale),
           "anis": [float(a) for a in m.anis], "angles": [float(a) for a in m.angles], "nugget": float(m.nugget),
           "rescale": float(m.rescale), "dim": int(m.dim)}
    for o in m.opt_arg:
        out["opt:" + o] = float(getattr(m, o))
    for a, b in m.arg_bounds.items():
        out["bounds:" + a] = canon_bnd(b)
    return out


def vclose(a, b, rtol=1e-9):
    if isinstance(a, float) and isinstance(b, float):
        return a == b or abs(a - b) <= rtol * (abs(a) + abs(b)) or (math.isnan(a) and math.isnan(b))
    if isinstance(a, list) and isinstance(b, list) and (not a or isinstance(a[0], float)) and (not b or isinstance(b[0], float)):
        return len(a) == len(b) and all(vclose(x, y, rtol) for x, y in zip(a, b))
    return a == b


def derived_ok(m):
    """sill, per-axis scales, field / spatial dimension, numbers of ratios and angles, lat-lon / temporal structure"""
    d = int(m.dim)
    t = int(m.temporal)
    bad = []
    if not vclose(float(m.sill), float(m.var) + float(m.nugget)):
        bad.append("sill")
    lv = np.asarray(m.len_scale_vec, dtype=float)
    want = np.concatenate([[m.len_scale], m.len_scale * np.asarray(m.anis, dtype=float)])
    if lv.shape != (d,) or want.shape != (d,) or not np.allclose(lv, want, rtol=1e-12, atol=0):
        bad.append("len_scale_vec")
    if len(m.anis) != d - 1:
        bad.append("number of ratios")
    if len(m.angles) != d * (d - 1) // 2:
        bad.append("number of angles")
    if m.latlon:
        if d != 3 + t or m.field_dim != 2 + t or m.spatial_dim != 2:
            bad.append("lat-lon dimensions")
        if not np.all(np.asarray(m.anis)[:2] == 1.0) or np.any(np.asarray(m.angles) != 0):
            bad.append("lat-lon keeps space isotropic")
    else:
        if m.field_dim != d or m.spatial_dim != d - t:
            bad.append("field/spatial dim")
    if m.temporal and not m.latlon:
        sd = d - 1
        if np.any(np.asarray(m.angles)[sd * (sd - 1) // 2:] != 0):
            bad.append("rotation with the time axis")
    if not vclose(float(m.var), float(m.var_raw) * float(m.var_factor())):
        bad.append("var = var_raw * var_factor")
    return bad


def frame_allowed(k, name, cname):
    """which public values an assignment may change (documented couplings)"""
    tpl = cname in TPL
    if k == "var":
        return {"var", "var_raw"}
    if k == "var_raw":
        return {"var", "var_raw"}
    if k == "nugget":
        return {"nugget"}
    if k == "len_scale":
        return {"len_scale", "anis"} | ({"var"} if tpl else set())        # a list redefines the anisotropy; TPL variance follows
    if k == "integral_scale":
        return {"len_scale", "anis"} | ({"var"} if tpl else set())
    if k == "anis":
        return {"anis"}
    if k == "angles":
        return {"angles"}
    if k == "rescale":
        return {"rescale"} | ({"var"} if tpl else set())
    if k == "dim":
        return {"dim", "anis", "angles"}
    if k == "opt":
        return {"opt:" + name} | ({"var"} if tpl else set())
    return set()


def expected_after(op, before, m):
    """documentation-derived oracle for the re-normalising setters: which ratios / angles / main length scale the
    model must hold after a successful `anis`, `angles`, `len_scale` or `dim` assignment (pad rules, edge padding,
    lat-lon isotropy, no rotation with the time axis); returns a list of complaints"""
    k = op["k"]
    d, t, ll = int(m.dim), int(m.temporal), bool(m.latlon)
    na = d * (d - 1) // 2
    bad = []

    def iso(a):
        a = list(a)
        if ll:
            a[:2] = [1.0] * min(2, len(a))
        return a

    def ang(v):
        if ll:
            return [0.0] * na
        v = list(v)[:na]
        v = v + [0.0] * (na - len(v))
        if t:
            k0 = (d - 1) * (d - 2) // 2
            v = v[:k0] + [0.0] * (na - k0)
        return v

    def pad_anis(v):
        v = list(v)[: d - 1]
        return [1.0] * (d - 1 - len(v)) + v

    if k == "anis":
        want = iso(pad_anis(op["vs"]))
        if not vclose([float(x) for x in m.anis], want):
            bad.append(f"anis {list(m.anis)} != {want}")
        if not vclose(float(m.len_scale), before["len_scale"]):
            bad.append("len_scale changed")
    elif k == "angles":
        want = ang(op["vs"])
        if not vclose([float(x) for x in m.angles], want):
            bad.append(f"angles {list(m.angles)} != {want}")
    elif k == "len_scale":
        v = list(op["vs"])[:d]
        if not vclose(float(m.len_scale), float(v[0])):
            bad.append(f"len_scale {m.len_scale} != {v[0]}")
        if len(v) > 1:
            v = v + [v[-1]] * (d - len(v))
            want = iso([x / v[0] for x in v[1:]])
        else:
            want = before["anis"]
        if not vclose([float(x) for x in m.anis], want):
            bad.append(f"anis {list(m.anis)} != {want}")
    elif k == "dim":
        want = pad_anis(before["anis"])
        if ll:
            want = before["anis"]
        if not vclose([float(x) for x in m.anis], want):
            bad.append(f"anis {list(m.anis)} != {want}")
        if not vclose([float(x) for x in m.angles], ang(before["angles"])):
            bad.append(f"angles {list(m.angles)} != {ang(before['angles'])}")
    return bad


def sgen_value(rng, kind):
    if rng.rand() < 0.5:
        return float(pick(rng, DYAD))
    if kind == "pos":
        return float(np.exp(rng.uniform(-2, 2)))
    return float(rng.uniform(-3, 3))


def sgen_op(rng, cname, m):
    bad = rng.rand() < 0.25
    k = pick(rng, ["dim", "var", "var_raw", "nugget", "len_scale", "len_scale", "anis", "angles", "rescale", "opt", "opt",
                   "integral_scale", "arg_bounds"])
    if k == "dim":
        return {"k": k, "d": int(pick(rng, [0, -1]) if bad and rng.rand() < 0.3 else rng.randint(1, 5))}
    if k in ("var", "var_raw"):
        return {"k": k, "v": float(pick(rng, [0.0, -1.0, -0.3])) if bad else sgen_value(rng, "pos")}
    if k == "nugget":
        return {"k": k, "v": float(pick(rng, [-0.5, -1e-9])) if bad else float(pick(rng, [0.0, 0.1, 0.5, 2.0]))}
    if k in ("len_scale", "integral_scale"):
        n = int(pick(rng, [1, 1, 1, 2, 3, 4]))
        vs = [sgen_value(rng, "pos") for _ in range(n)]
        if bad:
            vs[0] = float(pick(rng, [0.0, -1.0])) if n == 1 else vs[0]
            if n > 1:
                vs[-1] = float(pick(rng, [0.0, -1.0]))
        return {"k": k, "vs": vs, "scalar": n == 1 and rng.rand() < 0.7}
    if k == "anis":
        n = int(pick(rng, [1, 1, 2, 3]))
        vs = [sgen_value(rng, "pos") for _ in range(n)]
        if bad:
            vs[int(rng.randint(n))] = float(pick(rng, [0.0, -1.0]))
        return {"k": k, "vs": vs, "scalar": n == 1 and rng.rand() < 0.6}
    if k == "angles":
        n = int(pick(rng, [1, 1, 2, 3, 6]))
        return {"k": k, "vs": [float(rng.uniform(-3, 3)) for _ in range(n)], "scalar": n == 1 and rng.rand() < 0.6}
    if k == "rescale":
        return {"k": k, "v": pick(rng, [None, 0.5, 2.0, 1.0, -3.0, float(np.exp(rng.uniform(-1, 1)))])}
    if k == "opt":
        if not m.opt_arg:
            return {"k": "nugget", "v": 0.25}
        name = pick(rng, list(m.opt_arg_bounds))
        b = list(m.opt_arg_bounds[name])
        lo, hi = float(b[0]), float(b[1])
        typ = b[2] if len(b) == 3 else "cc"
        if bad:
            cands = [lo - 0.5, hi + 0.5] + ([lo] if typ[0] == "o" else []) + ([hi] if typ[1] == "o" else [])
        else:
            cands = ([lo] if typ[0] == "c" else []) + ([hi] if typ[1] == "c" else [])
            a = lo if math.isfinite(lo) else -2.0
            z = hi if math.isfinite(hi) else a + 4.0
            cands += [a + (z - a) * float(rng.uniform(0.05, 0.95)) for _ in range(3)]
        v = float(pick(rng, [c for c in cands if math.isfinite(c)] or [1.0]))
        if name == "hurst" and v <= 0:
            v = 1.25   # hurst <= 0 divides by zero inside var_factor (numpy nan); outside this property
        return {"k": k, "name": name, "v": v}
    if k == "arg_bounds":
        args = ["var", "len_scale", "nugget", "anis"] + [o for o in m.opt_arg_bounds if o != "hurst"]
        a = pick(rng, args)
        lo = float(pick(rng, [0.0, 0.25, 0.5, 1.0, 2.0]))
        hi = lo + float(pick(rng, [0.5, 1.0, 4.0, 16.0]))
        if rng.rand() < 0.3:
            hi = None
        return {"k": k, "check": True, "bs": [dict(arg=a, lo=lo, hi=hi, typ=pick(rng, ["", "cc", "co", "oc", "oo"]))]}
    raise KeyError(k)


def value_out_of_bounds(m, op):
    """oracle: is the assigned value itself outside the bounds currently set for that parameter?"""
    def outside(v, b):
        b = list(b)
        typ = b[2] if len(b) == 3 else "cc"
        lo_ok = v >= b[0] if typ[0] == "c" else v > b[0]
        hi_ok = v <= b[1] if typ[1] == "c" else v < b[1]
        return not (lo_ok and hi_ok)
    k = op["k"]
    if k == "var":
        return outside(op["v"], m.var_bounds)
    if k == "nugget":
        return outside(op["v"], m.nugget_bounds)
    if k == "len_scale":
        return outside(op["vs"][0], m.len_scale_bounds)
    if k == "opt":
        return outside(op["v"], m.opt_arg_bounds[op["name"]])
    if k == "var_raw":
        vf = float(m.var_factor())
        return outside(op["v"] * vf, m.var_bounds)
    return False


_BEH_RNG = np.random.RandomState(1414)
_BEH_U = _BEH_RNG.rand(6, 5)          # fixed pseudo-random unit-cube coordinates (up to 6 rows, 5 points)


_BEH_CALLS = [0]


def behaviour_diff(m, f):
    """first public geometric / covariance behaviour on which the live model `m` differs from the freshly constructed `f`
    (both have equal observable state at this point), else None.  This is what 'the model equals one constructed directly'
    means for a user: a stale internal cache would not show in the attributes."""
    def both(fn):
        out = []
        for obj in (m, f):
            try:
                with warnings.catch_warnings():
                    warnings.simplefilter("ignore")
                    out.append(("ok", np.asarray(fn(obj), dtype=float)))
            except Exception as e:   # noqa
                out.append(("err", type(e).__name__))
        return out

    def differs(fn):
        a, b = both(fn)
        if a[0] != b[0]:
            return True
        if a[0] == "err":
            return a[1] != b[1]
        return a[1].shape != b[1].shape or not np.allclose(a[1], b[1], rtol=1e-9, atol=1e-12, equal_nan=True)

    fd = int(m.field_dim)
    if m.latlon:
        X = np.vstack([_BEH_U[0] * 160 - 80, _BEH_U[1] * 340 - 170] + ([_BEH_U[2] * 10] if m.temporal else []))
    else:
        X = _BEH_U[:fd] * 10 - 5
    ls = float(m.len_scale)
    r = np.array([0.0, 0.3, 1.0, 4.0]) * ls
    tests = [("isometrize", lambda o: o.isometrize(X)), ("anisometrize", lambda o: o.anisometrize(o.isometrize(X))),
             ("variogram", lambda o: o.variogram(r)), ("cov_nugget", lambda o: o.cov_nugget(r)),
             ("len_scale_vec", lambda o: o.len_scale_vec), ("sill", lambda o: o.sill),
             ("var", lambda o: o.var), ("var_raw", lambda o: o.var_raw)]
    _BEH_CALLS[0] += 1
    if _BEH_CALLS[0] % 6 == 0:       # numerical integrations: on every sixth comparison (a stale derived value survives until it is read)
        tests += [("integral_scale", lambda o: o.integral_scale), ("integral_scale_vec", lambda o: o.integral_scale_vec)]
    if m.latlon:
        tests.append(("vario_yadrenko", lambda o: o.vario_yadrenko(np.array([0.0, 0.2, 1.0, 3.0]))))
    else:
        tests += [("main_axes", lambda o: o.main_axes()), ("cov_spatial", lambda o: o.cov_spatial(X)),
                  ("vario_spatial", lambda o: o.vario_spatial(X))]
        for ax in range(int(m.dim)):
            tests.append((f"vario_axis", lambda o, ax=ax: o.vario_axis(r, axis=ax)))
    for name, fn in tests:
        if differs(fn):
            return name
    return None


def history_search(ctx, n_hist, n_ops):
    rng = np.random.RandomState(ctx.seed + 1400)
    viol, ev = [], 0
    seen = set()

    def add(key, what, case):
        if key in seen and len([v for v in viol if v["key"] == key]) >= 2:
            return
        seen.add(key)
        viol.append({"key": key, "what": what, "case": case})

    with stub_sft(True):
        for h in range(n_hist):
            cname = CLASSES[h % len(CLASSES)]
            _, latlon, temporal = CONFIGS[(h // len(CLASSES)) % 4]
            cfg = gen_cfg(rng, cname, latlon, temporal)
            if rng.rand() < 0.5:  # non-dyadic start values
                cfg["var"], cfg["nugget"] = float(np.exp(rng.uniform(-1, 1))), float(rng.uniform(0, 1))
                if len(cfg["len_scale"]) == 1:
                    cfg["len_scale"] = [float(np.exp(rng.uniform(-1, 2)))]
            m, err, aw, other = build(cname, cfg)
            ev += 1
            if m is None:
                continue
            bounds_dim = int(m.dim)
            hist = []
            touched_bounds = False
            for _ in range(n_ops):
                op = sgen_op(rng, cname, m)
                if op["k"] == "integral_scale" and cname not in INTSCALE_EXACT and rng.rand() < 0.7:
                    continue   # numerical integral scales (quad) are slow; sample them
                before = values_of(m)
                snap = snapshot(m)
                oob = value_out_of_bounds(m, op)
                with np.errstate(all="ignore"):
                    e, w, oth = apply_op(m, op)
                ev += 1
                hist.append(op)
                case = {"cls": cname, "cfg": {k: v for k, v in cfg.items() if not k.endswith("_scalar")}, "ops": list(hist)}
                param = op.get("name") or {"arg_bounds": "set_arg_bounds"}.get(op["k"], op["k"])
                if op["k"] == "arg_bounds":
                    touched_bounds = True
                try:
                    after = values_of(m)
                except Exception as ex:
                    add("state-unreadable:" + param, f"{type(ex).__name__}: {ex}", case)
                    break
                if e is not None and not isinstance(e, ValueError):
                    add("unexpected-exception:" + param, f"{type(e).__name__}: {e}", case)
                # (1) values outside their bounds are always rejected
                if oob and e is None:
                    add("out-of-bounds-accepted:" + param, f"{op} accepted although outside the bounds", case)
                if e is not None:
                    # (2) a rejected assignment leaves the model unchanged  (D13 when it does not)
                    changed = sorted(k for k in after if not vclose(after[k], before.get(k)))
                    if changed:
                        add("setter-stores-before-check:" + param,
                            f"`{op['k']}` raised {type(e).__name__} ({str(e)[:60]}) but the model was changed: "
                            + ", ".join(f"{c}: {before.get(c)} -> {after[c]}" for c in changed[:3]), case)
                    restore(m, snap)
                    continue
                # (3) reachable states are inside their bounds
                arg = py_in_bounds(m)
                if arg is not None and op["k"] == "rescale":
                    # the rescale setter has no check_arg_bounds(); for TPL classes it moves the variance
                    add("rescale-setter-skips-bounds-check:" + cname,
                        f"`m.rescale = {op['v']}` accepted without error, but {arg} = {after.get(arg)} is now outside its bounds "
                        f"{list(m.arg_bounds[arg])} (var follows rescale for TPL models); every later assignment raises", case)
                    restore(m, snap)
                    continue
                if arg is not None:
                    add("accepted-state-out-of-bounds:" + arg, f"after `{op}` the value of {arg} is outside its bounds", case)
                # (4) derived quantities, and the documented re-normalisation rules
                for b in derived_ok(m):
                    add("derived:" + b, f"after `{op}`: inconsistent {b}", case)
                for b in expected_after(op, before, m):
                    add("renormalisation:" + op["k"], f"after `{op}`: {b}", case)
                # (4b) set_arg_bounds(check_args=True): a value outside the new bounds is replaced by the documented default
                if op["k"] == "arg_bounds":
                    b = op["bs"][0]
                    a = b["arg"]
                    old = before["var" if a == "var" else ("opt:" + a if "opt:" + a in before else a)]
                    olds = old if isinstance(old, list) else [old]
                    lo = -math.inf if b["lo"] is None else b["lo"]
                    hi = math.inf if b["hi"] is None else b["hi"]
                    typ = b["typ"] or "cc"
                    was_out = any(not ((v >= lo if typ[0] == "c" else v > lo) and (v <= hi if typ[1] == "c" else v < hi)) for v in olds)
                    new = after["var" if a == "var" else ("opt:" + a if "opt:" + a in after else a)]
                    if was_out:
                        want = default_from(b)
                        news = new if isinstance(new, list) else [new]
                        if a == "anis" and m.latlon:
                            pass   # lat-lon keeps the spatial ratios at 1
                        elif not all(vclose(float(v), float(want)) for v in news):
                            add("set-arg-bounds-default:" + a, f"after `{op}`: {a} = {new}, documented default {want}", case)
                    elif not vclose(new, old):
                        add("set-arg-bounds-changed-valid-value:" + a, f"after `{op}`: {a} {old} -> {new}", case)
                # (5) an assignment changes nothing but its own parameter and the documented couplings
                if op["k"] != "arg_bounds":
                    allowed = frame_allowed(op["k"], op.get("name"), cname)
                    extra = sorted(k for k in after if k not in allowed and not vclose(after[k], before.get(k)))
                    if extra:
                        add("silent-change:" + param + "->" + extra[0].split(":")[0],
                            f"`{op}` changed " + ", ".join(f"{c}: {before.get(c)} -> {after[c]}" for c in extra[:3]), case)
                # (6) the model equals one constructed directly with the resulting values
                fixlat = cname.startswith("UserFix") and m.latlon and int(m.dim) != int(cname[-1])
                if py_in_bounds(m) is None and not fixlat:
                    # (a fixed-dimension user class on a lat-lon configuration has dim 3/4 but can only be
                    #  constructed with dim=fix_dim: not a setter issue, skipped)
                    fp, fobs = fixed_point(cname, m, exact=False)
                    ev += 1
                    stale = cname in DIMDEP and int(m.dim) != bounds_dim
                    if fp != 0 and touched_bounds:
                        if fp == 1:
                            fp = 0   # values inside user bounds but outside the defaults cannot be constructed directly
                        else:        # constructed models carry default bounds: compare the values only
                            a = observe(m)
                            keys = [k for k in a if "bounds" not in k and k != "opt"]
                            if all(_close(a[k], fobs[k], 1e-9) for k in keys) and len(a["opt"]) == len(fobs["opt"]) and \
                                    all(x[0] == y[0] and _close(x[1], y[1], 1e-9) for x, y in zip(a["opt"], fobs["opt"])):
                                fp = 0
                    if fp == 0:
                        # (7) ... and BEHAVES like it (stale internal caches do not show in the attributes)
                        try:
                            with warnings.catch_warnings():
                                warnings.simplefilter("ignore")
                                fm = fresh_like(cname, m)
                            bd = behaviour_diff(m, fm)
                        except ValueError:
                            bd = None
                        ev += 1
                        if bd is not None:
                            add("history-dependent-behaviour:" + bd,
                                f"after `{op}` the model has the attributes of a freshly constructed one but its `{bd}` differs", case)
                    if fp != 0:
                        if stale:
                            add("stale-dim-dependent-bounds:" + cname,
                                f"{cname} built for dim {bounds_dim}, now dim {m.dim}: bounds of nu are {m.opt_arg_bounds['nu']}, "
                                f"a fresh model " + ("rejects nu=%s" % getattr(m, 'nu') if fp == 1 else "has different bounds"), case)
                        else:
                            add("history-dependent-state:" + param,
                                f"after `{op}` the model differs from one constructed with its values (fixed_point={fp})", case)
    return ev, viol


def boundary_search(ctx):
    """every class x every bounded argument: exactly on / just outside each finite bound (real doubles 0.1, 0.2 included)"""
    viol, ev = [], 0
    with stub_sft(True):
        for cname in CLASSES:
            for _, latlon, temporal in CONFIGS:
                for dim in (1, 2, 3, 4):
                    with warnings.catch_warnings():
                        warnings.simplefilter("ignore")
                        try:
                            m = get_class(cname)(dim=dim, latlon=latlon, temporal=temporal)
                        except ValueError as ex:
                            if not (cname.startswith("UserFix") and latlon):   # fixed-dimension class on lat-lon: documented error
                                viol.append({"key": "default-model-rejected:" + cname, "what": f"{cname}(dim={dim}, latlon={latlon}, "
                                             f"temporal={temporal}) raises {ex}", "case": {"cls": cname, "dim": dim}})
                            continue
                    ev += 1
                    for arg, b in m.arg_bounds.items():
                        if arg == "anis":
                            continue
                        b = list(b)
                        typ = b[2] if len(b) == 3 else "cc"
                        for side, x, closed in ((0, b[0], typ[0] == "c"), (1, b[1], typ[1] == "c")):
                            if not math.isfinite(x):
                                continue
                            out = np.nextafter(x, -np.inf) if side == 0 else np.nextafter(x, np.inf)
                            for v, must_raise in ((float(x), not closed), (float(out), True)):
                                if arg == "hurst" and v <= 0:
                                    continue
                                snap = snapshot(m)
                                with np.errstate(all="ignore"), warnings.catch_warnings():
                                    warnings.simplefilter("ignore")
                                    try:
                                        setattr(m, arg, v)
                                        raised = False
                                    except ValueError:
                                        raised = True
                                ev += 1
                                if raised != must_raise:
                                    viol.append({"key": ("out-of-bounds-accepted:" if must_raise else "valid-value-rejected:") + arg,
                                                 "what": f"{cname}(dim={dim}).{arg} = {v!r} with bounds {b}: raised={raised}",
                                                 "case": {"cls": cname, "dim": dim, "latlon": latlon, "temporal": temporal, "arg": arg, "v": v}})
                                restore(m, snap)
    return ev, viol


def _directed_search():
    """the known findings as fixed replays on the real code (D13, D8) + the fixed D7"""
    import gstools as gs
    viol, ev = [], 0
    # D13
    for param, mk, v in (("var", lambda: gs.Exponential(dim=2), -1.0), ("nugget", lambda: gs.Exponential(dim=2), -1.0),
                         ("len_scale", lambda: gs.Exponential(dim=2), -2.0), ("alpha", lambda: gs.Stable(dim=2), 3.0),
                         ("var_raw", lambda: gs.Exponential(dim=2), -1.0)):
        m = mk()
        before = values_of(m)
        try:
            setattr(m, param, v)
            viol.append({"key": "out-of-bounds-accepted:" + param, "what": f"{param}={v} accepted", "case": {"param": param, "v": v}})
        except ValueError:
            after = values_of(m)
            if after != before:
                viol.append({"key": "setter-stores-before-check:" + param,
                             "what": f"m.{param} = {v} raises ValueError but leaves m.{param} == {getattr(m, param)}",
                             "case": {"cls": type(m).__name__, "param": param, "v": v}})
        ev += 1
    m = gs.JBessel(dim=3, nu=1.0)
    ls = float(m.len_scale)
    try:
        with warnings.catch_warnings():
            warnings.simplefilter("ignore")
            m.integral_scale = 2.0
    except ValueError:
        if float(m.len_scale) != ls:
            viol.append({"key": "setter-stores-before-check:integral_scale",
                         "what": f"JBessel(dim=3, nu=1).integral_scale = 2 raises ValueError after changing len_scale {ls} -> {float(m.len_scale)}",
                         "case": {"cls": "JBessel", "param": "integral_scale", "v": 2.0}})
    ev += 1
    # D8
    for cname, kw, newdim in (("JBessel", dict(dim=1, nu=0.0), 3), ("SuperSpherical", dict(dim=1, nu=0.0), 3),
                              ("TPLSimple", dict(dim=1, nu=1.0), 3)):
        with warnings.catch_warnings():
            warnings.simplefilter("ignore")
            m = getattr(gs, cname)(**kw)
            try:
                m.dim = newdim
                accepted = True
            except ValueError:
                accepted = False
            try:
                getattr(gs, cname)(dim=newdim, nu=kw["nu"])
                fresh_ok = True
            except ValueError:
                fresh_ok = False
        ev += 1
        if accepted and not fresh_ok:
            viol.append({"key": "stale-dim-dependent-bounds:" + cname,
                         "what": f"m = {cname}({kw}); m.dim = {newdim} is accepted (bounds of nu stay {m.opt_arg_bounds['nu']}) "
                                 f"but {cname}(dim={newdim}, nu={kw['nu']}) is rejected",
                         "case": {"cls": cname, "kw": kw, "dim": newdim}})
    # rescale setter without bounds check: on TPL models the variance follows rescale and can leave user-set bounds
    for cname in TPL:
        m = getattr(gs, cname)(dim=2, var=4.0, len_scale=1.0, hurst=0.5)
        m.set_arg_bounds(var=[2.0, 6.0])
        m.rescale = 0.25
        ev += 1
        if py_in_bounds(m) is not None:
            viol.append({"key": "rescale-setter-skips-bounds-check:" + cname,
                         "what": f"m = {cname}(dim=2, var=4, hurst=0.5); m.set_arg_bounds(var=[2, 6]); m.rescale = 0.25 is accepted without "
                                 f"error but m.var == {float(m.var)} is outside [2, 6]; every later assignment raises",
                         "case": {"cls": cname, "var_bounds": [2.0, 6.0], "rescale": 0.25}})
    # D7 (fixed): time anisotropy survives len_scale / integral_scale on lat-lon + temporal models
    m = gs.Exponential(latlon=True, temporal=True, anis=[1, 1, 4.0])
    m.len_scale = 2.0
    m2 = gs.Exponential(latlon=True, temporal=True, anis=[1, 1, 4.0], integral_scale=2.0)
    ev += 2
    if float(m.anis[-1]) != 4.0 or float(m2.anis[-1]) != 4.0:
        viol.append({"key": "latlon-temporal-len-scale-resets-time-anis", "what": f"time anisotropy {m.anis} / {m2.anis} after len_scale / integral_scale",
                     "case": {"cls": "Exponential"}})
    return ev, viol


def directed_search():
    try:
        with warnings.catch_warnings():
            warnings.simplefilter("ignore")
            return _directed_search()
    except Exception as ex:   # the replays use plain default models; they must construct
        return 1, [{"key": "directed-replay-exception", "what": f"{type(ex).__name__}: {ex}", "case": {}}]


def constructor_search(ctx):
    """constructor argument combinations against the setter route: a model constructed with (var | var_raw) together with
    (len_scale | integral_scale), optional arguments, rescale, anis has exactly the requested values, and equals the model reached
    by constructing with defaults and assigning the same values through the setters (var last)"""
    import gstools as gs
    rng = np.random.RandomState(ctx.seed + 1441)
    viol, ev = [], 0
    names = ["Gaussian", "Exponential", "Stable", "Matern", "Rational", "Spherical", "Cubic", "TPLGaussian", "TPLExponential", "TPLStable", "TPLSimple"]
    optn = {"Stable": {"alpha": 1.3}, "Matern": {"nu": 1.7}, "Rational": {"alpha": 2.2}, "TPLGaussian": {"hurst": 0.35},
            "TPLExponential": {"hurst": 0.7}, "TPLStable": {"hurst": 0.4, "alpha": 1.4}, "TPLSimple": {"nu": 3.0}}
    with warnings.catch_warnings():
        warnings.simplefilter("ignore")
        for cname in names:
            cls = getattr(gs, cname)
            for latlon, temporal in ((False, False), (False, True), (True, False)):
                for trial in range(ctx.scale(2, 8)):
                    dim = 3 if latlon else int(rng.randint(1, 4))
                    if cname == "TPLSimple":
                        dim = min(dim, 2) if not latlon else dim
                    v = float(rng.choice([0.5, 2.5, round(float(np.exp(rng.uniform(-1, 1.5))), 3)]))
                    I = float(rng.choice([1.5, 8.0, round(float(np.exp(rng.uniform(-1, 2))), 3)]))
                    kw = dict(optn.get(cname, {}))
                    if rng.rand() < 0.4:
                        kw["rescale"] = float(rng.choice([0.5, 2.0]))
                    geo = dict(latlon=latlon, temporal=temporal) if (latlon or temporal) else {}
                    if cname == "TPLSimple" and latlon:
                        continue
                    use_raw = rng.rand() < 0.3
                    vkw = {"var_raw": v} if use_raw else {"var": v}
                    case = dict(cls=cname, dim=dim, integral_scale=I, **vkw, **kw, **geo)
                    try:
                        m = cls(dim=dim, integral_scale=I, **vkw, **kw, **geo)
                    except ValueError:
                        continue
                    ev += 1
                    got_v = float(m.var_raw if use_raw else m.var)
                    if not np.isclose(got_v, v, rtol=1e-9, atol=0):
                        viol.append({"key": "constructor:var-with-integral_scale", "case": case,
                                     "what": f"{cname}(…, {'var_raw' if use_raw else 'var'}={v}, integral_scale={I}) reports {'var_raw' if use_raw else 'var'} = {got_v}"})
                    if not np.isclose(float(m.integral_scale), I, rtol=1e-6):
                        viol.append({"key": "constructor:integral_scale-not-met", "case": case,
                                     "what": f"{cname}(…, integral_scale={I}) reports integral_scale = {float(m.integral_scale)}"})
                    try:
                        m2 = cls(dim=dim, **kw, **geo)
                        m2.integral_scale = I
                        if use_raw:
                            m2.var_raw = v
                        else:
                            m2.var = v
                        a, b = observe(m), observe(m2)
                        if not obs_close(a, b, 1e-9):
                            viol.append({"key": "constructor:differs-from-setter-route", "case": case,
                                         "what": f"{cname} constructed with var and integral_scale differs from the model reached by the setters (integral_scale, then var)"})
                    except ValueError:
                        pass
    return ev, viol


def alias_search(ctx):
    """the state of a model is a function of the VALUES it was given, never of the identity of the arrays that carried them:
    (1) assigning an ndarray read from another model's (or the model's own) getter — anis, angles, len_scale_vec, integral_scale_vec —
        or passing it to a constructor must act exactly like assigning a list of the same numbers;
    (2) whatever happens to the receiving model afterwards (setters, dimension changes, the zeroing of space-time angles of temporal
        models, rejected assignments) must leave the donor model and the caller's array untouched, and vice versa;
    (3) values read earlier from a getter and written back later ('saved = m.angles; ...; m.angles = saved') restore that state."""
    import gstools as gs
    rng = np.random.RandomState(ctx.seed + 1451)
    viol, ev = [], 0
    names = ["Gaussian", "Exponential", "Matern", "Stable", "Spherical", "TPLStable"]

    def full(mdl):
        return dict(values_of(mdl), len_vec=[float(x) for x in mdl.len_scale_vec])

    def same(a, b):
        return a.keys() == b.keys() and all(vclose(a[k], b[k], 1e-12) for k in a)

    def mk(cname, dim, temporal, **kw):
        cls = getattr(gs, cname)
        if temporal:
            return cls(spatial_dim=dim - 1, temporal=True, **kw)
        return cls(dim=dim, **kw)

    def later_ops(mdl, k):
        d0 = int(mdl.dim)
        if k == 0:
            mdl.angles = [0.5] * len(mdl.angles)
        elif k == 1:
            mdl.anis = 0.25
        elif k == 2 and not mdl.temporal and d0 > 1:
            mdl.dim = d0 - 1
            mdl.dim = d0
        elif k == 3:
            mdl.len_scale = [3.0, 1.0]
        elif k == 4:
            try:
                mdl.anis = -1.0
            except ValueError:
                pass

    with warnings.catch_warnings():
        warnings.simplefilter("ignore")
        for trial in range(ctx.scale(60, 500)):
            cname = names[trial % len(names)]
            dim = int(rng.randint(2, 5))
            if cname == "TPLStable":
                dim = min(dim, 3)
            t_don, t_rec = bool(rng.rand() < 0.3), bool(rng.rand() < 0.5)
            n_ang = {2: 1, 3: 3, 4: 6}[dim]
            ang = [float(x) for x in np.round(rng.uniform(-1.2, 1.2, n_ang), 3)]
            ani = [float(x) for x in rng.choice([0.3, 0.7, 1.0, 1.8], size=dim - 1)]
            attr = ["angles", "anis", "len_scale_vec", "angles", "angles"][int(rng.randint(5))]
            case = dict(cls=cname, dim=dim, donor_temporal=t_don, receiver_temporal=t_rec, attribute=attr, angles=ang, anis=ani)
            try:
                donor = mk(cname, dim, t_don, len_scale=2.0, anis=ani, angles=ang)
                before = full(donor)
                arr = getattr(donor, attr)                       # what a user reads from a model
                vals = [float(x) for x in np.asarray(arr)]
                target = "len_scale" if attr == "len_scale_vec" else attr
                via_ctor = bool(rng.rand() < 0.4)
                if via_ctor:
                    rec_a = mk(cname, dim, t_rec, **({"len_scale": 2.0} if target != "len_scale" else {}), **{target: arr})
                    rec_l = mk(cname, dim, t_rec, **({"len_scale": 2.0} if target != "len_scale" else {}), **{target: list(vals)})
                else:
                    rec_a, rec_l = mk(cname, dim, t_rec, len_scale=2.0), mk(cname, dim, t_rec, len_scale=2.0)
                    setattr(rec_a, target, arr)
                    setattr(rec_l, target, list(vals))
                ev += 1
                case["route"] = "constructor" if via_ctor else "setter"
                if not same(full(rec_a), full(rec_l)):
                    viol.append({"key": f"aliasing:array-vs-list:{attr}", "case": case,
                                 "what": f"giving a model the ndarray read from another model's `{attr}` does not act like giving the list of the same numbers"})
                if not same(full(donor), before) or [float(x) for x in np.asarray(arr)] != vals:
                    viol.append({"key": f"aliasing:donor-changed:{attr}", "case": case,
                                 "what": f"reading `{attr}` from one model and giving it to another ({case['route']}) changed the first model / the array read from it"})
                    continue
                k = int(rng.randint(5))
                case["later"] = k
                snap_rec = full(rec_a)
                later_ops(rec_a, k)
                if not same(full(donor), before) or [float(x) for x in np.asarray(arr)] != vals:
                    viol.append({"key": f"aliasing:donor-changed-later:{attr}", "case": case,
                                 "what": "a later change of the receiving model changed the model the values were read from / the array"})
                    continue
                rec_b = mk(cname, dim, t_rec, len_scale=2.0)
                setattr(rec_b, target, getattr(donor, attr))
                snap_b = full(rec_b)
                later_ops(donor, k)
                if not same(full(rec_b), snap_b):
                    viol.append({"key": f"aliasing:receiver-changed-later:{attr}", "case": case,
                                 "what": "a later change of the model the values were read from changed the receiving model"})
                # (4) a caller-owned array (full length, float64) is an input, not shared state: the caller may go on using it
                for tgt, vals4 in (("anis", ani), ("angles", ang), ("len_scale", [2.0] + [2.0 * a for a in ani])):
                    buf = np.array(vals4, dtype=float)
                    recv = mk(cname, dim, t_rec, len_scale=2.0)
                    try:
                        setattr(recv, tgt, buf)
                    except ValueError:
                        continue
                    snap4 = full(recv)
                    buf *= -3.0
                    buf += 0.5
                    ev += 1
                    if not same(full(recv), snap4):
                        viol.append({"key": f"aliasing:caller-array-shared:{tgt}", "case": dict(case, target=tgt),
                                     "what": f"after `model.{tgt} = array` a later in-place change of the caller's array changed the model "
                                             "(no assignment, no bounds check)"})
                # (3) save / change / write back on ONE model
                m = mk(cname, dim, t_rec, len_scale=2.0, anis=ani, angles=ang)
                ref = full(m)
                saved_ang, saved_anis = m.angles, m.anis
                later_ops(m, int(rng.randint(3)))
                m.angles = [0.0] * len(m.angles)
                m.anis = [1.0] * len(m.anis)
                m.len_scale = 2.0
                m.anis = saved_anis
                m.angles = saved_ang
                ev += 1
                if not same(full(m), ref):
                    viol.append({"key": "aliasing:save-and-restore", "case": case,
                                 "what": "values read from the getters (anis, angles), kept, and written back after other changes do not restore the state"})
            except Exception as ex:
                viol.append({"key": "aliasing:exception", "case": case, "what": f"{type(ex).__name__}: {ex}"})
    return ev, viol


def tpl_var_search(ctx):
    """variance / intensity coupling of the truncated power law models against the documented closed form
    var = var_raw * ((len_up/rescale)^(2H) - (len_low/rescale)^(2H)) / (2H), len_up = len_low + len_scale, over Hurst coefficients (inside the default bounds (0.1, 1)),
    lower cut-offs from 0 through tiny positive values (1e-12 ... 1e-6: inside any absolute `isclose` band) to ordinary ones, rescale
    factors and length scales — after construction and after every assignment of a history (var, var_raw, len_low, hurst, len_scale,
    rescale), where `var_raw` must stay what was last fixed and `var` must follow."""
    import gstools as gs
    rng = np.random.RandomState(ctx.seed + 1461)
    viol, ev = [], 0

    def factor(H, ll, ls, rs):
        return (math.pow((ll + ls) / rs, 2 * H) - math.pow(ll / rs, 2 * H)) / (2 * H)

    hs = [0.11, 0.15, 0.25, 0.5, 0.75, 0.95]
    lows = [0.0, 1e-12, 1e-10, 1e-9, 5e-9, 1e-8, 2e-8, 1e-6, 1e-3, 0.5, 3.0]
    with warnings.catch_warnings():
        warnings.simplefilter("ignore")
        for trial in range(ctx.scale(120, 1200)):
            cname = ["TPLGaussian", "TPLExponential", "TPLStable"][trial % 3]
            H, ll = float(rng.choice(hs)), float(rng.choice(lows))
            ls, rs = float(rng.choice([0.5, 1.0, 4.0, 17.0])), float(rng.choice([1.0, 0.5, 4.0]))
            raw = float(rng.choice([1.0, 2.5, 0.3]))
            kw = dict(dim=int(rng.randint(1, 4)), hurst=H, len_low=ll, len_scale=ls, rescale=rs)
            case = dict(cls=cname, **kw)
            try:
                m = getattr(gs, cname)(var_raw=raw, **kw)
                ev += 1
                want = raw * factor(H, ll, ls, rs)
                if not (abs(float(m.var) - want) <= 1e-11 * abs(want) and abs(float(m.var_raw) - raw) <= 1e-13 * raw):
                    viol.append({"key": f"tpl-variance:construct:{cname}", "case": dict(case, var_raw=raw),
                                 "what": f"{cname}(var_raw={raw}, hurst={H}, len_low={ll}, len_scale={ls}, rescale={rs}): var = {float(m.var)!r}, "
                                         f"the documented closed form gives {want!r}"})
                    continue
                steps = []
                for _ in range(int(rng.randint(1, 5))):
                    k = ["var", "len_low", "hurst", "len_scale", "var_raw", "rescale"][int(rng.randint(6))]
                    if k == "var":
                        v = float(rng.choice([1.0, 3.0, 0.2])); m.var = v; raw = v / factor(H, ll, ls, rs)
                    elif k == "var_raw":
                        raw = float(rng.choice([1.0, 2.5, 0.3])); m.var_raw = raw
                    elif k == "len_low":
                        ll = float(rng.choice(lows)); m.len_low = ll
                    elif k == "hurst":
                        H = float(rng.choice(hs)); m.hurst = H
                    elif k == "len_scale":
                        ls = float(rng.choice([0.5, 1.0, 4.0, 17.0])); m.len_scale = ls
                    else:
                        rs = float(rng.choice([1.0, 0.5, 4.0])); m.rescale = rs
                    steps.append((k, dict(hurst=H, len_low=ll, len_scale=ls, rescale=rs)))
                    ev += 1
                    want = raw * factor(H, ll, ls, rs)
                    if not (abs(float(m.var) - want) <= 1e-10 * abs(want) and abs(float(m.var_raw) - raw) <= 1e-10 * abs(raw)):
                        viol.append({"key": f"tpl-variance:history:{cname}", "case": dict(case, steps=steps),
                                     "what": f"after {[s[0] for s in steps]} the model reports var = {float(m.var)!r}, var_raw = {float(m.var_raw)!r}; "
                                             f"the assignments and the closed form give var = {want!r}, var_raw = {raw!r}"})
                        break
            except Exception as ex:
                viol.append({"key": "tpl-variance:exception", "case": case, "what": f"{type(ex).__name__}: {ex}"})
    return ev, viol


def search(ctx, deep=False):
    f = 3 if deep else 1
    ev0, v0 = directed_search()
    ev1, v1 = boundary_search(ctx)
    ev2, v2 = history_search(ctx, ctx.scale(500, 8000) * f, 10 if ctx.quick else 16)
    ev3, v3 = constructor_search(ctx)
    ev4, v4 = alias_search(ctx)
    ev5, v5 = tpl_var_search(ctx)
    ev2 += ev3 + ev4 + ev5
    viol = v0 + v1 + v3 + v4 + v5 + v2
    # one violation per key is enough for the verdict; keep it small and stable
    out, seen = [], set()
    for v in viol:
        if v["key"] not in seen:
            seen.add(v["key"])
            out.append(v)
    return {"evaluations": ev0 + ev1 + ev2, "violations": out[:40],
            "summary": f"{ev0} directed replays (D13, D8, D7), {ev1} boundary assignments (every class x config x dim x bounded argument, "
                       f"on / one ulp outside each finite bound), {ev2} calls in random setter histories with arbitrary doubles checked "
                       "against an independent oracle: out-of-bounds rejected, rejected => unchanged, accepted => inside bounds, "
                       "derived quantities, frame conditions, equality with a freshly constructed model (state and behaviour); "
                       f"{ev3} constructor calls combining var / var_raw with integral_scale, optional arguments and rescale against the setter route; "
                       f"{ev4} transfers of getter arrays (anis, angles, len_scale_vec) between models / save-and-restore on one model: array == list of the "
                       "same numbers, donor and receiver independent afterwards; "
                       f"{ev5} truncated-power-law states (Hurst 0.11-0.95, lower cut-off 0 / 1e-12 ... 1e-6 / ordinary, rescale, histories) against the closed form of var / var_raw; "
                       f"violation keys: {sorted(seen)}"}


def replay(ctx, data):
    """./check C14 --replay replays/C14-xxxx.json : re-run the recorded histories on the real code and print what happens"""
    status = 0
    for v in data.get("violations", []) + [b.get("case", {}) for b in data.get("broken", []) if b.get("kind") == "correspondence"]:
        case = v.get("case", v)
        if "cfg" not in case:
            print("replay: directed case", v.get("key"), "-", v.get("what"))
            status = 1
            continue
        cfg = dict(case["cfg"])
        for key in ("len_scale", "anis", "angles"):
            cfg.setdefault(key, [1.0] if key != "angles" else [0.0])
        with stub_sft(True):
            m, err, aw, _ = build(case["cls"], cfg)
            print(f"replay: {case['cls']}({ {k: v for k, v in cfg.items() if not k.endswith('_scalar')} }) -> {canon_err(err) or 'ok'}")
            if m is None:
                continue
            for op in case.get("ops", []):
                before = values_of(m)
                e, w, _ = apply_op(m, op)
                after = values_of(m)
                changed = sorted(k for k in after if not vclose(after[k], before.get(k)))
                fp = fixed_point(case["cls"], m, exact=False)[0] if py_in_bounds(m) is None else None
                print(f"  {op} -> {canon_err(e) or 'ok'}; changed: {changed}; out of bounds: {py_in_bounds(m)}; fresh-construct check: {fp}")
                if (e is not None and changed) or (e is None and py_in_bounds(m) is not None) or fp not in (None, 0):
                    status = 1
    return status
