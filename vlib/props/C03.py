"""C03 — model functions are mutually consistent and match their documented closed forms.

correspondence (tie B): the real `CovModel` API (17 shipped classes + tiny user subclasses defined through
each of cor / correlation / covariance / variogram) against `GSV.Model.CovFn` run on Float by the driver:
derivation combinators, nugget / axis / yadrenko / spatial variants, elementary closed forms, integral scales
and the integral-scale setter.

search (independent of the Lean model): identities on the real API for every class over its whole bounds,
closed forms against mpmath at 30 digits, integral_scale against exact values / mpmath quadrature,
percentile_scale by substitution, nugget / axis / yadrenko / spatial variants against direct numpy.

Strengthened (seeded-change round): (1) tools/special.py — exp_int / inc_gamma / inc_gamma_low dispatch, tplstable_cor, TPL*.correlation
and Integral.cor are modelled (scipy primitives as parameters) and compared on orders derived from the branch conditions (on / 1-4 ulp
off / inside / at the edges of / just outside the np.isclose band of integers, half-integers, -0.5) and arguments through every x-branch;
the search compares the four exponential-integral classes and the helpers themselves with mpmath on the same systematic orders.
(2) read / change / read histories on one living object: derived quantities (integral_scale, integral_scale_vec, percentile_scale,
len_rescaled, function values) against a freshly built model and an independent quadrature of the current correlation, all shipped
classes + user classes with optional arguments; model side: GSV.Model.CovFn.mrun.
(3) scale functions under a non-default `rescale`: correspondence of percentile_scale with GSV.Model.CovFn.percentileScale (closed-form
percentile lag of the kernel x len_scale / rescale; theorems in Props/C03Pct for every rescale) on fresh models and after in-place histories
ending in `rescale = target`; search over all 17 classes x rescale {default, 0.3, 1.5, 2, 3} x {fresh, rescale changed in place}:
percentile_scale against an independent bracketing oracle (variogram value AND smallest positive lag), integral_scale against an independent
quadrature, integral_scale <-> len_scale round trip.  K3 keeps its keys only where the documented root search itself fails.
(4) wave 6: dense shape grids (every multiple of 1/2 of every shape argument, interval ends, dimension-dependent minima) on lags of both signs against
scipy-independent evaluations (search_dense_shapes) and, for Matern nu = p + 1/2 (p = 0..19), against GSV.Model.CovFn.maternHalfCor (corr_dense); signed lags
through every function / variant (search_signed; theorems fromCor_even ...); list-valued len_scale / integral_scale at construction and through the setter
(search_list_scales: *_vec, axis ratios, cor_axis = isotropic model of the axis, quadrature along every axis; listscale_case: GSV.Model.CovFn.setLenScaleList /
setIntegralScaleList, theorems in Props/C03List).
"""
import math
import warnings

import numpy as np

import proto

ASSUMPTIONS = [
    "closed forms of the special-function families (Matern, Integral, Hyper/SuperSpherical, JBessel, TPL*) are proved "
    "only on their elementary slices; elsewhere they are compared with mpmath (30 digits) by the search",
    "np.isclose(r, 0) is modelled as |r| <= 1e-8 (numpy defaults atol=1e-8, rtol irrelevant against 0)",
    "scipy.integrate.quad / scipy.optimize.root (integral_scale of classes without closed form, percentile_scale) "
    "are parameters: their results are checked by substitution, not modelled",
    "percentile_scale: the documented procedure (scipy.optimize.root on 1 - correlation - per from the start value per * len_rescaled) is carried out by the "
    "harness only to CLASSIFY a failure of the code: where that procedure itself does not reach the smallest positive root (peaked / oscillating models) the "
    "failure is the known finding K3, elsewhere it is a violation with its own key; the oracle deciding failure is the independent bracketing search",
    "the lag of the *_spatial variants comes from the Geo model (property C12)",
    "tools.special: scipy's exp1 / expn / gamma * gammaincc / gamma * gammainc are parameters of the model (Prims); the harness "
    "evaluates these leaves and the plan arithmetic of GSV.Model.CovFn.evalG / evalL, the model decides every branch; that the leaves "
    "are the exponential integral / incomplete gamma functions is checked against mpmath by the search, not proved",
    "orders inside the np.isclose band of an integer are compared with the documented formula AND with the integer-order formula the "
    "code evaluates there (known finding N4); just outside the band the tolerance includes the a-priori rounding error of the code's "
    "own recurrence (recurrence_error_bound), which grows like 1 / distance to the integer; for x > 30 it includes the first omitted term "
    "of the documented first-order asymptote (asymptote_error_bound: <= 7e-14 for orders <= 26, ~1e-12 for TPLStable orders ~ 100)",
    "read/change/read histories: the re-padding of anis on a dimension change is observed, not modelled (C14)",
]

EPS = 2.0 ** -52
ALL_CLASSES = ["Gaussian", "Exponential", "Matern", "Integral", "Stable", "Rational", "Cubic", "Linear", "Circular",
               "Spherical", "HyperSpherical", "SuperSpherical", "JBessel", "TPLGaussian", "TPLExponential",
               "TPLStable", "TPLSimple"]
TPL3 = ("TPLGaussian", "TPLExponential", "TPLStable")
MAXDIM = {"Linear": 1, "Circular": 2, "Cubic": 3, "Spherical": 3, "HyperSpherical": 3}
ROUTES = ["cor", "correlation", "covariance", "variogram"]
BASE_FNS = ["cor", "correlation", "covariance", "variogram", "cov_nugget", "vario_nugget"]


def _gs():
    import gstools as gs
    return gs


def quiet():
    ctxm = warnings.catch_warnings()
    ctxm.__enter__()
    warnings.simplefilter("ignore")
    return ctxm


# ----------------------------------------------------------------------------------------------- generators
def logu(rng, lo, hi):
    return float(np.exp(rng.uniform(np.log(lo), np.log(hi))))


def gen_common(rng, nice=False):
    """var, len_scale, nugget, rescale (None = class default)"""
    if nice:
        return dict(var=float(rng.choice([1.0, 2.0, 0.5])), len_scale=float(rng.choice([1.0, 2.0, 3.0, 0.25])),
                    nugget=float(rng.choice([0.0, 0.5])), rescale=None)
    return dict(var=logu(rng, 1e-2, 1e2), len_scale=logu(rng, 0.05, 50.0),
                nugget=float(rng.choice([0.0, rng.uniform(0, 5)])),
                rescale=None if rng.rand() < 0.4 else logu(rng, 0.2, 5.0))


def gen_opt(rng, name, dim, elementary):
    """optional arguments within the bounds of class `name`, and the Lean kernel slice (dict) or None.
    elementary=True forces a parameter slice on which the model has a closed form."""
    k = lambda kern, **kw: dict(kernel=kern, **kw)
    if name in ("Gaussian", "Exponential", "Cubic", "Linear", "Circular", "Spherical"):
        return {}, k(name)
    if name == "Stable":
        a = float(rng.choice([2.0, 1.0, rng.uniform(0.3, 2.0)]))
        return {"alpha": a}, k("Stable", a=a)
    if name == "Rational":
        a = float(rng.choice([0.5, 1.0, 50.0, logu(rng, 0.5, 50.0)]))
        return {"alpha": a}, k("Rational", a=a)
    if name == "TPLSimple":
        lo = (dim + 1) / 2
        nu = float(rng.choice([lo, 50.0, rng.uniform(lo, 50.0), rng.uniform(lo, lo + 3)]))
        return {"nu": nu}, k("TPLSimple", a=nu)
    if name == "HyperSpherical":
        return {}, k("HyperSpherical")
    if name == "SuperSpherical":
        lo = (dim - 1) / 2
        c = rng.randint(3) if not elementary else rng.randint(2)
        if c == 0:
            n = int(rng.randint(int(math.ceil(lo)), 7))
            return {"nu": float(n)}, k("SuperSphericalNat", n=n)
        if c == 1 and dim <= 2:
            return {"nu": 0.5}, k("SuperSphericalHalf")
        if c == 1:
            return {"nu": 1.0}, k("SuperSphericalNat", n=1)
        return {"nu": float(rng.uniform(lo, 50.0))}, None
    if name == "Matern":
        c = rng.randint(5) if not elementary else rng.randint(4)
        if c < 3:
            nu = [0.5, 1.5, 2.5][c]
            return {"nu": nu}, k(["Matern12", "Matern32", "Matern52"][c])
        if c == 3:
            return {"nu": float(rng.choice([20.000001, 30.0, rng.uniform(20.0001, 30.0)]))}, k("MaternLimit")
        return {"nu": float(rng.choice([0.2, 20.0, rng.uniform(0.2, 20.0)]))}, None
    if name == "JBessel":
        c = rng.randint(3) if not elementary else rng.randint(2)
        if c == 0 and dim <= 2:
            return {"nu": 0.5}, k("JBessel12", hmin=0.0)
        if c <= 1:
            return {"nu": 1.5}, k("JBessel32", hmin=0.3)
        return {"nu": float(rng.uniform(dim / 2 - 1 + 0.02, 50.0))}, None
    if name == "Integral":
        return {"nu": float(rng.choice([50.0, 1.0, logu(rng, 0.01, 50.0)]))}, None
    if name in ("TPLGaussian", "TPLExponential"):
        return {"hurst": float(rng.uniform(0.1001, 0.999)), "len_low": float(rng.choice([0.0, rng.uniform(0, 5)]))}, None
    if name == "TPLStable":
        return {"hurst": float(rng.uniform(0.1001, 0.999)), "alpha": float(rng.uniform(0.3, 2.0)),
                "len_low": float(rng.choice([0.0, rng.uniform(0, 5)]))}, None
    raise KeyError(name)


def gen_dim(rng, name):
    return int(rng.randint(1, MAXDIM.get(name, 3) + 1))


def make(name, dim, common, opt, **extra):
    gs = _gs()
    kw = dict(common)
    if kw.get("rescale") is None:
        kw.pop("rescale", None)
    kw.update(opt)
    kw.update(extra)
    with warnings.catch_warnings():
        warnings.simplefilter("ignore")
        return getattr(gs, name)(dim=dim, **kw)


def make_user(route, K):
    """tiny user subclass defined through exactly one of the four functions, kernel K of the normalised lag.
    The operation order is the one written in GSV.Model.CovFn.userFns."""
    from gstools import CovModel
    if route == "cor":
        class UserCor(CovModel):
            def cor(self, h):
                return K(h)
        return UserCor
    if route == "correlation":
        class UserCorrelation(CovModel):
            def correlation(self, r):
                return K(np.abs(r) / self.len_rescaled)
        return UserCorrelation
    if route == "covariance":
        class UserCovariance(CovModel):
            def covariance(self, r):
                return self.var * K(np.abs(r) / self.len_rescaled)
        return UserCovariance
    if route == "variogram":
        class UserVariogram(CovModel):
            def variogram(self, r):
                return self.var * (1 - K(np.abs(r) / self.len_rescaled)) + self.nugget
        return UserVariogram
    raise KeyError(route)


def lag_grid(rng, L, n_rand=6):
    """lags r: zero, the isclose band and its edges, tiny, inside, support edge +-1ulp, beyond, far tail, negative"""
    g = [0.0, 1e-9, -1e-9, 1e-8, float(np.nextafter(1e-8, 0)), float(np.nextafter(1e-8, 1)), -float(np.nextafter(1e-8, 1)),
         1e-6 * L, 1e-3 * L, 0.1 * L, 0.5 * L, float(np.nextafter(L, 0)), L, float(np.nextafter(L, np.inf)),
         L * (1 - 2 * EPS), L * (1 + 2 * EPS), 1.5 * L, 2 * L, 5 * L, 20 * L, 100 * L, -0.7 * L, -3 * L]
    g += list(rng.uniform(0, 3, n_rand) * L)
    return np.array(g, dtype=float)


def branch_of(h):
    h = abs(h)
    if h == 0:
        return "zero"
    if h < 1e-6:
        return "tiny"
    if h < 1 - 1e-9:
        return "inside"
    if h <= 1 + 1e-9:
        return "edge"
    if h < 10:
        return "beyond"
    return "far"


# ------------------------------------------------------------------------------------------- correspondence
def par_bits(m):
    return dict(var=proto.f2b(m.var), len_scale=proto.f2b(m.len_scale), nugget=proto.f2b(m.nugget),
                rescale=proto.f2b(m.rescale))


def kern_fields(kern, dim):
    d = {"kernel": kern["kernel"], "dim": dim}
    if "a" in kern:
        d["a"] = proto.f2b(kern["a"])
    if "n" in kern:
        d["n"] = int(kern["n"])
    return d


def scales(m, route):
    """natural magnitudes against which absolute rounding errors are measured"""
    s_cor = 1.0 if route in ("builtin", "cor", "correlation") else 2.0 + 2.0 * m.nugget / m.var
    return {"cor": s_cor, "correlation": s_cor, "covariance": m.var * s_cor, "variogram": m.var * s_cor + m.nugget,
            "cov_nugget": m.var * s_cor + m.nugget, "vario_nugget": m.var * s_cor + m.nugget,
            "cor_axis": s_cor, "cov_axis": m.var * s_cor, "vario_axis": m.var * s_cor + m.nugget,
            "cor_yadrenko": s_cor, "cov_yadrenko": m.var * s_cor, "vario_yadrenko": m.var * s_cor + m.nugget}


def differs(a, b, scale, rtol=1e-12, aeps=64):
    """|a-b| > rtol*|b| + aeps*eps*scale  (nan/inf must coincide)"""
    a, b = np.asarray(a, dtype=float), np.asarray(b, dtype=float)
    if a.shape != b.shape:
        return np.ones(max(a.size, b.size), dtype=bool)
    fin = np.isfinite(a) & np.isfinite(b)
    bad = np.zeros(a.shape, dtype=bool)
    bad[~fin] = ~((np.isnan(a[~fin]) & np.isnan(b[~fin])) | (a[~fin] == b[~fin]))
    bad[fin] = np.abs(a[fin] - b[fin]) > rtol * np.abs(b[fin]) + aeps * EPS * scale
    return bad


class Collector:
    def __init__(self):
        self.ops, self.checks = [], []      # checks[i]: (label, case, expected array, scale, rtol, lags, hfilter)
        self.dist = {}
        self.evals = 0
        self.distinct = set()
        self.disagreements = []
        self.samples = []

    def count(self, key, n=1):
        self.dist[key] = self.dist.get(key, 0) + n

    def add(self, op, label, case, expected, scale, rtol=1e-12, keep=None):
        self.ops.append(op)
        self.checks.append((label, case, np.asarray(expected, dtype=float), scale, rtol, keep))

    def finish(self):
        res = proto.run_driver(self.ops)
        for op, (label, case, exp, scale, rtol, keep), r in zip(self.ops, self.checks, res):
            if isinstance(r, dict) and "error" in r:
                self.disagreements.append({"what": f"{label}: model raised {r['error']}", "case": case})
                continue
            if r and isinstance(r[0], list):
                got = np.array([proto.unbits(row) for row in r], dtype=float)
            elif r and isinstance(r[0], bool):
                got = np.array(r, dtype=float)
            else:
                got = proto.unbits(r).astype(float)
            e, g = exp, got
            if keep is not None:
                e, g = exp[keep], got[keep]
            bad = differs(g, e, scale, rtol)
            self.evals += int(e.size)
            self.count("fn:" + label.split("/")[-1], int(e.size))
            self.distinct.add((label, case.get("cls"), tuple(sorted((k, str(v)) for k, v in case.get("kw", {}).items()))))
            if bad.any():
                i = int(np.argmax(bad))
                self.disagreements.append({"what": label, "case": case, "index": i,
                                           "impl": float(np.ravel(e)[i]), "model": float(np.ravel(g)[i]),
                                           "n_bad": int(bad.sum())})
            elif len(self.samples) < 5:
                self.samples.append({"label": label, "case": case, "impl_first": np.ravel(e)[:4].tolist(),
                                     "model_first": np.ravel(g)[:4].tolist()})


def corr_case(col, rng, name, route, nice, forced=None):
    """one (class, parameters, route) case: all base functions + variants on a lag grid; forced = (optional arguments,
    Lean kernel) instead of a random draw"""
    gs = _gs()
    dim = gen_dim(rng, name)
    common = gen_common(rng, nice)
    opt, kern = gen_opt(rng, name, dim, elementary=True) if forced is None else forced
    anis = [float(rng.choice([1.0, 0.5, 2.0, logu(rng, 0.1, 10)])) for _ in range(dim - 1)]
    angles = [float(rng.uniform(-np.pi, np.pi)) for _ in range(dim * (dim - 1) // 2)]
    radius = float(rng.choice([1.0, 57.29577951308232, 6371.0]))
    shipped = make(name, dim, common, opt, anis=anis, angles=angles, geo_scale=radius)
    if route == "builtin":
        m = shipped
    else:
        kw = dict(common)
        if kw["rescale"] is None:
            kw["rescale"] = shipped.rescale      # user classes have default rescale 1: pass the shipped one
        with warnings.catch_warnings():
            warnings.simplefilter("ignore")
            m = make_user(route, shipped.cor)(dim=dim, anis=anis, angles=angles, geo_scale=radius, **kw)
    L = m.len_rescaled
    lags = lag_grid(rng, L)
    hmin = kern.get("hmin", 0.0)
    h = np.abs(lags) / L
    keep = (h >= hmin) | (h <= 1e-8) if hmin > 0 else None
    case = {"cls": name, "route": route, "dim": dim, "kw": {**{k: v for k, v in common.items()}, **opt,
            "rescale": m.rescale, "anis": anis, "angles": angles}}
    sc = scales(m, route)
    if kern["kernel"] == "MaternHalf":
        # Matern.cor = exp(a) * kv(nu, x) with |a| up to ~ 3 nu (log-transformed prefactor): exp carries |a| eps, so the absolute
        # slack 64 eps x scale grows with the order
        sc = {k_: v_ * (1.0 + kern["n"]) for k_, v_ in sc.items()}
    base = {"op": "covfn_eval", "route": "cor" if route == "builtin" else route, **kern_fields(kern, dim), **par_bits(m)}
    col.count(f"class:{name}")
    col.count(f"route:{route}")
    for b in h:
        col.count("branch:" + branch_of(b))
    with warnings.catch_warnings(), np.errstate(all="ignore"):
        warnings.simplefilter("ignore")
        for fn in BASE_FNS:
            x = lags / L if fn == "cor" else lags
            if fn == "cor" and name in ("Stable", "HyperSpherical", "SuperSpherical", "JBessel"):
                x = np.abs(x)       # these `cor` methods take no abs: a negative normalised lag has no meaning there
            exp = getattr(m, fn)(x)
            kp = keep
            if fn == "cor" and hmin > 0:
                kp = (np.abs(x) >= hmin) | (np.abs(x) <= 1e-8)
            col.add({**base, "fn": fn, "lags": proto.fbits(x)}, f"{route}/{fn}", case, exp, sc[fn], keep=kp)
        # per-axis variants (axis 0 .. dim-1)
        for axis in range(dim):
            for fn in ("vario_axis", "cov_axis", "cor_axis"):
                exp = getattr(m, fn)(lags, axis=axis)
                a_keep = keep
                if hmin > 0 and axis > 0:
                    ha = np.abs(lags) / m.anis[axis - 1] / L
                    a_keep = (ha >= hmin) | (ha <= 1e-8)
                col.add({**base, "fn": fn, "lags": proto.fbits(lags), "axis": axis, "anis": proto.fbits(m.anis)},
                        f"{route}/{fn}", {**case, "axis": axis}, exp, sc[fn], keep=a_keep)
        # Yadrenko variants: great-circle distances up to half the circumference, h kept moderate
        zeta = np.concatenate([[0.0, 1e-9 * radius, np.pi * radius], rng.uniform(0, np.pi, 8) * radius])
        hz = 2 * radius * np.sin(zeta / (2 * radius)) / L
        z_keep = (hz <= 12) & ((hz >= max(hmin, 0)) | (hz <= 1e-8))
        if z_keep.any():
            for fn in ("vario_yadrenko", "cov_yadrenko", "cor_yadrenko"):
                exp = getattr(m, fn)(zeta)
                col.add({**base, "fn": fn, "lags": proto.fbits(zeta), "radius": proto.f2b(m.geo_scale)},
                        f"{route}/{fn}", {**case, "radius": radius}, exp, sc[fn], rtol=1e-10, keep=z_keep)
        # spatial variants (shipped classes; the lag is the Geo model's isoRad)
        if route == "builtin":
            npts = 8
            pos = rng.uniform(-2, 2, size=(dim, npts)) * L
            pos[:, 0] = 0.0
            rad = m._get_iso_rad(pos)
            exp = np.stack([rad, m.vario_spatial(pos), m.cov_spatial(pos), m.cor_spatial(pos)], axis=1)
            hs = rad / L
            s_keep = (hs <= 12) & ((hs >= hmin) | (hs <= 1e-8))
            if s_keep.any():
                col.add({"op": "covfn_spatial", **kern_fields(kern, dim), **par_bits(m), "angles": proto.fbits(m.angles),
                         "anis": proto.fbits(m.anis), "pos": proto.fbits(pos.T)},
                        f"{route}/spatial", case, exp, m.var + m.nugget + L, rtol=1e-10, keep=s_keep)


def derive_case(col, rng, name):
    """any class, any parameters: the class's own correlation values are the input; covariance, variogram and the
    nugget variants must be what the combinators derive from them"""
    dim = gen_dim(rng, name)
    common = gen_common(rng)
    opt, _ = gen_opt(rng, name, dim, elementary=False)
    m = make(name, dim, common, opt)
    L = m.len_rescaled
    lags = lag_grid(rng, L, 4)
    case = {"cls": name, "route": "derive", "dim": dim, "kw": {**common, **opt, "rescale": m.rescale}}
    col.count(f"class:{name}")
    col.count("route:derive")
    with warnings.catch_warnings(), np.errstate(all="ignore"):
        warnings.simplefilter("ignore")
        c = np.asarray(m.correlation(lags), dtype=float)
        band = np.abs(lags) <= 1e-8
        cn, vn = m.cov_nugget(lags), m.vario_nugget(lags)
        exp = np.stack([c, m.covariance(lags), m.variogram(lags), np.where(band, m.covariance(lags), cn),
                        np.where(band, m.variogram(lags), vn), np.where(band, cn, m.sill), np.where(band, vn, 0.0)], axis=1)
    ok = np.isfinite(c)
    if ok.any():
        col.add({"op": "covfn_derive", **par_bits(m), "vals": proto.fbits(c)}, "derive/all", case, exp,
                m.var + m.nugget, keep=ok)


def intscale_case(col, rng, name):
    """integral scale: closed forms / quadrature of the code against len_rescaled * (proved value of ∫cor); setter"""
    dim = gen_dim(rng, name)
    common = gen_common(rng)
    opt, kern = gen_opt(rng, name, dim, elementary=True)
    if kern is None or kern["kernel"] in ("Stable", "Rational", "SuperSphericalNat", "SuperSphericalHalf", "MaternLimit",
                                          "JBessel12", "JBessel32"):
        return
    m = make(name, dim, common, opt)
    want = logu(rng, 0.05, 20.0)
    exact = name in ("Gaussian", "Exponential", "Matern")
    # classes without closed form integrate with scipy quad over [0, inf): on kinked compact-support integrands its error
    # estimate is optimistic (observed up to 2e-5 relative for Linear / Circular / TPLSimple nu=1, <= 3e-7 for smooth edges)
    rtol = 1e-12 if exact else 1e-4
    case = {"cls": name, "route": "intscale", "dim": dim, "kw": {**common, **opt, "rescale": m.rescale}, "set": want}
    with warnings.catch_warnings():
        warnings.simplefilter("ignore")
        rep = m.integral_scale
        try:
            m2 = make(name, dim, common, opt)
            m2.integral_scale = want
            new_len, rep2 = m2.len_scale, m2.integral_scale
        except ValueError:
            new_len, rep2 = float("nan"), float("nan")
    col.count(f"class:{name}")
    col.count("route:intscale")
    col.add({"op": "covfn_intscale", **kern_fields(kern, dim), **par_bits(m), "set": proto.f2b(want)},
            "intscale/reported,setter_len,after", case, [rep, new_len, rep2], 0.0, rtol=rtol)
    if name in ("Gaussian", "Exponential"):
        col.add({"op": "covfn_calc_is", "kernel": name, **par_bits(m)}, "intscale/calc_integral_scale", case,
                [m.calc_integral_scale()], 0.0, rtol=1e-14)


def corr_dense(col, rng):
    """closed forms on the DENSE slices the model carries: Matern at every half-integer nu = p + 1/2 <= 19.5 (maternHalfCor,
    coefficients in Nat), SuperSpherical at every integer nu <= 6 (beyond, the alternating binomial sum of the model cancels), through all functions and variants, builtin route and one
    user route each"""
    n = 0
    for p in range(20):
        forced = ({"nu": p + 0.5}, dict(kernel="MaternHalf", n=p))
        corr_case(col, rng, "Matern", "builtin", False, forced=forced)
        corr_case(col, rng, "Matern", ROUTES[p % 4], True, forced=forced)
        col.count("dense:Matern half-integer nu")
        n += 2
    for k in range(0, 7):
        forced = ({"nu": float(max(k, 1))}, dict(kernel="SuperSphericalNat", n=max(k, 1)))
        corr_case(col, rng, "SuperSpherical", "builtin", False, forced=forced)
        col.count("dense:SuperSpherical integer nu")
        n += 1
    return n


LIST_KERNELS = ["Gaussian", "Exponential", "Matern", "Spherical", "Cubic", "TPLSimple", "Circular", "HyperSpherical"]


def listscale_case(col, rng, name):
    """list-valued len_scale / integral_scale (constructor and setter) against setLenScaleList / setIntegralScaleList:
    len_scale, anis, len_scale_vec, integral_scale_vec and the per-axis scales the list prescribes (cut to the dimension,
    padded with the last value, a single value keeps the stored ratios)"""
    maxd = MAXDIM.get(name, 3)
    if maxd < 2:
        return
    dim = int(rng.randint(2, maxd + 1))
    common = gen_common(rng)
    if name == "Matern":
        opt, kern = gen_opt(rng, name, dim, elementary=True)
        while kern["kernel"] not in ("Matern12", "Matern32", "Matern52"):
            opt, kern = gen_opt(rng, name, dim, elementary=True)
        kern = dict(kernel="Matern", a=opt["nu"])
    else:
        opt, kern = gen_opt(rng, name, dim, elementary=True)
    what = str(rng.choice(["len_scale", "integral_scale"]))
    how = str(rng.choice(["ctor", "setter"]))
    nlist = int(rng.choice([1, 2, dim, dim, dim + 1]))
    lst = [logu(rng, 0.2, 20.0) for _ in range(nlist)]
    anis0 = [logu(rng, 0.2, 5.0) for _ in range(dim - 1)]
    exact = name in ("Gaussian", "Exponential", "Matern")
    with warnings.catch_warnings(), np.errstate(all="ignore"):
        warnings.simplefilter("ignore")
        try:
            if how == "ctor":
                kw = {k: v for k, v in common.items() if k != "len_scale"} if what == "len_scale" else dict(common)
                m = make(name, dim, kw, opt, anis=anis0, **{what: lst})
                start_len = 1.0 if what == "len_scale" else common["len_scale"]
            else:
                m = make(name, dim, common, opt, anis=anis0)
                float(m.integral_scale)
                setattr(m, what, lst)
                start_len = common["len_scale"]
            real = np.concatenate([[m.len_scale], m.anis, m.len_scale_vec, m.integral_scale_vec])
        except ValueError as e:
            col.disagreements.append({"what": f"listscale: real code raises {e}", "case": {"cls": name, "dim": dim, "list": lst, "what": what, "how": how}})
            return
    # the per-axis scales the list prescribes, written here independently of both sides
    want_axes = (lst + [lst[-1]] * dim)[:dim] if nlist >= 2 else None
    case = {"cls": name, "route": f"listscale:{how}:{what}", "dim": dim, "kw": {**common, **opt, "rescale": m.rescale, "anis": anis0}, "list": lst}
    par = dict(var=proto.f2b(m.var), len_scale=proto.f2b(start_len), nugget=proto.f2b(m.nugget), rescale=proto.f2b(m.rescale))
    op = {"op": "covfn_list_scale", **kern_fields(kern, dim), **par, "anis": proto.fbits(np.array(anis0)), "what": what, "list": proto.fbits(np.array(lst))}
    vec = real[2 * dim:3 * dim] if what == "integral_scale" else real[dim:2 * dim]
    expected = np.concatenate([real, vec if want_axes is None else np.array(want_axes)])
    col.count(f"class:{name}")
    col.count(f"route:listscale:{how}:{what}:{'single' if nlist == 1 else 'short' if nlist < dim else 'long' if nlist > dim else 'full'}")
    n = expected.size
    keep_exact = np.zeros(n, dtype=bool)
    keep_exact[1:dim] = True                      # anis: ratios of the list (or the stored ones), no quadrature involved
    if what == "len_scale":
        keep_exact[:2 * dim] = True               # len_scale, anis, len_scale_vec
        keep_exact[3 * dim:] = True
    keep_all = np.ones(n, dtype=bool)
    if want_axes is None:       # a single value prescribes the main scale only (the stored ratios stay): no per-axis list to compare
        keep_exact[3 * dim:] = False
        keep_all[3 * dim:] = False
    col.add(op, "listscale/anis,exact part", case, expected, 0.0, rtol=1e-13, keep=keep_exact)
    # quadrature-based classes: the integral of cor the class reports carries scipy.quad's error (see intscale_case)
    col.add(op, "listscale/len_scale,anis,len_scale_vec,integral_scale_vec,axes", case, expected, 0.0, rtol=1e-12 if exact else 1e-4, keep=keep_all)


# -------------------------------------------------- correspondence of tools/special.py (plans + affine forms, two driver rounds)
def interp_gplan(plan, x):
    """evaluate an inc_gamma plan of the model: the leaves are the scipy primitives, the arithmetic is GSV.Model.CovFn.evalG"""
    from scipy import special as sps
    k = plan[0]
    if k == "exp1":
        return sps.exp1(x)
    if k == "powexpn":
        a = proto.b2f(plan[1])
        return x ** a * sps.expn(int(plan[2]), x)
    if k == "gammaq":
        a = proto.b2f(plan[1])
        return sps.gamma(a) * sps.gammaincc(a, x)
    if k == "down":
        a = proto.b2f(plan[1])
        return (interp_gplan(plan[2], x) - x ** a * np.exp(-x)) / a
    return np.full_like(x, np.nan)


def interp_lplan(plan, x):
    from scipy import special as sps
    k = plan[0]
    if k == "pole":
        return np.full_like(x, np.inf)
    if k == "gammap":
        a = proto.b2f(plan[1])
        return sps.gamma(a) * sps.gammainc(a, x)
    if k == "up":
        a = proto.b2f(plan[1])
        return (interp_lplan(plan[2], x) + x ** a * np.exp(-x)) / a
    return np.full_like(x, np.nan)


def interp_exp_int(res, xs):
    """value of the model's exp_int(s, xs) from the driver's answer to `special_exp_int`"""
    from scipy import special as sps
    xs = np.asarray(xs, dtype=float)
    plan = res["plan"]
    if plan[0] == "exp1":
        return sps.exp1(xs), ["exp1"] * xs.size
    if plan[0] == "expn":
        return sps.expn(int(plan[1]), xs), ["expn"] * xs.size
    out = np.full(xs.shape, np.nan)
    kinds = []
    for i, (x, c) in enumerate(zip(xs, res["x"])):
        kinds.append(c[0])
        if c[0] == "neg":
            out[i] = np.nan
        elif c[0] in ("inf", "zero"):
            out[i] = {"inf": np.inf, "nan": np.nan}.get(c[1], np.nan) if isinstance(c[1], str) else proto.b2f(c[1])
        else:
            ax = np.array([abs(x)])
            out[i] = float(interp_gplan(plan[1], ax)[0]) * proto.b2f(c[1])
    return out, kinds


def helper_orders(rng, ints, extra):
    out = []
    for n in ints:
        out += [s for _, s in order_targets(n)]
    return out + list(extra)


HELPER_X = [-1.0, -1e-300, 0.0, 1e-300, 1e-30, 1e-21, 1e-20, 1.0000001e-20, 1e-16, 1e-12, 1e-6, 1e-3, 1e-2, 1.0000001e-2, 0.1, 0.5,
            1.0, 2.0, 5.0, 10.0, 29.9, 30.0, 30.000000000000004, 30.1, 35.0, 35.000001, 50.0, 100.0, 700.0, 800.0]


def corr_special(ctx, rng):
    """tools.special against GSV.Model.CovFn: (1) exp_int / inc_gamma / inc_gamma_low on orders and arguments derived from
    their branch conditions; (2) tplstable_cor, TPL*.correlation and Integral.cor expanded by the model into
    const + sum coef * exp_int(s, x), with exp_int evaluated through (1).  Leaves = scipy primitives."""
    from gstools.tools import special as gsp
    dis, dist, samples = [], {}, []
    evals, distinct = 0, 0

    def count(k, n=1):
        dist[k] = dist.get(k, 0) + n

    def compare(label, case, impl, model, rtol, atol=0.0):
        nonlocal evals, distinct
        impl, model = np.asarray(impl, dtype=float), np.asarray(model, dtype=float)
        evals += impl.size
        distinct += 1
        bad = differs(model, impl, 0.0, rtol, 0) if np.isscalar(atol) and atol == 0.0 else None
        if bad is None:
            fin = np.isfinite(impl) & np.isfinite(model)
            bad = np.zeros(impl.shape, dtype=bool)
            bad[~fin] = ~((np.isnan(impl[~fin]) & np.isnan(model[~fin])) | (impl[~fin] == model[~fin]))
            bad[fin] = np.abs(impl[fin] - model[fin]) > rtol * np.abs(impl[fin]) + np.broadcast_to(atol, impl.shape)[fin]
        if bad.any():
            i = int(np.argmax(bad))
            dis.append({"what": label, "case": case, "index": i, "impl": float(impl[i]), "model": float(model[i]), "n_bad": int(bad.sum())})
        elif len(samples) < 3:
            samples.append({"label": label, "case": case, "impl_first": impl[:4].tolist(), "model_first": model[:4].tolist()})

    # ---- (1) helpers
    quick = ctx.quick
    e_ints = [0, 1, 2, 3, 5, 26, 101] if quick else list(range(-3, 30)) + [57, 101, 181]
    e_orders = helper_orders(rng, e_ints, [-0.5, nextk(-0.5, 1), nextk(-0.5, -1), -0.49, -0.51, -9.0, -9.3, -8.7, -12.5, -60.0,
                                            nextk(-60.0, 1), -60.5, -70.25, -99.5] + list(rng.uniform(-5, 30, 6)))
    g_orders = helper_orders(rng, [0, -1, -2, -5, 1, 3] if quick else list(range(-12, 6)), [-0.5, nextk(-0.5, 1), nextk(-0.5, -1),
                                                                                               0.5, -30.5, -99.5] + list(rng.uniform(-8, 4, 6)))
    xs = np.array(HELPER_X + list(np.exp(rng.uniform(np.log(1e-22), np.log(900.0), 6))))
    xpos = xs[xs > 0]
    ops = [{"op": "special_exp_int", "s": proto.f2b(s), "x": proto.fbits(xs)} for s in e_orders]
    ops += [{"op": "special_inc_gamma", "s": proto.f2b(s)} for s in g_orders]
    ops += [{"op": "special_inc_gamma_low", "s": proto.f2b(s)} for s in g_orders]
    res = proto.run_driver(ops)
    with warnings.catch_warnings(), np.errstate(all="ignore"):
        warnings.simplefilter("ignore")
        for s, r in zip(e_orders, res[:len(e_orders)]):
            if isinstance(r, dict) and "error" in r:
                dis.append({"what": "special/exp_int: model raised " + r["error"], "case": {"s": s}})
                continue
            model, kinds = interp_exp_int(r, xs)
            for k in set(kinds):
                count("exp_int:" + k, kinds.count(k))
            count("exp_int-order:" + order_class(s))
            compare("special/exp_int", {"cls": "exp_int", "kw": {"s": s}, "plan": r["plan"][0]}, gsp.exp_int(s, xs), model, 1e-13)
        off = len(e_orders)
        for s, r in zip(g_orders, res[off:off + len(g_orders)]):
            count("inc_gamma:" + r[0])
            compare("special/inc_gamma", {"cls": "inc_gamma", "kw": {"s": s}, "plan": r[0]}, gsp.inc_gamma(s, xpos), interp_gplan(r, xpos), 1e-14)
        off += len(g_orders)
        for s, r in zip(g_orders, res[off:]):
            count("inc_gamma_low:" + r[0])
            compare("special/inc_gamma_low", {"cls": "inc_gamma_low", "kw": {"s": s}, "plan": r[0]}, gsp.inc_gamma_low(s, xpos), interp_lplan(r, xpos), 1e-14)

    # ---- (2) functions built on exp_int, expanded by the model
    cases = []
    sc = special_cases(ctx, rng)
    idx = rng.choice(len(sc), size=min(len(sc), ctx.scale(60, 600)), replace=False)
    for i in idx:
        cases.append(sc[int(i)])
    for name in SPECIAL:
        for _ in range(ctx.scale(3, 30)):
            cases.append((name, {k: v for k, v in gen_opt(rng, name, 1, False)[0].items() if k != "len_low"}, "random"))
    built = []
    ops = []
    for name, opt, label in cases:
        dim = gen_dim(rng, name)
        common = gen_common(rng)
        opt = dict(opt)
        if name in TPL3:
            opt["len_low"] = float(rng.choice([0.0, 0.0, 1e-9, rng.uniform(0.05, 5)]))
        try:
            m = make(name, dim, common, opt)
        except ValueError:
            continue
        r = special_lags(name, m, rng)
        if name == "Integral":
            h = r / m.len_rescaled
            ops.append({"op": "special_model", "fn": "integral", "nu": proto.f2b(m.nu), "r": proto.fbits(h)})
            with warnings.catch_warnings(), np.errstate(all="ignore"):
                warnings.simplefilter("ignore")
                impl = np.asarray(m.cor(h), dtype=float)
        else:
            alpha = {"TPLGaussian": 2.0, "TPLExponential": 1.0}.get(name) or float(m.alpha)
            ops.append({"op": "special_model", "fn": "tpl", "len_scale": proto.f2b(m.len_scale), "len_low": proto.f2b(m.len_low),
                        "rescale": proto.f2b(m.rescale), "hurst": proto.f2b(m.hurst), "alpha": proto.f2b(alpha), "r": proto.fbits(r)})
            with warnings.catch_warnings(), np.errstate(all="ignore"):
                warnings.simplefilter("ignore")
                impl = np.asarray(m.correlation(r), dtype=float)
        built.append((name, m, opt, common, label, r, impl))
    # the helper itself, with arbitrary length scales
    for _ in range(ctx.scale(10, 100)):
        hurst, alpha, ln = float(rng.uniform(0.1001, 0.999)), float(rng.choice([1.0, 2.0, rng.uniform(0.05, 2.0)])), logu(rng, 1e-3, 1e3)
        r = np.concatenate([[0.0, 1e-8 * ln, nextk(1e-8, 1) * ln, nextk(1e-8, -1) * ln, -0.3 * ln], np.exp(rng.uniform(np.log(1e-8), np.log(50), 8)) * ln])
        ops.append({"op": "special_model", "fn": "tplstable", "len": proto.f2b(ln), "hurst": proto.f2b(hurst), "alpha": proto.f2b(alpha),
                    "r": proto.fbits(r)})
        with warnings.catch_warnings(), np.errstate(all="ignore"):
            warnings.simplefilter("ignore")
            impl = np.asarray(gsp.tplstable_cor(r, ln, hurst, alpha), dtype=float)
        built.append(("tplstable_cor", None, {"hurst": hurst, "alpha": alpha, "len": ln}, {}, "random", r, impl))
    forms = proto.run_driver(ops)
    # second round: every exp_int(s, x) the model asked for
    need = {}
    for f in forms:
        if isinstance(f, dict) and "error" in f:
            continue
        for lag in f:
            for coef, sb, xb in lag["t"]:
                need.setdefault(sb, {})[xb] = None
    order = sorted(need)
    res = proto.run_driver([{"op": "special_exp_int", "s": sb, "x": sorted(need[sb])} for sb in order])
    with warnings.catch_warnings(), np.errstate(all="ignore"):
        warnings.simplefilter("ignore")
        for sb, r in zip(order, res):
            xbits = sorted(need[sb])
            vals, _ = interp_exp_int(r, proto.unbits(xbits))
            for xb, v in zip(xbits, vals):
                need[sb][xb] = float(v)
        for (name, m, opt, common, label, r, impl), f in zip(built, forms):
            case = {"cls": name, "kw": {**common, **opt}, "sample": label}
            if isinstance(f, dict) and "error" in f:
                dis.append({"what": f"special/{name}: model raised {f['error']}", "case": case})
                continue
            model = np.empty(len(f))
            cond = np.zeros(len(f))
            for i, lag in enumerate(f):
                v = proto.b2f(lag["c"])
                for coef, sb, xb in lag["t"]:
                    c, sv, xv = proto.b2f(coef), proto.b2f(sb), proto.b2f(xb)
                    v = v + c * need[sb][xb]
                    cond[i] += abs(c) * float(64 * recurrence_error_bound(sv, np.array([xv]))[0] + asymptote_error_bound(sv, np.array([xv]))[0])
                model[i] = v
            count(f"model:{name}")
            count(f"model-sample:{label.split(':')[-1]}")
            # 1e-12 relative + the rounding the code's own recurrence admits at this order (orders just outside the isclose band)
            compare(f"special/{name}", case, impl, model, 1e-12, cond + 16 * EPS)
    return evals, distinct, dis, dist, samples


HIST_KERNELS = ["Gaussian", "Exponential", "Linear", "Spherical", "Cubic", "Circular", "TPLSimple", "HyperSpherical", "Matern"]


def corr_histories(ctx, rng):
    """read / change / read histories of one living model object against GSV.Model.CovFn.mrun: after every in-place change
    (optional argument, dim, len_scale, rescale, var, nugget, anis, integral_scale) the model predicts len_scale and
    integral_scale_vec from the CURRENT parameters (classes whose integral of cor is a closed form in the model)"""
    ops, meta = [], []
    dist = {}
    for name in HIST_KERNELS:
        for _ in range(ctx.scale(3, 25)):
            dim = gen_dim(rng, name)
            common = gen_common(rng)
            shape_arg = {"TPLSimple": "nu", "Matern": "nu"}.get(name)
            opt = {}
            if name == "TPLSimple":
                opt = {"nu": float(rng.uniform((dim + 1) / 2, 12.0))}
            if name == "Matern":
                opt = {"nu": float(rng.choice([0.5, 1.5, 2.5]))}
            anis = [logu(rng, 0.1, 10) for _ in range(dim - 1)]
            m = make(name, dim, common, opt, anis=anis)
            jops, trace, impl = [], [], []

            def snap():
                with warnings.catch_warnings():
                    warnings.simplefilter("ignore")
                    impl.append([float(m.len_scale)] + [float(v) for v in m.integral_scale_vec])
            start = {"op": "covfn_history", "kernel": name, "dim": dim, "anis": proto.fbits(m.anis), **par_bits(m)}
            if shape_arg:
                start["shape"] = proto.f2b(getattr(m, shape_arg))
            snap()
            for _ in range(int(rng.randint(2, 7))):
                k = str(rng.choice(["shape", "shape", "dim", "len_scale", "rescale", "var", "nugget", "anis", "integral_scale"]))
                if shape_arg and rng.rand() < 0.3:
                    k = "shape"
                if k == "shape" and not shape_arg:
                    k = "dim"
                with warnings.catch_warnings():
                    warnings.simplefilter("ignore")
                    if k == "shape":
                        v = float(rng.uniform((m.dim + 1) / 2, 12.0)) if name == "TPLSimple" else float(rng.choice([0.5, 1.5, 2.5]))
                        setattr(m, shape_arg, v)
                        jops.append({"k": "shape", "v": proto.f2b(v)})
                    elif k == "dim":
                        cand = [d for d in range(1, MAXDIM.get(name, 3) + 1) if d != m.dim and (name != "TPLSimple" or m.nu >= (d + 1) / 2)]
                        if not cand:
                            continue
                        v = int(rng.choice(cand))
                        m.dim = v
                        jops.append({"k": "dim", "d": v, "anis": proto.fbits(m.anis)})
                    elif k == "anis":
                        if m.dim == 1:
                            continue
                        v = [logu(rng, 0.1, 10) for _ in range(m.dim - 1)]
                        m.anis = v
                        jops.append({"k": "anis", "anis": proto.fbits(m.anis)})
                    else:
                        v = {"len_scale": lambda: logu(rng, 0.05, 50.0), "rescale": lambda: logu(rng, 0.2, 5.0),
                             "var": lambda: logu(rng, 1e-2, 1e2), "nugget": lambda: float(rng.uniform(0, 5)),
                             "integral_scale": lambda: logu(rng, 0.05, 20.0)}[k]()
                        setattr(m, k, v)
                        jops.append({"k": k, "v": proto.f2b(v)})
                trace.append(k)
                dist["hist-op:" + k] = dist.get("hist-op:" + k, 0) + 1
                snap()
            ops.append({**start, "ops": jops})
            meta.append((name, {"cls": name, "dim": dim, "kw": {**common, **opt, "anis": anis}, "history": trace}, impl))
    res = proto.run_driver(ops)
    evals, dis, samples = 0, [], []
    for (name, case, impl), r in zip(meta, res):
        if isinstance(r, dict) and "error" in r:
            dis.append({"what": f"history/{name}: model raised {r['error']}", "case": case})
            continue
        exact = name in ("Gaussian", "Exponential", "Matern")
        rtol = 1e-12 if exact else 1e-4        # quad-based integral scales: see intscale_case
        for step, (a, row) in enumerate(zip(impl, r)):
            b = proto.unbits(row).astype(float)
            a = np.asarray(a, dtype=float)
            evals += a.size
            if a.shape != b.shape or differs(b, a, 0.0, rtol, 0).any():
                dis.append({"what": "history/len_scale,integral_scale_vec", "case": case, "step": step, "impl": a.tolist(), "model": b.tolist()})
                break
        else:
            if len(samples) < 2:
                samples.append({"label": "history", "case": case, "impl_first": impl[-1], "model_first": proto.unbits(r[-1]).tolist()})
    return evals, len(meta), dis, dist, samples


PCT_KERNELS = ["Exponential", "Gaussian", "Stable", "Rational", "Linear", "TPLSimple", "Matern12", "MaternLimit"]


def corr_percentile(ctx, rng):
    """percentile_scale of the real model against GSV.Model.CovFn.percentileScale = len_rescaled * (smallest non-negative h with
    cor h = 1 - per) (closed forms, proved in Props/C03Pct to be the smallest lag for EVERY rescale) — classes / parameter slices on which
    the root search of the code converges (Stable alpha >= 0.8, TPLSimple nu <= 2; elsewhere: known finding K3, explored by the search),
    rescale in {default, 0.3, 1.5, 2, 3}, on a fresh model and after a read / change / read history (rescale, len_scale, shape, var,
    nugget, integral_scale changed in place; model: mrun)"""
    ops, meta = [], []
    dist = {}
    for name in PCT_KERNELS:
        cls = "Matern" if name.startswith("Matern") else name
        shape_arg = {"Stable": "alpha", "Rational": "alpha", "TPLSimple": "nu", "MaternLimit": "nu"}.get(name)
        for rep in range(ctx.scale(1, 6)):
            for resc in RESCALE_SET:
                for mode in ("fresh", "history"):
                    dim = 1 if name == "Linear" else int(rng.randint(1, 3 if name == "TPLSimple" else 4))

                    def draw_shape():
                        return {"Stable": lambda: float(rng.uniform(0.8, 2.0)), "Rational": lambda: logu(rng, 0.5, 50.0),
                                "TPLSimple": lambda: float(rng.uniform(1.5, 2.0)), "MaternLimit": lambda: float(rng.uniform(20.001, 30.0))}[name]()
                    opt = {shape_arg: draw_shape()} if shape_arg else ({"nu": 0.5} if name == "Matern12" else {})
                    first = resc if mode == "fresh" else RESCALE_SET[int(rng.randint(len(RESCALE_SET)))]
                    common = dict(var=logu(rng, 0.1, 10.0), len_scale=float(rng.choice([1.0, 12.5, 0.3, logu(rng, 0.05, 50.0)])),
                                  nugget=float(rng.choice([0.0, 0.5])), rescale=first)
                    m = make(cls, dim, common, opt)
                    start = {"op": "covfn_percentile", "kernel": name, "dim": dim, "a": proto.f2b(float(getattr(m, shape_arg)) if shape_arg else 1.0),
                             **par_bits(m)}
                    jops, trace = [], []
                    with warnings.catch_warnings():
                        warnings.simplefilter("ignore")
                        if mode == "history":
                            m.percentile_scale(0.5)         # read before the changes
                            kinds = ["len_scale", "var", "nugget", "rescale"] + (["shape"] if shape_arg else []) + (
                                ["integral_scale"] if name in ("Exponential", "Gaussian", "Matern12") else [])     # closed-form calc_integral_scale (quad-based: 1e-4 only)
                            for k in list(rng.choice(kinds, size=int(rng.randint(0, 3)))) + ["rescale"]:
                                k = str(k)
                                if k == "shape":
                                    v = draw_shape()
                                    setattr(m, shape_arg, v)
                                elif k == "rescale":
                                    v = float(m.default_rescale()) if resc is None else resc
                                    if len(jops) < 2 and rng.rand() < 0.3:
                                        v = logu(rng, 0.2, 5.0)     # an intermediate value; the last op sets the target
                                    m.rescale = v
                                else:
                                    v = {"len_scale": lambda: logu(rng, 0.05, 50.0), "var": lambda: logu(rng, 0.1, 10.0),
                                         "nugget": lambda: float(rng.uniform(0, 3)), "integral_scale": lambda: logu(rng, 0.05, 20.0)}[k]()
                                    setattr(m, k, v)
                                jops.append({"k": k, "v": proto.f2b(v)})
                                trace.append(k)
                            # the last op is always `rescale = target`
                            v = float(m.default_rescale()) if resc is None else resc
                            m.rescale = v
                            jops.append({"k": "rescale", "v": proto.f2b(v)})
                        pers = [0.1, 0.5, 0.9, float(rng.uniform(0.02, 0.98))]
                        impl = [float(m.len_rescaled)] + [float(m.percentile_scale(q)) for q in pers]
                    ops.append({**start, "per": proto.fbits(pers), "ops": jops})
                    rk = "default" if resc is None else ("<1" if resc < 1 else ">1")
                    dist[f"percentile:{mode}:rescale {rk}"] = dist.get(f"percentile:{mode}:rescale {rk}", 0) + 1
                    meta.append(({"cls": name, "dim": dim, "kw": {**common, **opt}, "mode": mode, "history": trace, "rescale": float(m.rescale),
                                  "per": pers}, impl))
    res = proto.run_driver(ops)
    evals, dis, samples = 0, [], []
    for (case, impl), r in zip(meta, res):
        if isinstance(r, dict) and "error" in r:
            dis.append({"what": f"percentile/{case['cls']}: model raised {r['error']}", "case": case})
            continue
        model = proto.unbits(r).astype(float)
        impl = np.asarray(impl, dtype=float)
        evals += impl.size
        bad = differs(model[:1], impl[:1], 0.0, 1e-14, 0).any() or differs(model[1:], impl[1:], 0.0, 1e-8, 0).any()
        if model.shape != impl.shape or bad:
            dis.append({"what": "percentile/len_rescaled,percentile_scale(per...)", "case": case, "impl": impl.tolist(), "model": model.tolist()})
        elif len(samples) < 2:
            samples.append({"label": "percentile", "case": case, "impl_first": impl.tolist()[:4], "model_first": model.tolist()[:4]})
    return evals, len(meta), dis, dist, samples


def correspondence(ctx):
    rng = np.random.RandomState(ctx.seed + 303)
    col = Collector()
    reps = ctx.scale(2, 8)
    elementary = [c for c in ALL_CLASSES if c not in ("Integral",) + TPL3]
    for rep in range(reps):
        for name in elementary:
            for route in ["builtin"] + ROUTES:
                corr_case(col, rng, name, route, nice=(rep == 0 and route == "builtin"))
        for name in ALL_CLASSES:
            for _ in range(3):
                derive_case(col, rng, name)
        for name in elementary:
            for _ in range(2):
                intscale_case(col, rng, name)
    # dense elementary slices (every half-integer Matern order, integer SuperSpherical orders); list-valued scale arguments
    corr_dense(col, rng)
    for name in LIST_KERNELS:
        for _ in range(ctx.scale(6, 30)):
            listscale_case(col, rng, name)
    # Integral: closed form of calc_integral_scale
    for _ in range(ctx.scale(3, 20)):
        m = make("Integral", gen_dim(rng, "Integral"), gen_common(rng), gen_opt(rng, "Integral", 1, False)[0])
        col.add({"op": "covfn_calc_is", "kernel": "Integral", "a": proto.f2b(m.nu), **par_bits(m)},
                "intscale/calc_integral_scale", {"cls": "Integral", "kw": {"nu": m.nu, "len_scale": m.len_scale, "rescale": m.rescale}},
                [m.calc_integral_scale()], 0.0, rtol=1e-14)
    # default rescale of every class
    for name in ALL_CLASSES:
        m = make(name, 1, {}, {})
        col.add({"op": "covfn_default_rescale", "kernel": name}, "default_rescale", {"cls": name, "kw": {}}, [m.rescale], 0.0,
                rtol=1e-15)
    # the isclose(r, 0) predicate on its boundary
    edge = np.array([0.0, 1e-8, np.nextafter(1e-8, 0), np.nextafter(1e-8, 1), -1e-8, -np.nextafter(1e-8, 1), 1e-300, 9.999e-9,
                     1.0001e-8, 1.0, -0.0, 5e-324])
    col.add({"op": "covfn_isclose0", "lags": proto.fbits(edge)}, "isclose0", {"cls": "-", "kw": {}},
            np.isclose(edge, 0).astype(float), 0.0, rtol=0.0)
    col.finish()
    e_s, d_s, dis_s, dist_s, samp_s = corr_special(ctx, np.random.RandomState(ctx.seed + 313))
    e_h, d_h, dis_h, dist_h, samp_h = corr_histories(ctx, np.random.RandomState(ctx.seed + 323))
    e_p, d_p, dis_p, dist_p, samp_p = corr_percentile(ctx, np.random.RandomState(ctx.seed + 333))
    col.evals += e_s + e_h + e_p
    col.disagreements += dis_s + dis_h + dis_p
    col.dist.update(dist_s)
    col.dist.update(dist_h)
    col.dist.update(dist_p)
    col.samples += samp_s[:1] + samp_h[:1] + samp_p[:1]
    return {"evaluations": col.evals, "distinct_nontrivial": len(col.distinct) + d_s + d_h + d_p,
            "rule": "one case = (class or user subclass via route, parameter set within bounds on an elementary slice, function / "
                    "variant); every case is evaluated on a lag grid {0, isclose band and its edges, 1e-6 ℓ, inside, support edge "
                    "±1 ulp, beyond, 20 ℓ, 100 ℓ, negative, random}; evaluations = compared doubles; distinct = distinct "
                    "(function, route, class, parameters); tolerance 1e-12 relative + 64 eps × natural scale "
                    "(1e-10 where the lag itself passes through sin / a rotation); tools.special: exp_int / inc_gamma / inc_gamma_low "
                    "on orders ON, 1-4 ulp off, inside / at the edges of / just outside the np.isclose band of every integer sampled and at "
                    "-0.5, half-integers, arguments through x<0, 0, the 1e-20 limit, 30 / -s/2 asymptote switch (scipy leaves evaluated by the "
                    "harness, dispatch and elementary branches by the model, 1e-13); tplstable_cor, TPL*.correlation, Integral.cor expanded by "
                    "the model into const + sum coef*exp_int(s,x) (1e-12 + rounding admitted by the recurrence); read/change/read histories: "
                    "len_scale and integral_scale_vec after every in-place change (1e-12 closed-form classes, 1e-4 quad-based); percentile_scale(per) = "
                    "len_rescaled x closed-form percentile lag of the kernel (Exponential, Gaussian, Stable alpha >= 0.8, Rational, Linear, TPLSimple nu <= 2, "
                    "Matern 1/2 and > 20) for rescale in {default, 0.3, 1.5, 2, 3}, fresh and after in-place histories ending in `rescale = target` (1e-8); "
                    "dense slices on every run: Matern nu = p + 1/2 for p = 0..19 against maternHalfCor (coefficients in Nat, Horner), SuperSpherical nu = 1..6; "
                    "list-valued len_scale / integral_scale (constructor and setter, lists of 1, 2, dim, dim + 1 entries, stored anis) against "
                    "setLenScaleList / setIntegralScaleList: len_scale, anis, len_scale_vec, integral_scale_vec and the per-axis scales the list prescribes",
            "samples": col.samples, "disagreements": col.disagreements[:20], "distribution": col.dist}


# --------------------------------------------------------------------------------------------------- search
def mp_reference(name, m, snap=False):
    """documented correlation of the model as an mpmath function of the lag r >= 0 (independent of gstools code).
    snap=True (Integral / TPL* only): the ORDER of the exponential integral is replaced by the nearest integer, the
    prefactor is kept — the function the code evaluates when np.isclose(order, integer) (integer-order shortcut)"""
    import mpmath as mp
    L = mp.mpf(m.len_scale) / mp.mpf(m.rescale)

    def tpl(r, ell, hurst, alpha):
        if r == 0:
            return mp.mpf(1)
        s = 2 * mp.mpf(hurst) / alpha
        order = mp.nint(1 + s) if snap else 1 + s
        return s * mp.expint(order, (r / ell) ** alpha)

    def tpl_model(alpha):
        lo = mp.mpf(m.len_low) / mp.mpf(m.rescale)
        up = (mp.mpf(m.len_low) + mp.mpf(m.len_scale)) / mp.mpf(m.rescale)
        H2 = 2 * mp.mpf(m.hurst)
        if np.isclose(m.len_low / m.rescale, 0.0):
            return lambda r: tpl(mp.mpf(r), L, m.hurst, alpha)
        return lambda r: (up ** H2 * tpl(mp.mpf(r), up, m.hurst, alpha) - lo ** H2 * tpl(mp.mpf(r), lo, m.hurst, alpha)) / (
            up ** H2 - lo ** H2)

    def sph(nu):
        nu = mp.mpf(nu)
        f1 = mp.hyp2f1(0.5, -nu, 1.5, 1)
        return lambda r: (1 - (r / L) * mp.hyp2f1(0.5, -nu, 1.5, (r / L) ** 2) / f1) if r / L < 1 else mp.mpf(0)

    if name == "Gaussian":
        return lambda r: mp.exp(-(mp.mpf(r) / L) ** 2)
    if name == "Exponential":
        return lambda r: mp.exp(-mp.mpf(r) / L)
    if name == "Stable":
        return lambda r: mp.exp(-(mp.mpf(r) / L) ** mp.mpf(m.alpha))
    if name == "Rational":
        return lambda r: (1 + (mp.mpf(r) / L) ** 2 / mp.mpf(m.alpha)) ** (-mp.mpf(m.alpha))
    if name == "Matern":
        nu = mp.mpf(m.nu)
        if m.nu > 20.0:     # documented: the Gaussian limit is used for nu > 20
            return lambda r: mp.exp(-(mp.mpf(r) / (2 * L)) ** 2)

        def f(r):
            if r == 0:
                return mp.mpf(1)
            x = mp.sqrt(nu) * mp.mpf(r) / L
            return 2 ** (1 - nu) / mp.gamma(nu) * x ** nu * mp.besselk(nu, x)
        return f
    if name == "Integral":
        nu = mp.mpf(m.nu)
        order = mp.nint(1 + nu / 2) if snap else 1 + nu / 2
        return lambda r: nu / 2 * mp.expint(order, (mp.mpf(r) / L) ** 2)
    if name == "Cubic":
        def f(r):
            h = min(mp.mpf(r) / L, mp.mpf(1))
            return 1 - 7 * h ** 2 + mp.mpf(35) / 4 * h ** 3 - mp.mpf(7) / 2 * h ** 5 + mp.mpf(3) / 4 * h ** 7
        return f
    if name == "Linear":
        return lambda r: max(1 - mp.mpf(r) / L, mp.mpf(0))
    if name == "Circular":
        def f(r):
            h = mp.mpf(r) / L
            return 2 / mp.pi * (mp.acos(h) - h * mp.sqrt(1 - h ** 2)) if h < 1 else mp.mpf(0)
        return f
    if name == "Spherical":
        def f(r):
            h = min(mp.mpf(r) / L, mp.mpf(1))
            return 1 - mp.mpf(3) / 2 * h + h ** 3 / 2
        return f
    if name == "HyperSpherical":
        g = sph((m.dim - 1) / 2)
        return lambda r: g(mp.mpf(r))
    if name == "SuperSpherical":
        g = sph(m.nu)
        return lambda r: g(mp.mpf(r))
    if name == "JBessel":
        nu = mp.mpf(m.nu)

        def f(r):
            h = mp.mpf(r) / L
            return mp.mpf(1) if h == 0 else mp.gamma(nu + 1) * mp.besselj(nu, h) / (h / 2) ** nu
        return f
    if name == "TPLGaussian":
        return tpl_model(2)
    if name == "TPLExponential":
        return tpl_model(1)
    if name == "TPLStable":
        return tpl_model(mp.mpf(m.alpha))
    if name == "TPLSimple":
        return lambda r: max(1 - mp.mpf(r) / L, mp.mpf(0)) ** mp.mpf(m.nu)
    raise KeyError(name)


def exact_integral_scale(name, m, ref):
    """∫₀^∞ of the documented correlation: closed form where one is known, else mpmath quadrature"""
    import mpmath as mp
    L = mp.mpf(m.len_scale) / mp.mpf(m.rescale)
    if name == "Gaussian":
        return L * mp.sqrt(mp.pi) / 2
    if name == "Exponential":
        return L
    if name == "Stable":
        return L * mp.gamma(1 + 1 / mp.mpf(m.alpha))
    if name == "Rational":
        a = mp.mpf(m.alpha)
        return L * mp.sqrt(mp.pi * a) * mp.gamma(a - 0.5) / mp.gamma(a) / 2 if a > 0.5 else mp.inf
    if name == "Matern":
        if m.nu > 20.0:
            return L * mp.sqrt(mp.pi)          # of the Gaussian limit the code actually evaluates
        nu = mp.mpf(m.nu)
        return L * mp.pi / mp.sqrt(nu) / mp.beta(nu, 0.5)
    if name == "Integral":
        nu = mp.mpf(m.nu)
        return L * nu * mp.sqrt(mp.pi) / (2 * nu + 2)
    if name == "JBessel":
        nu = mp.mpf(m.nu)
        return L * mp.sqrt(mp.pi) * mp.gamma(nu + 1) / mp.gamma(nu + 0.5)
    if name == "Linear":
        return L / 2
    if name == "Spherical":
        return 3 * L / 8
    if name == "Cubic":
        return 35 * L / 96
    if name == "Circular":
        return 4 * L / (3 * mp.pi)
    if name == "TPLSimple":
        return L / (mp.mpf(m.nu) + 1)
    if name in ("HyperSpherical", "SuperSpherical"):
        return mp.quad(ref, [0, L / 2, L])
    # TPL*: smooth, exponentially decaying beyond the upper scale
    up = (mp.mpf(m.len_low) + mp.mpf(m.len_scale)) / mp.mpf(m.rescale)
    return mp.quad(ref, [0, up / 100, up / 10, up, 3 * up, 10 * up, mp.inf])


def search_identities(ctx, rng, n_per_class, viol):
    """(a) the three identities + variants on the real API, whole bounds"""
    ev = 0
    for name in ALL_CLASSES:
        for _ in range(n_per_class):
            dim = gen_dim(rng, name)
            common = gen_common(rng)
            opt, _ = gen_opt(rng, name, dim, elementary=False)
            anis = [logu(rng, 0.1, 10) for _ in range(dim - 1)]
            angles = [float(rng.uniform(-np.pi, np.pi)) for _ in range(dim * (dim - 1) // 2)] if dim == 2 else []
            radius = float(rng.choice([1.0, 57.29577951308232, 6371.0]))
            m = make(name, dim, common, opt, anis=anis, angles=angles, geo_scale=radius)
            L = m.len_rescaled
            r = lag_grid(rng, L)
            case = {"cls": name, "dim": dim, "kw": {**common, **opt, "anis": anis, "angles": angles}}
            sill = m.var + m.nugget
            with warnings.catch_warnings(), np.errstate(all="ignore"):
                warnings.simplefilter("ignore")
                cor, cov, vario = m.correlation(r), m.covariance(r), m.variogram(r)
                fin = np.isfinite(cor)

                def chk(key, what, a, b, scale, rtol=1e-12):
                    nonlocal ev
                    ev += 1
                    bad = differs(np.asarray(a)[fin], np.asarray(b)[fin], scale, rtol)
                    if bad.any():
                        i = int(np.nanargmax(np.where(bad, np.abs(np.asarray(a, dtype=float)[fin] - np.asarray(b, dtype=float)[fin]), -1.0)))
                        viol.append({"key": key, "what": what, "case": {**case, "lag": float(r[fin][i]),
                                     "got": float(np.asarray(a)[fin][i]), "want": float(np.asarray(b)[fin][i])}})
                if not fin.all():
                    viol.append({"key": {"JBessel": "closed-form:JBessel:underflow-small-h",
                                         "Integral": "small-lag-breakdown:Integral"}.get(name, f"nonfinite:{name}"),
                                 "what": "correlation is not finite",
                                 "case": {**case, "lag": float(r[~fin][0])}})
                ev += 1
                if fin.any() and np.max(np.abs(cor[fin])) > 1 + 1e-9:
                    i = int(np.argmax(np.abs(np.where(fin, cor, 0.0))))
                    viol.append({"key": f"correlation-exceeds-one:{name}", "what": "|correlation| > 1",
                                 "case": {**case, "lag": float(r[i]), "got": float(cor[i])}})
                chk(f"identity:variogram:{name}", "variogram != var + nugget - covariance", vario, sill - cov, sill)
                chk(f"identity:covariance:{name}", "covariance != var * correlation", cov, m.var * cor, m.var)
                if m.len_rescaled != m.len_scale / m.rescale:
                    viol.append({"key": f"identity:len_rescaled:{name}", "what": "len_rescaled != len_scale / rescale", "case": case})
                # correlation(r) = cor(rescale r / len_scale): the argument is formed as the code documents it
                h = np.abs(r) / (m.len_scale / m.rescale)
                tplow = name in TPL3 and not np.isclose(m.len_low / m.rescale, 0.0)
                key = f"identity:cor-vs-correlation:{'TPL-len_low>0' if tplow else name}"
                chk(key, "correlation(r) != cor(rescale * r / len_scale)", cor, m.cor(h), 1.0)
                # range and value at zero
                ev += 1
                if abs(float(m.correlation(np.array([0.0]))[0]) - 1.0) > 1e-14:
                    viol.append({"key": f"cor0:{name}", "what": "correlation(0) != 1", "case": case})
                # nugget variants
                band = np.isclose(np.abs(r), 0)
                chk(f"nugget:cov:{name}", "cov_nugget differs from covariance off 0 / sill at 0", m.cov_nugget(r),
                    np.where(band, sill, cov), sill)
                chk(f"nugget:vario:{name}", "vario_nugget differs from variogram off 0 / 0 at 0", m.vario_nugget(r),
                    np.where(band, 0.0, vario), sill)
                # axis variants
                for axis in range(dim):
                    lag = r if axis == 0 else np.abs(r) / anis[axis - 1]
                    chk(f"axis:{name}", "vario_axis != variogram(|r| / anis[axis-1])", m.vario_axis(r, axis), m.variogram(lag), sill)
                    chk(f"axis:{name}", "cov_axis != covariance(|r| / anis[axis-1])", m.cov_axis(r, axis), m.covariance(lag), sill)
                    chk(f"axis:{name}", "cor_axis != correlation(|r| / anis[axis-1])", m.cor_axis(r, axis), m.correlation(lag), 1.0)
                # axis k behaves as the isotropic model with len_scale_vec[k]
                for axis in range(1, dim):
                    mi = make(name, dim, {**common, "len_scale": float(m.len_scale_vec[axis]), "rescale": m.rescale}, opt)
                    if name in TPL3 and m.len_low != 0:
                        break       # len_low is not scaled with the axis
                    # two different model objects: the lag is formed as (|r|/a)/L vs |r|/(L a); cancellation-prone classes
                    # (JBessel, TPL with len_low >> len_scale) amplify that last-ulp difference: absolute part x 1e3
                    chk(f"axis-lenvec:{name}", "vario_axis(r, k) != variogram of the model with len_scale_vec[k]",
                        m.vario_axis(r, axis), mi.variogram(r), 1e3 * sill, rtol=1e-9)
                # yadrenko
                zeta = rng.uniform(0, np.pi, r.size) * radius
                chord = 2 * radius * np.sin(zeta / (2 * radius))
                chk(f"yadrenko:{name}", "vario_yadrenko != variogram(2R sin(zeta/2R))", m.vario_yadrenko(zeta), m.variogram(chord), sill)
                chk(f"yadrenko:{name}", "cov_yadrenko != covariance(chord)", m.cov_yadrenko(zeta), m.covariance(chord), sill)
                chk(f"yadrenko:{name}", "cor_yadrenko != correlation(chord)", m.cor_yadrenko(zeta), m.correlation(chord), 1.0)
                # spatial: explicit derotation + scaling in 1-D / 2-D, scaling only in 3-D (angles 0)
                pos = rng.uniform(-2, 2, size=(dim, r.size)) * L
                if dim == 1:
                    rad = np.abs(pos[0])
                elif dim == 2:
                    c, s = np.cos(angles[0]), np.sin(angles[0])
                    x = c * pos[0] + s * pos[1]
                    y = -s * pos[0] + c * pos[1]
                    rad = np.sqrt(x ** 2 + (y / anis[0]) ** 2)
                else:
                    rad = np.sqrt(pos[0] ** 2 + (pos[1] / anis[0]) ** 2 + (pos[2] / anis[1]) ** 2)
                hs = rad / L
                sel = hs < 12
                fin_save = fin
                fin = sel
                chk(f"spatial:{name}", "vario_spatial != variogram(|isometrized pos|)", m.vario_spatial(pos), m.variogram(rad), 1e3 * sill, rtol=1e-9)
                chk(f"spatial:{name}", "cov_spatial != covariance(|isometrized pos|)", m.cov_spatial(pos), m.covariance(rad), 1e3 * sill, rtol=1e-9)
                chk(f"spatial:{name}", "cor_spatial != correlation(|isometrized pos|)", m.cor_spatial(pos), m.correlation(rad), 1e3 * 1.0, rtol=1e-9)
                fin = fin_save
    return ev


def search_user_routes(ctx, rng, n, viol):
    """(f) a user model given through any one of the four functions yields the same derived functions"""
    ev = 0
    kernels = {"exp": lambda h: np.exp(-np.abs(h)), "gau": lambda h: np.exp(-np.abs(h) ** 2),
               "sph": lambda h: 1.0 - 1.5 * np.minimum(np.abs(h), 1.0) + 0.5 * np.minimum(np.abs(h), 1.0) ** 3,
               "rat": lambda h: 1.0 / (1.0 + np.abs(h) ** 2), "wave": lambda h: np.cos(np.abs(h)) * np.exp(-np.abs(h))}
    for _ in range(n):
        kname = str(rng.choice(sorted(kernels)))
        K = kernels[kname]
        common = gen_common(rng)
        if common["rescale"] is None:
            common["rescale"] = 1.0
        dim = int(rng.randint(1, 4))
        ms = {}
        with warnings.catch_warnings():
            warnings.simplefilter("ignore")
            for route in ROUTES:
                ms[route] = make_user(route, K)(dim=dim, **common)
        L = ms["cor"].len_rescaled
        r = lag_grid(rng, L)
        ref = ms["cor"]
        sill = ref.var + ref.nugget
        amp = 2.0 + 2.0 * ref.nugget / ref.var
        truth = K(np.abs(r) / L)
        for route in ROUTES:
            m = ms[route]
            case = {"cls": f"user:{kname}", "route": route, "dim": dim, "kw": common}
            for fn, scale, want in (("correlation", amp, truth), ("covariance", ref.var * amp, ref.var * truth),
                                    ("variogram", sill * amp, sill - ref.var * truth), ("cor", amp, K(np.abs(r) / L))):
                x = r / L if fn == "cor" else r
                got = getattr(m, fn)(x)
                ev += 1
                bad = differs(got, want, scale)
                if bad.any():
                    i = int(np.argmax(bad))
                    viol.append({"key": f"user-route:{route}:{fn}", "what": f"user model defined via {route}: {fn} differs from the "
                                 "function that defines it", "case": {**case, "lag": float(x[i]), "got": float(got[i]), "want": float(want[i])}})
            # not providing any of the four must be refused
        ev += 1
    try:
        from gstools import CovModel

        class Nothing(CovModel):
            pass
        viol.append({"key": "user-route:abstract", "what": "subclass without cor/correlation/covariance/variogram accepted", "case": {}})
    except TypeError:
        pass
    return ev


def search_closed_forms(ctx, rng, n_per_class, viol):
    """(b) every shipped class against an mpmath evaluation (30 digits) of its documented formula"""
    import mpmath as mp
    ev = 0
    worst = {}
    old = mp.mp.dps
    mp.mp.dps = 30
    try:
        for name in ALL_CLASSES:
            for t in range(n_per_class):
                dim = gen_dim(rng, name)
                common = gen_common(rng)
                opt, _ = gen_opt(rng, name, dim, elementary=False)
                m = make(name, dim, common, opt)
                ref = mp_reference(name, m)
                L = m.len_rescaled
                scale_lo = L
                if name in TPL3:
                    # tplstable_cor treats |r / ell| <= 1e-8 as 0 for each of its two scales (documented hack; the cusped
                    # true function differs there by up to 1e-2): stay outside the band of the *upper* scale
                    scale_lo = (m.len_low + m.len_scale) / m.rescale
                r = np.concatenate([[0.0, 1e-6 * scale_lo, 1e-3 * L, 0.05 * L, np.nextafter(L, 0), L, np.nextafter(L, 2 * L), 2 * L, 6 * L,
                                     20 * L, 60 * L], rng.uniform(0, 1, 5) * L, rng.uniform(1, 8, 4) * L,
                                    np.exp(rng.uniform(np.log(1e-5), np.log(1e2), 5)) * L])
                with warnings.catch_warnings(), np.errstate(all="ignore"):
                    warnings.simplefilter("ignore")
                    got = np.asarray(m.correlation(r), dtype=float)
                want = np.array([float(ref(mp.mpf(float(x)))) for x in r])
                ev += r.size
                rtol, atol = CF_TOL.get(name, (1e-12, 8 * EPS))
                err = np.abs(got - want)
                bad = ~(err <= rtol * np.abs(want) + atol)
                err = np.where(np.isnan(err), np.inf, err)
                w = float(np.max(err / (rtol * np.abs(want) + atol + 1e-320)))
                worst[name] = max(worst.get(name, 0.0), w)
                if bad.any():
                    i = int(np.argmax(err - rtol * np.abs(want)))
                    key = f"closed-form:{name}"
                    if name == "JBessel" and want[i] > 0.5 and not got[i] > 0.0:
                        key = "closed-form:JBessel:underflow-small-h"
                    viol.append({"key": key, "what": "correlation differs from the documented formula (mpmath, 30 digits)",
                                 "case": {"cls": name, "dim": dim, "kw": {**common, **opt}, "lag": float(r[i]), "h": float(r[i] / L),
                                          "got": float(got[i]), "want": float(want[i])}})
    finally:
        mp.mp.dps = old
    return ev, worst


# (rtol, atol) of the closed-form comparison: what the scipy special functions behind each class deliver
CF_TOL = {
    "Gaussian": (1e-12, 0.0), "Exponential": (1e-13, 0.0), "Stable": (1e-12, 0.0), "Rational": (1e-12, 0.0),
    "Cubic": (1e-12, 64 * EPS), "Linear": (1e-13, 4 * EPS), "Circular": (1e-12, 16 * EPS), "Spherical": (1e-12, 16 * EPS),
    "TPLSimple": (1e-12, 64 * EPS),
    # scipy kv / expn / gammaincc / hyp2f1 (loses ~3 digits as z -> 1: 1 - h F/F(1) cancels at the support edge) / jv; Integral: first-order asymptotic branch of exp_int for x > 30 (|err| < e^-30)
    "Matern": (1e-12, 1e-300), "Integral": (1e-9, 1e-13), "HyperSpherical": (1e-11, 2048 * EPS), "SuperSpherical": (1e-10, 2048 * EPS),
    "JBessel": (1e-10, 1e-13), "TPLGaussian": (1e-11, 1e-13), "TPLExponential": (1e-11, 1e-13), "TPLStable": (1e-9, 1e-13),
}


# ------------------------------------------------------------------ special-function plumbing (tools/special.py)
# Integral / TPLGaussian / TPLExponential / TPLStable evaluate E_s(x) through tools.special.exp_int, whose branches are
#   np.isclose(s, 1) -> exp1;  np.isclose(s, around(s)) -> expn(int order);  x**e <= 1e-20 -> limit;  x > max(30, -s/2) ->
#   asymptote;  else inc_gamma(1 - s, x) * x**(s - 1)  with inc_gamma's own isclose / recursion branches.
# The samplers below derive shape values from those conditions instead of drawing them uniformly.
SPECIAL = ("Integral", "TPLGaussian", "TPLExponential", "TPLStable")
ISCLOSE_ATOL, ISCLOSE_RTOL = 1e-8, 1e-5


def nextk(v, k):
    v = float(v)
    for _ in range(abs(int(k))):
        v = float(np.nextafter(v, np.inf if k > 0 else -np.inf))
    return v


def band(n):
    """half width of np.isclose(s, n) with the numpy defaults"""
    return ISCLOSE_ATOL + ISCLOSE_RTOL * abs(n)


def order_targets(n):
    """orders around the integer n: on it, 1..4 ulp off, deep inside / at both edges of / just outside the isclose band,
    a quarter off, and the half-integers where around() switches (labels are for the evidence only)"""
    t = [("int", float(n))]
    tol = band(n)
    for sg, nm in ((-1, "below"), (1, "above")):
        t += [("ulp1-" + nm, nextk(n, sg)), ("ulp4-" + nm, nextk(n, 4 * sg)), ("rel1e-13-" + nm, n * (1 + sg * 1e-13)),
              ("rel1e-10-" + nm, n * (1 + sg * 1e-10)), ("band-mid-" + nm, n + sg * 0.3 * tol),
              ("band-edge-in-" + nm, n + sg * tol * (1 - 1e-4)), ("band-edge-out-" + nm, n + sg * tol * (1 + 1e-4)),
              ("off-band-" + nm, n + sg * 4 * tol), ("quarter-" + nm, n + sg * 0.25)]
    t += [("half", n + 0.5), ("half+ulp", nextk(n + 0.5, 1)), ("half-ulp", nextk(n + 0.5, -1))]
    return t


def order_of(name, opt):
    """order of the exponential integral behind class `name` (for sampling / classification only)"""
    if name == "Integral":
        return 1.0 + 0.5 * opt["nu"]
    alpha = {"TPLGaussian": 2, "TPLExponential": 1}.get(name) or opt["alpha"]
    return 1 + 2 * opt["hurst"] / alpha


def order_class(s):
    n = round(s)
    d = abs(s - n)
    if d == 0:
        return "integer"
    if d <= 16 * EPS * max(abs(n), 1):
        return "ulps-off"
    if d <= band(n):
        return "in-band"
    if d <= 8 * band(n):
        return "near-band"
    return "half" if abs(d - 0.5) < 1e-9 else "generic"


def shape_for_order(name, s, rng):
    """optional arguments of class `name` whose exponential-integral order is (up to rounding) s; None if outside the bounds"""
    if name == "Integral":
        nu = 2.0 * (s - 1.0)
        return {"nu": nu} if 0.0 < nu <= 50.0 else None
    if name in ("TPLGaussian", "TPLExponential"):
        h = (s - 1.0) * (1.0 if name == "TPLGaussian" else 0.5)
        return {"hurst": h} if 0.1 < h < 1.0 else None
    lo, hi = 0.2 / (s - 1.0), min(2.0, 2.0 / (s - 1.0))       # TPLStable: hurst = (s - 1) alpha / 2 in (0.1, 1)
    if not lo < hi:
        return None
    alpha = float(rng.choice([round(float(rng.uniform(lo, hi)), 2), float(rng.uniform(lo, hi))]))
    if not lo < alpha < hi:
        alpha = 0.5 * (lo + hi)
    return {"hurst": (s - 1.0) * alpha / 2.0, "alpha": alpha}


_DECIMAL_PAIRS = None


def decimal_pairs():
    """ordinary two-digit (hurst, alpha) pairs of TPLStable whose order 1 + 2 hurst / alpha is an integer in exact arithmetic
    but lands on / just below / just above it in doubles"""
    global _DECIMAL_PAIRS
    if _DECIMAL_PAIRS is None:
        out = {"integer": [], "below": [], "above": []}
        for j in range(11, 100):
            for k in range(1, 201):
                h, a = j / 100, k / 100
                s = 1 + 2 * h / a
                n = round(s)
                if s == n:
                    out["integer"].append((h, a))
                elif abs(s - n) < 1e-12:
                    out["below" if s < n else "above"].append((h, a))
        _DECIMAL_PAIRS = out
    return _DECIMAL_PAIRS


def recurrence_error_bound(s, x):
    """a-priori rounding error of E_s(x) computed as inc_gamma(1 - s, x) x**(s-1) by the upward recurrence
    Gamma(a, x) = (Gamma(a + 1, x) - x**a e**-x) / a from a base in [0, 1): eps e**-x sum_j x**j / prod_{i<=j} |a_i|, a_i = 1 - s + i < 0.
    It is what makes orders just outside the isclose band ill-conditioned (division by the distance to the integer);
    0 where the integer-order shortcut (scipy expn) is taken"""
    x = np.asarray(x, dtype=float)
    n = round(s)
    if abs(s - n) <= band(n) and s > -0.5:
        return np.zeros_like(x)
    a, j, logprod = 1.0 - s, 0, 0.0
    tot = np.zeros_like(x)
    with np.errstate(all="ignore"):
        lx = np.log(np.maximum(x, 1e-300))
        while a < 0 and j < 400:
            logprod += math.log(abs(a))
            tot += np.exp(np.minimum(j * lx - logprod - x, 700.0))
            a += 1.0
            j += 1
    return EPS * tot


def asymptote_error_bound(s, x):
    """what the documented first-order asymptote exp(-x) (1/x - s/x**2) of E_s(x), used for x > 30, admits: the first omitted term
    exp(-x) s (s + 1) / x**3 of the (alternating, enveloping) asymptotic series.  Also applied within 1e-9 of x = 30 (relative), where the rounding of
    x = h**alpha decides the branch"""
    x = np.asarray(x, dtype=float)
    with np.errstate(all="ignore"):
        return np.where(x >= 30.0 * (1 - 1e-9), np.exp(-x) * abs(s) * (abs(s) + 1.0) / np.maximum(x, 1.0) ** 3, 0.0)


def special_lags(name, m, rng):
    """lags that put the argument x = h**alpha of E_s just outside the code's snap-to-zero band, through the small-x range,
    on both sides of the asymptote switch x = 30 and far into the tail; h relative to each truncation scale of the model"""
    alpha = {"Integral": 2.0, "TPLGaussian": 2.0, "TPLExponential": 1.0}.get(name) or float(m.alpha)
    xs = [1e-3, 0.3, 1.0, 5.0, 29.9, 30.0, nextk(30.0, 1), 30.5, 45.0, 200.0, 800.0, float(rng.uniform(0.01, 30.0)),
          float(rng.uniform(30.0, 60.0))]
    hs = [1.05e-8, 1e-7, 1e-5, 1e-3] + [math.exp(math.log(x) / alpha) for x in xs if abs(math.log(x) / alpha) < 300]
    hs = [h for h in hs if h >= 1.05e-8]      # tplstable_cor snaps |r / len| <= 1e-8 to the value at 0
    if name == "Integral":
        scales = [m.len_rescaled]
        hs += [0.9e-10, 1.1e-10]          # x = h**2 on both sides of the x <= 1e-20 limit branch
    else:
        up = (m.len_low + m.len_scale) / m.rescale
        scales = [up]
        if m.len_low / m.rescale > 1e-8:
            lo = m.len_low / m.rescale
            hs = [h for h in hs if h * lo > 1.05e-8 * up] + [1.05e-8 * up / lo]    # stay outside the snap band of the upper scale
            scales.append(lo)
    r = [0.0] + [h * sc for sc in scales for h in hs]
    return np.array(sorted(set(x for x in r if np.isfinite(x) and x < 1e200)))


def special_cases(ctx, rng):
    """(class, optional arguments, label): orders derived from the branch conditions of tools.special"""
    cases = []
    ints = {"Integral": list(range(1, 27)), "TPLGaussian": [1, 2], "TPLExponential": [1, 2, 3],
            "TPLStable": list(range(2, 13)) + [17, 26, 41, 101, 181]}
    for name in SPECIAL:
        allowed = ints[name]
        if ctx.quick:       # the smallest / largest reachable integers always, a seed-dependent choice of the others
            inner = allowed[1:-1]
            pick = sorted(set([allowed[0], allowed[-1]] + list(rng.choice(inner, size=min(3, len(inner)), replace=False)))) \
                if inner else allowed
        else:
            pick = allowed
        for n in pick:
            for label, s in order_targets(n):
                if s <= 1.0:
                    continue
                for _ in range(2 if name == "TPLStable" else 1):
                    opt = shape_for_order(name, s, rng)
                    if opt is not None:
                        cases.append((name, opt, f"n={n}:{label}"))
    pairs = decimal_pairs()
    for kind, k in (("integer", 4), ("below", 10), ("above", 10)):
        idx = rng.choice(len(pairs[kind]), size=min(len(pairs[kind]), ctx.scale(k, 4 * k)), replace=False)
        for i in idx:
            h, a = pairs[kind][int(i)]
            cases.append(("TPLStable", {"hurst": h, "alpha": a}, "decimal-pair:" + kind))
    return cases


def search_special_orders(ctx, rng, viol):
    """(b') closed forms of the exponential-integral families on orders ON / next to integers and the other branch
    boundaries of tools.special, all lags from just outside the snap band to the far tail, against mpmath (30 digits).
    Inside the isclose band the code evaluates the integer order: a result that matches that (and not the documented
    order) is reported under its own key `closed-form:integer-order-snap:<cls>`; anything else under `closed-form:<cls>`."""
    import mpmath as mp
    ev = 0
    dist = {}
    worst = {}
    old = mp.mp.dps
    mp.mp.dps = 30
    try:
        for name, opt, label in special_cases(ctx, rng):
            dim = gen_dim(rng, name)
            common = gen_common(rng)
            opt = dict(opt)
            if name in TPL3:
                opt["len_low"] = float(rng.choice([0.0, 0.0, rng.uniform(0.05, 5)]))
            try:
                m = make(name, dim, common, opt)
            except ValueError:
                continue
            s = order_of(name, opt)
            cls = order_class(s)
            dist[f"{name}:{cls}"] = dist.get(f"{name}:{cls}", 0) + 1
            r = special_lags(name, m, rng)
            with warnings.catch_warnings(), np.errstate(all="ignore"):
                warnings.simplefilter("ignore")
                got = np.asarray(m.correlation(r), dtype=float)
            ref = mp_reference(name, m)
            want = np.array([float(ref(mp.mpf(float(x)))) for x in r])
            ev += r.size
            rtol, atol = CF_TOL[name]
            # conditioning of the code's recurrence (see recurrence_error_bound), per truncation scale
            alpha = {"Integral": 2.0, "TPLGaussian": 2.0, "TPLExponential": 1.0}.get(name) or float(m.alpha)
            pref = abs(s - 1.0)
            both = lambda x: 64 * recurrence_error_bound(s, x) + asymptote_error_bound(s, x)
            if name == "Integral" or m.len_low / m.rescale <= 1e-8:
                cond = pref * both((r / m.len_rescaled) ** alpha)
            else:
                up, lo = (m.len_low + m.len_scale) / m.rescale, m.len_low / m.rescale
                wu, wl = up ** (2 * m.hurst), lo ** (2 * m.hurst)
                cond = pref * (wu * both((r / up) ** alpha) + wl * both((r / lo) ** alpha)) / (wu - wl)
                atol = atol * (wu + wl) / (wu - wl)
            tol = rtol * np.abs(want) + atol + cond
            err = np.abs(got - want)
            bad = ~(err <= tol)
            okerr = np.where(np.isfinite(err), err, np.inf)
            worst[name] = max(worst.get(name, 0.0), float(np.max(okerr / (tol + 1e-320))))
            if not bad.any():
                continue
            case = {"cls": name, "dim": dim, "kw": {**common, **opt}, "order": s, "order_class": cls, "sample": label}
            nonfin = bad & ~np.isfinite(got)
            if nonfin.any():
                i = int(np.argmax(nonfin))
                if r[i] == 0 and name == "Integral" and round(s) == 1 and cls in ("in-band", "ulps-off"):
                    nkey = "nonfinite-at-zero:Integral"        # exp1 shortcut for nu <= ~2e-5: exp1(0) = inf
                elif name == "Integral" and m.nu >= 30.0 and 0 < r[i] <= 1e-6 * m.len_rescaled and want[i] > 0.5:
                    nkey = "small-lag-breakdown:Integral"      # x**(s-1) underflows, inf * 0
                else:
                    nkey = f"nonfinite:{name}"
                viol.append({"key": nkey,
                             "what": "correlation is not finite", "case": {**case, "lag": float(r[i]), "got": float(got[i]), "want": float(want[i])}})
                bad = bad & np.isfinite(got)
            if not bad.any():
                continue
            key = f"closed-form:{name}"
            if name == "Integral" and (r[bad] <= 1.0000001e-10 * m.len_rescaled).all() and (np.abs(got[bad] - 1.0) <= 1e-12).all():
                key = "closed-form:Integral:origin-limit"      # E_s(x) replaced by its limit 1/(s-1) for x = h**2 <= 1e-20: cor = 1
            elif cls in ("in-band", "ulps-off"):
                refs = mp_reference(name, m, snap=True)
                wsnap = np.array([float(refs(mp.mpf(float(x)))) for x in r])
                if (np.abs(got[bad] - wsnap[bad]) <= rtol * np.abs(wsnap[bad]) + atol).all():
                    key = f"closed-form:integer-order-snap:{name}"
            i = int(np.argmax(np.where(bad, err - tol, -np.inf)))
            viol.append({"key": key, "what": "correlation differs from the documented formula (mpmath, 30 digits) for an order of the "
                         "exponential integral on / next to an integer", "case": {**case, "lag": float(r[i]), "got": float(got[i]), "want": float(want[i]),
                                                                                   "n_bad": int(bad.sum())}})
    finally:
        mp.mp.dps = old
    return ev, worst, dist


def search_special_helpers(ctx, rng, viol):
    """(b'') the public helpers of tools.special themselves against mpmath (40 digits) on well-conditioned arguments: exact
    integer orders and orders well outside the isclose bands (the bands are covered through the models above), arguments on
    both sides of the x <= 1e-20 limit, the x = 30 asymptote switch, x < 0, poles of the lower incomplete gamma function"""
    import mpmath as mp
    from gstools.tools import special as gsp
    ev = 0
    old = mp.mp.dps
    mp.mp.dps = 40

    def report(fn, args, x, got, want):
        viol.append({"key": f"special:{fn}", "what": f"tools.special.{fn} differs from its definition (mpmath, 40 digits)",
                     "case": {"cls": fn, "kw": args, "x": float(x), "got": float(got), "want": float(want)}})

    def check(fn, args, xs, got, want, tol):
        nonlocal ev
        got, want = np.asarray(got, dtype=float), np.asarray(want, dtype=float)
        ev += got.size
        same = (got == want) | (np.isnan(got) & np.isnan(want))
        with np.errstate(all="ignore"):
            bad = ~same & ~(np.abs(got - want) <= tol)
        if bad.any():
            i = int(np.argmax(bad))
            report(fn, args, xs[i], got[i], want[i])
    try:
        with warnings.catch_warnings(), np.errstate(all="ignore"):
            warnings.simplefilter("ignore")
            # exp_int
            ints = [1, 2, 3, 7, 26, 101] if ctx.quick else list(range(1, 30)) + [57, 101]
            orders = [float(n) for n in ints] + [n + d for n in ints[:4] for d in (0.25, 0.5, -0.25)] + list(rng.uniform(1.05, 30, ctx.scale(4, 30))) \
                + [0.5, 0.0, -1.5, -7.25]
            for s in orders:
                xs = np.array([-2.0, 0.0, 1e-30, 1e-12, 1e-6, 1e-3, 0.1, 1.0, 5.0, 29.9, 30.0, 30.1, 50.0, 200.0] + list(np.exp(rng.uniform(-14, 4, 3))))
                if s < 3.0:
                    xs = xs[(xs <= 0) | (xs >= 1e-13)]      # limit branch 1/(s-1) below 1e-20 is only accurate for orders >= ~3 (finding N5)
                if s <= 1.0:
                    xs = xs[(xs < 0) | (xs >= 0.1)]         # orders <= 1 are not used by any model: regular arguments only
                if s >= 15.0 and s != round(s):
                    xs = xs[(xs <= 0) | (xs >= 1e-3)]       # inf * 0 for small x and large non-integer order (finding N2)
                got = gsp.exp_int(s, xs)
                want = np.array([float(mp.expint(mp.mpf(s), mp.mpf(float(x)))) if x > 0 else (np.nan if x < 0 else (1.0 / (s - 1.0) if s > 1 else np.inf))
                                 for x in xs])
                tol = 1e-9 * np.abs(want) + 1e-13 + 64 * recurrence_error_bound(s, np.abs(xs)) + asymptote_error_bound(s, np.abs(xs))
                check("exp_int", {"s": s}, xs, got, want, tol)
            # inside the isclose bands the helpers evaluate the integer order (finding N4): compare with exactly that
            xs = np.array([1e-6, 1e-3, 0.1, 1.0, 5.0, 29.0, 31.0, 100.0])
            for n in ([1, 2, 3, 26] if ctx.quick else list(range(1, 28))):
                for sg in (-1, 1):
                    for d in (0.0, 4 * EPS * n, 0.5 * band(n), 0.99 * band(n)):
                        s = n + sg * d
                        want = np.array([float(mp.expint(n, mp.mpf(float(x)))) for x in xs])
                        check("exp_int", {"s": s, "integer_order": n}, xs, gsp.exp_int(s, xs), want, 1e-11 * np.abs(want) + 1e-300)
                        if n == 1:
                            continue
                        sn = 1.0 - s        # order of inc_gamma next to the non-positive integer 1 - n
                        want = np.array([float(mp.mpf(float(x)) ** mp.mpf(sn) * mp.expint(n, mp.mpf(float(x)))) for x in xs])
                        if abs(sn - (1 - n)) <= band(1 - n):
                            check("inc_gamma", {"s": sn, "integer_order": 1 - n}, xs, gsp.inc_gamma(sn, xs), want, 1e-11 * np.abs(want) + 1e-300)
                            check("inc_gamma_low", {"s": sn, "integer_order": 1 - n}, xs, gsp.inc_gamma_low(sn, xs), np.full(xs.shape, np.inf), 0.0)
            # inc_gamma / inc_gamma_low
            xs = np.array([1e-6, 1e-3, 0.1, 1.0, 5.0, 30.0, 100.0] + list(np.exp(rng.uniform(-10, 3, 3))))
            for s in [0.0, -1.0, -2.0, -5.0, 1.0, 2.5, 0.5, -0.5, -1.5, -2.25, -7.3, 3.7] + list(rng.uniform(-6, 5, ctx.scale(3, 30))):
                if order_class(s) in ("in-band", "ulps-off", "near-band"):
                    continue
                want = np.array([float(mp.gammainc(mp.mpf(s), mp.mpf(float(x)), mp.inf)) for x in xs])
                cond = recurrence_error_bound(1.0 - s, xs) * xs ** s if s < 0 else 0.0
                check("inc_gamma", {"s": s}, xs, gsp.inc_gamma(s, xs), want, 1e-10 * np.abs(want) + 64 * cond)
                if s == round(s) and s <= 0:
                    wl = np.full(xs.shape, np.inf)
                else:
                    # s > 0: the integral itself; s < 0: its analytic continuation Gamma(s) - Gamma(s, x) (120 digits: it cancels)
                    with mp.workdps(120):
                        wl = np.array([float(mp.gammainc(mp.mpf(s), 0, mp.mpf(float(x))) if s > 0 else
                                             mp.gamma(mp.mpf(s)) - mp.gammainc(mp.mpf(s), mp.mpf(float(x)), mp.inf)) for x in xs])
                check("inc_gamma_low", {"s": s}, xs, gsp.inc_gamma_low(s, xs), wl, 1e-10 * np.abs(wl) + 64 * cond + 1e-300)
            # inc_beta
            for _ in range(ctx.scale(4, 40)):
                a, b = float(rng.uniform(0.2, 5)), float(rng.uniform(0.2, 5))
                xs = np.array([0.0, 1e-6, 0.1, 0.5, 0.9, 1.0, float(rng.uniform(0, 1))])
                want = np.array([float(mp.betainc(a, b, 0, float(x))) for x in xs])
                check("inc_beta", {"a": a, "b": b}, xs, gsp.inc_beta(a, b, xs), want, 1e-10 * np.abs(want) + 1e-14)
            # tplstable_cor
            pairs = decimal_pairs()
            pp = [pairs[k][int(i)] for k in ("integer", "below", "above") for i in rng.choice(len(pairs[k]), size=ctx.scale(2, 12), replace=False)]
            pp += [(float(rng.uniform(0.1001, 0.999)), float(rng.uniform(0.05, 2.0))) for _ in range(ctx.scale(4, 30))]
            for hurst, alpha in pp:
                ln = logu(rng, 1e-3, 1e3)
                hs = np.array([0.0, 0.5e-8, 1.05e-8, 1e-6, 1e-3, 0.3, 1.0, 3.0] + [x ** (1.0 / alpha) for x in (29.9, 30.5, 100.0) if x ** (1.0 / alpha) < 1e100])
                sord = 1 + 2 * hurst / alpha
                want = np.array([1.0 if h <= 1e-8 else float(2 * mp.mpf(hurst) / mp.mpf(alpha) * mp.expint(1 + 2 * mp.mpf(hurst) / mp.mpf(alpha), mp.mpf(float(h)) ** mp.mpf(alpha)))
                                 for h in hs])
                tol = 1e-9 * np.abs(want) + 1e-13 + abs(sord - 1.0) * (64 * recurrence_error_bound(sord, hs ** alpha) + asymptote_error_bound(sord, hs ** alpha))
                check("tplstable_cor", {"hurst": hurst, "alpha": alpha, "len_scale": ln}, hs, gsp.tplstable_cor(hs * ln, ln, hurst, alpha), want, tol)
    finally:
        mp.mp.dps = old
    return ev


REFUSED = {}


def search_integral_scale(ctx, rng, n_per_class, viol):
    """(c) reported integral scale against the integral of the documented correlation; setter"""
    import mpmath as mp
    ev = 0
    old = mp.mp.dps
    mp.mp.dps = 20
    try:
        for name in ALL_CLASSES:
            for t in range(n_per_class):
                dim = gen_dim(rng, name)
                common = gen_common(rng)
                opt, _ = gen_opt(rng, name, dim, elementary=False)
                if name == "Rational" and opt["alpha"] <= 0.5:
                    continue    # integral diverges at alpha = 0.5 (the code returns inf / nan there)
                m = make(name, dim, common, opt)
                with warnings.catch_warnings(), np.errstate(all="ignore"):
                    warnings.simplefilter("ignore")
                    rep = float(m.integral_scale)
                    truth = float(exact_integral_scale(name, m, mp_reference(name, m)))
                ev += 1
                if name == "JBessel":
                    key = "integral-scale:JBessel"
                elif name == "Matern" and m.nu > 20.0:
                    key = "integral-scale:Matern-nu>20"
                else:
                    key = f"integral-scale:{name}"
                # quad-based values: see intscale_case (observed error <= 2e-5 on kinked integrands)
                rtol = 1e-4 if name not in ("Gaussian", "Exponential", "Stable", "Rational", "Matern", "Integral") else 1e-11
                case = {"cls": name, "dim": dim, "kw": {**common, **opt}, "reported": rep, "integral_of_correlation": truth}
                if not abs(rep - truth) <= rtol * abs(truth):
                    viol.append({"key": key, "what": "integral_scale is not the integral of the correlation over all lags", "case": case})
                    continue
                # prescribing the integral scale
                want = logu(rng, 0.05, 20.0)
                with warnings.catch_warnings(), np.errstate(all="ignore"):
                    warnings.simplefilter("ignore")
                    try:
                        m2 = make(name, dim, common, opt, integral_scale=want)
                    except ValueError as e:
                        if name in TPL3 and opt.get("len_low", 0.0) > 0:
                            REFUSED[name] = REFUSED.get(name, 0) + 1      # loud, documented refusal: len_low is kept fixed
                            continue
                        viol.append({"key": f"integral-scale-setter:{name}", "what": f"integral_scale could not be prescribed: {e}",
                                     "case": {**case, "prescribed": want}})
                        continue
                    ref2 = mp_reference(name, m2)
                    truth2 = float(exact_integral_scale(name, m2, ref2))
                ev += 1
                # TPL models: len_low is kept, so the prescribed value is only reached within the setter's own 1e-3
                if not abs(truth2 - want) <= max(rtol, 1e-9) * want and not (name in TPL3 and m2.len_low > 0):
                    viol.append({"key": f"integral-scale-setter:{name}", "what": "after integral_scale=I the integral of the correlation is not I",
                                 "case": {**case, "prescribed": want, "len_scale_after": m2.len_scale, "integral_after": truth2}})
    finally:
        mp.mp.dps = old
    return ev


# ------------------------------------------------------------------ percentile scale: independent oracle
# geometric lag grid (ratio 1.02) from 1e-9 to ~60 in units of the (upper) rescaled length
PCT_GRID = np.concatenate([[0.0], 1e-9 * 1.02 ** np.arange(0, 1260)])


def pct_curve(m, x, per):
    """the curve whose root the percentile scale is: 1 - correlation(x) - per (public API only)"""
    with warnings.catch_warnings(), np.errstate(all="ignore"):
        warnings.simplefilter("ignore")
        return 1.0 - np.asarray(m.correlation(np.atleast_1d(np.asarray(x, dtype=float))), dtype=float) - per


def percentile_grid(m):
    """the correlation on the bracketing grid (depends on the model only; shared by several percentiles)"""
    L = float(m.len_rescaled)
    if hasattr(m, "len_low"):
        L = float((m.len_low + m.len_scale) / m.rescale)
    g = L * PCT_GRID
    return L, g, pct_curve(m, g, 0.0)


def smallest_percentile_lag(m, per, grid=None):
    """the SMALLEST positive lag at which the correlation has dropped to 1 - per, found without gstools' root finder: the
    first sign change of the curve on a geometric grid starting at 0 (where it is -per < 0), refined by bisection (brentq).
    Lags below 1e-3 (upper) len_rescaled at which a model that is smooth at the origin (correlation(1e-3 L) > 0.99) reports NaN or
    a smaller correlation than at 1e-3 L are the small-lag breakdown of the known findings N1 / N2 and are skipped.
    None: no sign change up to 60 L or a NaN inside the bracket."""
    from scipy.optimize import brentq
    L, g, v0 = grid if grid is not None else percentile_grid(m)
    v = v0 - per
    k = int(np.searchsorted(PCT_GRID, 1e-3))
    if np.isfinite(v[k]) and v[k] + per < 0.01:
        small = np.arange(g.size) < k
        v = np.where(small & (np.isnan(v) | (v > v[k] + 1e-6)), -per, v)
    prev = 0
    for i in range(1, g.size):
        if np.isnan(v[i]):
            prev = None
            continue
        if v[i] < 0:
            prev = i
            continue
        if prev is None:
            return None
        return float(brentq(lambda x: float(pct_curve(m, x, per)[0]), g[prev], g[i], xtol=1e-16 * L, rtol=1e-14))
    return None


def percentile_outcome(m, x, x0, per):
    """'ok': x is positive, the variogram there is nugget + per * var (1e-6 var) and x is the smallest such lag x0 (1e-6 relative,
    or the curve stays within 1e-5 of its root value between the two); 'unconverged-root' / 'negative-root' / 'not-smallest-root'"""
    with warnings.catch_warnings(), np.errstate(all="ignore"):
        warnings.simplefilter("ignore")
        g = float(np.asarray(m.variogram(np.array([x])), dtype=float)[0])
    if not abs(g - m.nugget - per * m.var) <= 1e-6 * m.var + 64 * EPS * (m.var + m.nugget):
        return "unconverged-root", g
    if x < 0:
        return "negative-root", g
    if x0 is None or abs(x - x0) <= 1e-6 * x0:
        return "ok", g
    mid = np.linspace(min(x, x0), max(x, x0), 33)
    if np.nanmax(np.abs(pct_curve(m, mid, per))) <= 1e-5:
        return "ok", g
    return "not-smallest-root", g


def documented_percentile_search(m, per):
    """the procedure `percentile_scale` documents, carried out here: scipy.optimize.root on 1 - correlation(x) - per from the
    initial guess per * len_rescaled (len_rescaled = len_scale / rescale computed from the raw attributes)"""
    from scipy.optimize import root
    with warnings.catch_warnings(), np.errstate(all="ignore"):
        warnings.simplefilter("ignore")
        return float(root(lambda z: 1.0 - m.correlation(z) - per, per * (m.len_scale / m.rescale))["x"][0])


def check_percentile(m, name, per, case, viol, grid=None):
    """percentile_scale(per) against the independent oracle.  A failure that the documented search (root finder started at
    per * len_rescaled) shows as well is the known weakness K3 of that search (peaked / oscillating models: unconverged or mirrored
    root, keys unchanged); a failure on an input where the documented search DOES find the smallest positive root has its own key"""
    with warnings.catch_warnings(), np.errstate(all="ignore"):
        warnings.simplefilter("ignore")
        try:
            x = float(m.percentile_scale(per))
        except Exception as e:   # noqa
            viol.append({"key": f"percentile-scale:raised:{name}", "what": f"percentile_scale raised {type(e).__name__}: {e}",
                         "case": {**case, "per": per}})
            return 1
    x0 = smallest_percentile_lag(m, per, grid)
    out, g = percentile_outcome(m, x, x0, per)
    if out == "ok":
        return 1
    c = {**case, "per": per, "scale": x, "variogram": g, "want": m.nugget + per * m.var, "smallest_lag_reaching_per": x0,
         "len_rescaled": float(m.len_scale / m.rescale)}
    xr = documented_percentile_search(m, per)
    outr, _ = percentile_outcome(m, xr, x0, per)
    what = {"unconverged-root": "variogram(percentile_scale(per)) != nugget + per * var (scipy root did not converge; its `success` flag is ignored)",
            "negative-root": "percentile_scale(per) is a negative lag (mirror root of the even function)",
            "not-smallest-root": "percentile_scale(per) is a lag where the variogram reaches per * var, but not the smallest one"}[out]
    if outr == "ok":
        viol.append({"key": f"percentile-scale:wrong-where-documented-search-converges:{name}",
                     "what": what + f"; the documented search (root finder started at per * len_rescaled = {float(per * m.len_scale / m.rescale)!r}) converges to "
                                    f"{xr!r}, the smallest positive lag with variogram = nugget + per * var", "case": {**c, "documented_search": xr}})
    elif out == "not-smallest-root":
        viol.append({"key": f"percentile-scale:not-smallest-root:{name}", "what": what, "case": {**c, "documented_search": xr}})
    else:
        viol.append({"key": f"percentile-scale:{out}", "what": what, "case": c})
    return 1


def search_percentile(ctx, rng, n_per_class, viol):
    """(d) percentile_scale substituted back into the variogram and compared with the smallest positive lag reaching the percentile"""
    ev = 0
    for name in ALL_CLASSES:
        for t in range(n_per_class):
            dim = gen_dim(rng, name)
            common = gen_common(rng)
            opt, _ = gen_opt(rng, name, dim, elementary=False)
            m = make(name, dim, common, opt)
            grid = percentile_grid(m)
            for per in (0.1, 0.5, 0.9, float(rng.uniform(0.02, 0.98))):
                ev += check_percentile(m, name, per, {"cls": name, "dim": dim, "kw": {**common, **opt}}, viol, grid)
            for bad_per in (0.0, 1.0, -0.1, 1.5):
                ev += 1
                try:
                    m.percentile_scale(bad_per)
                    viol.append({"key": f"percentile-scale:range:{name}", "what": "percentile outside (0, 1) accepted",
                                 "case": {"cls": name, "per": bad_per}})
                except ValueError:
                    pass
    return ev


RESCALE_SET = [None, 0.3, 1.5, 2.0, 3.0]       # None = the class default


def search_scale_functions(ctx, rng, reps, viol):
    """(d') the scale functions under a non-default `rescale`, for every shipped class (the compactly supported ones included), rescale in
    {default, 0.3, 1.5, 2, 3}, on a freshly built model and on a model whose `rescale` was changed in place after it had been read:
      * percentile_scale(per), per in {0.1, 0.5, 0.9, random}: variogram(percentile_scale) = nugget + per * var and it is the smallest
        positive such lag (check_percentile: independent bracketing oracle; K3 only where the documented search itself fails);
      * integral_scale = independent quadrature of the current correlation (split at the range);
      * integral_scale <-> len_scale round trip: prescribing f * integral_scale multiplies len_scale by f, the reported integral scale is
        the prescribed one, and a fresh model with that len_scale reports it too."""
    ev = 0
    dist = {}
    exact = ("Gaussian", "Exponential", "Stable", "Rational", "Matern", "Integral")
    slow = TPL3 + ("JBessel", "Integral")
    for ic, name in enumerate(ALL_CLASSES):
        for rep in range(reps):
            for ir, resc in enumerate(RESCALE_SET):
                for mode in ("fresh", "in-place"):
                    dim = gen_dim(rng, name)
                    opt, _ = gen_opt(rng, name, dim, elementary=False)
                    common = dict(var=logu(rng, 0.1, 10.0), nugget=float(rng.choice([0.0, 0.5, rng.uniform(0, 3)])),
                                  len_scale=float(rng.choice([1.0, 12.5, 0.3, logu(rng, 0.05, 50.0)])), rescale=resc)
                    case = {"cls": name, "dim": dim, "kw": {**common, **opt}, "mode": mode}
                    if mode == "fresh":
                        m = make(name, dim, common, opt)
                    else:
                        first = RESCALE_SET[(ir + 1 + int(rng.randint(len(RESCALE_SET) - 1))) % len(RESCALE_SET)]
                        m = make(name, dim, {**common, "rescale": first}, opt)
                        with warnings.catch_warnings(), np.errstate(all="ignore"):
                            warnings.simplefilter("ignore")
                            # read before the change (whatever the object memoises); the quad-based integral scale of the
                            # exponential-integral classes costs 30 ms per read: there only the cheap accessors
                            try:
                                m.percentile_scale(0.5), m.correlation(np.array([0.5 * m.len_rescaled])), m.len_rescaled
                                if name not in slow:
                                    m.integral_scale
                            except Exception:   # noqa
                                pass
                            m.rescale = float(m.default_rescale()) if resc is None else resc
                        case["rescale_before"] = first
                    case["kw"]["rescale"] = float(m.rescale)
                    rk = "default" if resc is None else ("<1" if resc < 1 else ">1")
                    dist[f"{mode}:rescale {rk}"] = dist.get(f"{mode}:rescale {rk}", 0) + 1
                    grid = percentile_grid(m)
                    for per in (0.1, 0.5, 0.9, float(rng.uniform(0.02, 0.98))):
                        ev += check_percentile(m, name, per, case, viol, grid)
                    # integral scale against the independent quadrature (D11 / D12 / divergent integral: see search_histories)
                    skip = name == "JBessel" or (name == "Matern" and m.nu > 20.0) or (name == "Rational" and m.alpha <= 0.55)
                    if skip or (name in slow and (ir + ic + rep + ctx.seed) % 3 != 0 and ctx.quick):
                        continue
                    with warnings.catch_warnings(), np.errstate(all="ignore"):
                        warnings.simplefilter("ignore")
                        rep_is = float(m.integral_scale)
                        truth, qerr = quad_of_correlation(m, name)
                    ev += 1
                    rtol = 1e-7 if name in exact else 1e-4
                    if np.isfinite(truth) and qerr <= 1e-6 * abs(truth) and not abs(rep_is - truth) <= rtol * abs(truth):
                        viol.append({"key": f"integral-scale:{name}", "what": "integral_scale is not the integral of the correlation over all lags "
                                     "(independent quadrature of model.correlation, non-default rescale)",
                                     "case": {**case, "reported": rep_is, "integral_of_correlation": truth}})
                        continue
                    if name in TPL3 and m.len_low > 0:
                        continue        # documented refusal: len_low is kept fixed
                    fac = float(rng.choice([0.5, 2.0, logu(rng, 0.1, 10.0)]))
                    len0 = float(m.len_scale)
                    with warnings.catch_warnings(), np.errstate(all="ignore"):
                        warnings.simplefilter("ignore")
                        try:
                            m.integral_scale = fac * rep_is
                        except ValueError as e:
                            viol.append({"key": f"integral-scale-setter:{name}", "what": f"integral_scale could not be prescribed: {e}",
                                         "case": {**case, "prescribed": fac * rep_is}})
                            continue
                        after = float(m.integral_scale)
                        m3 = fresh_like(name, m)
                        again = float(m3.integral_scale)
                    ev += 3
                    srt = 1e-9 if name in exact else 1e-4
                    if not (abs(after - fac * rep_is) <= srt * fac * rep_is and abs(m.len_scale - fac * len0) <= max(srt, 1e-9) * fac * len0
                            and abs(again - fac * rep_is) <= srt * fac * rep_is):
                        viol.append({"key": f"integral-scale-setter:{name}", "what": "len_scale <-> integral_scale do not round-trip: after model.integral_scale = f * I "
                                     "the reported integral scale / len_scale are not f * I / f * len_scale, or a fresh model with that len_scale reports another one",
                                     "case": {**case, "f": fac, "integral_scale_before": rep_is, "len_scale_before": len0, "reported_after": after,
                                              "len_scale_after": float(m.len_scale), "fresh_model_reports": again}})
    return ev, dist


# ------------------------------------------------------------ derived quantities after in-place parameter changes
COMPACT = ("Cubic", "Linear", "Circular", "Spherical", "HyperSpherical", "SuperSpherical", "TPLSimple")
USER_HIST = ("user:cauchy", "user:powexp", "user:wave-vario")


def user_hist_class(tag):
    """user-defined models with an optional (shape) argument, given through cor / correlation / variogram; none of them
    overrides calc_integral_scale, so they rely on whatever the base class does"""
    from gstools import CovModel
    if tag == "user:cauchy":
        class UserCauchy(CovModel):
            def default_opt_arg(self):
                return {"shape": 1.5}

            def default_opt_arg_bounds(self):
                return {"shape": [0.75, 20.0]}

            def cor(self, h):
                return (1.0 + np.asarray(h, dtype=float) ** 2) ** (-self.shape)
        return UserCauchy
    if tag == "user:powexp":
        class UserPowExp(CovModel):
            def default_opt_arg(self):
                return {"power": 1.2}

            def default_opt_arg_bounds(self):
                return {"power": [0.4, 2.0]}

            def correlation(self, r):
                return np.exp(-(np.abs(np.asarray(r, dtype=float)) / self.len_rescaled) ** self.power)
        return UserPowExp

    class UserDampedVario(CovModel):
        def default_opt_arg(self):
            return {"damp": 1.0}

        def default_opt_arg_bounds(self):
            return {"damp": [0.5, 5.0]}

        def variogram(self, r):
            h = np.abs(np.asarray(r, dtype=float)) / self.len_rescaled
            return self.var * (1.0 - np.exp(-self.damp * h) * (1.0 + h) ** -2) + self.nugget
    return UserDampedVario


def hist_class(name):
    return user_hist_class(name) if name.startswith("user:") else getattr(_gs(), name)


def hist_opt(rng, name, dim):
    if name == "user:cauchy":
        return {"shape": float(rng.uniform(0.8, 6.0))}
    if name == "user:powexp":
        return {"power": float(rng.uniform(0.5, 2.0))}
    if name == "user:wave-vario":
        return {"damp": float(rng.uniform(0.5, 5.0))}
    return gen_opt(rng, name, dim, elementary=False)[0]


def state_of(m):
    """everything a freshly built model is given"""
    kw = dict(dim=m.dim, var=m.var, len_scale=m.len_scale, nugget=m.nugget, rescale=m.rescale, anis=list(map(float, m.anis)),
              angles=list(map(float, m.angles)))
    for k in m.opt_arg:
        kw[k] = getattr(m, k)
    return kw


def fresh_like(name, m):
    with warnings.catch_warnings():
        warnings.simplefilter("ignore")
        return hist_class(name)(**state_of(m))


def quad_of_correlation(m, name):
    """independent quadrature of the CURRENT m.correlation over [0, inf): split at the range so that the kink of the compactly
    supported classes is an end point; (value, error estimate)"""
    from scipy.integrate import quad
    f = lambda r: float(np.asarray(m.correlation(np.array([r], dtype=float)), dtype=float)[0])
    L = float(m.len_rescaled)
    if name in TPL3:
        L = float((m.len_low + m.len_scale) / m.rescale)
    cuts = [0.0, 1e-3 * L, 0.1 * L, L] if name in COMPACT else [0.0, 1e-3 * L, 0.1 * L, L, 4 * L, 20 * L, np.inf]
    tot, err = 0.0, 0.0
    for a, b in zip(cuts[:-1], cuts[1:]):
        v, e = quad(f, a, b, limit=200, epsabs=0.0, epsrel=1e-10)
        tot, err = tot + v, err + e
    return tot, err


def derived(m, lags, per):
    """observable derived quantities of a model (public API only)"""
    with warnings.catch_warnings(), np.errstate(all="ignore"):
        warnings.simplefilter("ignore")
        out = {"integral_scale": float(m.integral_scale), "integral_scale_vec": np.asarray(m.integral_scale_vec, dtype=float),
               "len_rescaled": float(m.len_rescaled), "len_scale_vec": np.asarray(m.len_scale_vec, dtype=float),
               "sill": float(m.sill), "variogram": np.asarray(m.variogram(lags), dtype=float),
               "correlation": np.asarray(m.correlation(lags), dtype=float), "cov_nugget": np.asarray(m.cov_nugget(lags), dtype=float)}
        try:
            out["percentile_scale"] = float(m.percentile_scale(per))
        except Exception as e:      # noqa
            out["percentile_scale"] = type(e).__name__
    return out


def hist_ops(rng, name, m, n_ops):
    """a random sequence of in-place changes; every value stays inside the bounds of the class"""
    ops = []
    for _ in range(n_ops):
        kinds = ["opt"] * 3 + ["len_scale", "rescale", "var", "nugget", "anis", "dim", "integral_scale", "opt+len_scale"]
        k = str(rng.choice(kinds))
        if k in ("opt", "opt+len_scale") and not m.opt_arg:
            k = str(rng.choice(["len_scale", "rescale", "dim", "integral_scale"]))
        ops.append(k)
    return ops


def apply_op(rng, name, m, k):
    """returns a description of the change or None when not applicable; raises nothing for admissible values"""
    dim = m.dim
    if k in ("opt", "opt+len_scale"):
        arg = str(rng.choice(m.opt_arg))
        b = m.arg_bounds[arg]
        typ = b[2] if len(b) > 2 else "cc"
        for _ in range(50):
            # inside the bounds of a fresh model of this dimension AND inside the bounds the object carries (dimension-dependent
            # bounds are fixed at construction: known finding D8 of C14)
            new = hist_opt(rng, name, dim)
            v = new.get(arg)
            if v is not None and v != getattr(m, arg) and (b[0] < v or (typ[0] == "c" and b[0] == v)) and (v < b[1] or (typ[1] == "c" and v == b[1])):
                break
        else:
            return None
        if name in TPL3 and arg == "len_low" and rng.rand() < 0.3:
            new = {"len_low": 0.0}
        setattr(m, arg, new[arg])
        desc = {arg: new[arg]}
        if k == "opt+len_scale":
            v = logu(rng, 0.05, 50.0)
            m.len_scale = v
            desc["len_scale"] = v
        return desc
    if k == "len_scale":
        v = logu(rng, 0.05, 50.0)
        m.len_scale = v
        return {"len_scale": v}
    if k == "rescale":
        v = logu(rng, 0.2, 5.0)
        m.rescale = v
        return {"rescale": v}
    if k == "var":
        v = logu(rng, 1e-2, 1e2)
        m.var = v
        return {"var": v}
    if k == "nugget":
        v = float(rng.choice([0.0, rng.uniform(0, 5)]))
        m.nugget = v
        return {"nugget": v}
    if k == "anis":
        if dim == 1:
            return None
        v = [logu(rng, 0.1, 10) for _ in range(dim - 1)]
        m.anis = v
        return {"anis": v}
    if k == "dim":
        cand = [d for d in range(1, MAXDIM.get(name, 3) + 1) if d != dim]
        if not cand:
            return None
        d = int(rng.choice(cand))
        # dimension-dependent bounds are fixed at construction (known finding D8 of C14): only move to a dimension in which the
        # current optional arguments are admissible for a freshly built model
        try:
            kw = state_of(m)
            kw.update(dim=d, anis=1.0, angles=0.0)
            with warnings.catch_warnings():
                warnings.simplefilter("error")
                hist_class(name)(**kw)
        except Exception:   # noqa
            return None
        m.dim = d
        return {"dim": d}
    if k == "integral_scale":
        if (name in TPL3 and m.len_low > 0) or (name == "Rational" and m.alpha <= 0.55) or name == "JBessel":
            return None     # documented refusal (TPL: len_low is kept fixed) / divergent integral / known finding D11 (quad on J_nu)
        v = logu(rng, 0.05, 20.0)
        m.integral_scale = v
        return {"integral_scale": v}
    raise KeyError(k)


def search_histories(ctx, rng, n_per_class, viol):
    """(g) read / change / read histories on ONE living model object: after any sequence of in-place changes of optional
    arguments, dim, len_scale, rescale, anis, var, nugget, integral_scale every derived quantity must equal that of a freshly
    built model with the resulting parameters, and the reported integral scale must be the integral of the CURRENT
    correlation (independent quadrature).  Some histories start from a model constructed with integral_scale=..., some read
    nothing before the first change, some read after every step."""
    ev = 0
    dist = {}
    names = ALL_CLASSES + list(USER_HIST)
    for name in names:
        # quad over exp_int / jv per scalar lag is slow: fewer random histories for those classes
        for t in range(1 + (max(1, n_per_class // 3) if name in TPL3 + ("JBessel", "Integral") else n_per_class)):
            dim = gen_dim(rng, name) if not name.startswith("user:") else int(rng.randint(1, 4))
            common = gen_common(rng)
            opt = hist_opt(rng, name, dim)
            kw = {k: v for k, v in common.items() if v is not None}
            kw.update(opt)
            if dim > 1:
                kw["anis"] = [logu(rng, 0.1, 10) for _ in range(dim - 1)]
            start = str(rng.choice(["plain", "plain", "ctor-integral-scale"]))
            if start == "ctor-integral-scale" and name != "JBessel" and not (name in TPL3 and opt.get("len_low", 0) > 0) and not (
                    name == "Rational" and opt["alpha"] <= 0.55):
                kw.pop("len_scale", None)
                kw["integral_scale"] = logu(rng, 0.05, 20.0)
            else:
                start = "plain"
            with warnings.catch_warnings():
                warnings.simplefilter("ignore")
                m = hist_class(name)(dim=dim, **kw)
            read_mode = str(rng.choice(["every-step", "random-steps", "end-only"]))
            ops = hist_ops(rng, name, m, int(rng.randint(2, 6)))
            if t == 0:      # always: read, change ONLY a shape argument (the dimension where the class has none), read
                read_mode, ops = "every-step", ["opt" if m.opt_arg else "dim"]
            trace = [{"start": start, "kw": {k: (v if not isinstance(v, list) else list(v)) for k, v in kw.items()}, "dim": dim}]
            dist[f"start:{start}"] = dist.get(f"start:{start}", 0) + 1
            dist[f"read:{read_mode}"] = dist.get(f"read:{read_mode}", 0) + 1
            if read_mode != "end-only" or rng.rand() < 0.5:
                derived(m, np.array([0.5 * m.len_rescaled]), 0.5)       # populate whatever the object memoises
                trace.append("read")
            broken = False
            for i, k in enumerate(ops):
                try:
                    with warnings.catch_warnings():
                        warnings.simplefilter("ignore")
                        desc = apply_op(rng, name, m, k)
                except ValueError as e:
                    # an admissible value was refused: report (setters may leave the object half-changed afterwards: stop here)
                    viol.append({"key": f"history:setter-refused:{k}:{name}", "what": f"in-place change '{k}' with a value inside the "
                                 f"bounds raised ValueError: {e}", "case": {"cls": name, "trace": trace}})
                    broken = True
                    break
                if desc is None:
                    continue
                trace.append(desc)
                dist[f"op:{k}"] = dist.get(f"op:{k}", 0) + 1
                last = i == len(ops) - 1
                if not (last or k == "integral_scale" or read_mode == "every-step" or (read_mode == "random-steps" and rng.rand() < 0.5)):
                    continue
                trace.append("read")
                L = float(m.len_rescaled)
                lags = np.array([0.0, 1e-3 * L, 0.3 * L, 0.9 * L, 2.5 * L])
                per = float(rng.choice([0.5, 0.9, rng.uniform(0.05, 0.95)]))
                got = derived(m, lags, per)
                if k == "integral_scale":
                    # the integral scale can be prescribed instead of the length scale
                    ev += 1
                    rt = 1e-9 if name in ("Gaussian", "Exponential", "Stable", "Rational", "Matern", "Integral") else 1e-4
                    if not abs(got["integral_scale"] - desc["integral_scale"]) <= rt * desc["integral_scale"]:
                        viol.append({"key": f"integral-scale-setter:{'user' if name.startswith('user:') else name}",
                                     "what": "after model.integral_scale = I the reported integral scale is not I",
                                     "case": {"cls": name, "trace": list(trace), "state": state_of(m), "prescribed": desc["integral_scale"],
                                              "reported": got["integral_scale"]}})
                try:
                    want = derived(fresh_like(name, m), lags, per)
                except ValueError as e:
                    viol.append({"key": f"history:state-not-constructible:{name}", "what": f"the state reached by admissible in-place "
                                 f"changes is refused by the constructor: {e}", "case": {"cls": name, "trace": trace}})
                    broken = True
                    break
                for q in got:
                    ev += 1
                    a, b = got[q], want[q]
                    if isinstance(a, str) or isinstance(b, str):
                        same = a == b
                    else:
                        a, b = np.atleast_1d(np.asarray(a, dtype=float)), np.atleast_1d(np.asarray(b, dtype=float))
                        same = a.shape == b.shape and not differs(a, b, 0.0, rtol=1e-10).any()
                    if not same:
                        viol.append({"key": f"history:{q}:{'user' if name.startswith('user:') else name}",
                                     "what": f"{q} after in-place parameter changes differs from that of a freshly built model with the "
                                             "same parameters", "case": {"cls": name, "trace": list(trace), "state": state_of(m),
                                                                         "got": np.asarray(a).tolist() if not isinstance(a, str) else a,
                                                                         "fresh": np.asarray(b).tolist() if not isinstance(b, str) else b}})
                # independent oracle: integral of the current correlation
                skip = name == "JBessel" or (name == "Matern" and m.nu > 20.0) or (name == "Rational" and m.alpha <= 0.55)
                if last and not skip:
                    with warnings.catch_warnings(), np.errstate(all="ignore"):
                        warnings.simplefilter("ignore")
                        truth, qerr = quad_of_correlation(m, name)
                    ev += 1
                    exact = name in ("Gaussian", "Exponential", "Stable", "Rational", "Matern", "Integral")
                    rtol = 1e-7 if exact else 1e-4
                    rep = got["integral_scale"]
                    if np.isfinite(truth) and qerr <= 1e-6 * abs(truth) and not abs(rep - truth) <= rtol * abs(truth):
                        viol.append({"key": f"integral-scale:{'user' if name.startswith('user:') else name}",
                                     "what": "integral_scale after in-place parameter changes is not the integral of the current correlation "
                                             "(independent quadrature of model.correlation)",
                                     "case": {"cls": name, "trace": list(trace), "state": state_of(m), "reported": rep,
                                              "integral_of_correlation": truth}})
                    vec = got["integral_scale_vec"]
                    want_vec = truth * np.concatenate([[1.0], np.asarray(m.anis, dtype=float)])
                    ev += 1
                    if np.isfinite(truth) and qerr <= 1e-6 * abs(truth) and (vec.shape != want_vec.shape or not (
                            np.abs(vec - want_vec) <= rtol * np.abs(want_vec)).all()):
                        viol.append({"key": f"integral-scale-vec:{'user' if name.startswith('user:') else name}",
                                     "what": "integral_scale_vec != integral of the current correlation x (1, anis)",
                                     "case": {"cls": name, "trace": list(trace), "state": state_of(m), "reported": vec.tolist(),
                                              "want": want_vec.tolist()}})
            if broken:
                continue
    return ev, dist


# ------------------------------------------------------------------ dense shape-parameter grids, signed lags, list-valued scales
# (wave 6)  The closed-form comparison above draws shape parameters at random; implementations of special functions carry
# fast paths / tables / switches at integer and half-integer orders that a random draw never meets.  dense_shapes walks, for
# every class and every optional shape argument (discovered from opt_arg_bounds, not listed), EVERY multiple of 1/2 inside
# the bounds (thorough: of 1/4 and 1/10, and the ulp neighbours), the ends of the interval and the dimension-dependent minima,
# and compares correlation on lags of both signs with an evaluation that shares no code with GSTools: scaled Bessel K in log
# space (kve), regularised incomplete beta for the spherical family, power series / scaled J for JBessel, mpmath for the
# exponential-integral classes.
DENSE_H = np.array([0.0, 1e-5, 1e-3, 0.05, 0.3, 0.7, float(np.nextafter(1.0, 0)), 1.0, float(np.nextafter(1.0, 2)), 1.5, 3.0, 8.0, 20.0, 60.0])


def sp_reference(name, m):
    """documented normalised correlation as a numpy function of h = |r| / len_rescaled >= 0, written with scipy primitives
    that the class itself does not use (or, for elementary classes, directly); None where only mpmath can serve"""
    from scipy import special as sp
    if name == "Gaussian":
        return lambda h: np.exp(-h * h)
    if name == "Exponential":
        return lambda h: np.exp(-h)
    if name == "Stable":
        a = float(m.alpha)
        return lambda h: np.exp(-np.exp(a * np.log(np.maximum(h, 1e-300)))) * (h > 0) + (h == 0)
    if name == "Rational":
        a = float(m.alpha)
        return lambda h: np.exp(-a * np.log1p(h * h / a))
    if name == "Matern":
        nu = float(m.nu)
        if nu > 20.0:
            return lambda h: np.exp(-(h / 2.0) ** 2)

        def f(h):
            x = math.sqrt(nu) * np.maximum(h, 1e-300)
            with np.errstate(all="ignore"):
                lg = (1.0 - nu) * math.log(2.0) - sp.gammaln(nu) + nu * np.log(x) + np.log(sp.kve(nu, x)) - x
            return np.where(h > 0, np.exp(lg), 1.0)
        return f
    if name == "Cubic":
        return lambda h: np.where(h < 1, 1 - 7 * h ** 2 + 35 / 4 * h ** 3 - 7 / 2 * h ** 5 + 3 / 4 * h ** 7, 0.0)
    if name == "Linear":
        return lambda h: np.maximum(1 - h, 0.0)
    if name == "Circular":
        return lambda h: np.where(h < 1, 2 / np.pi * (np.arccos(np.minimum(h, 1)) - h * np.sqrt(np.maximum(1 - h * h, 0))), 0.0)
    if name == "Spherical":
        return lambda h: np.where(h < 1, 1 - 1.5 * h + 0.5 * h ** 3, 0.0)
    if name in ("HyperSpherical", "SuperSpherical"):
        # 1 - h F(1/2, -nu; 3/2; h^2) / F(1/2, -nu; 3/2; 1) = 1 - int_0^h (1 - t^2)^nu dt / int_0^1 = 1 - I_{h^2}(1/2, nu + 1)
        nu = (m.dim - 1) / 2 if name == "HyperSpherical" else float(m.nu)
        return lambda h: np.where(h < 1, 1.0 - sp.betainc(0.5, nu + 1.0, np.minimum(h, 1.0) ** 2), 0.0)
    if name == "JBessel":
        nu = float(m.nu)

        def f(h):
            out = np.ones_like(h)
            for i, x in enumerate(h):
                if x == 0:
                    continue
                q = (x / 2.0) ** 2
                if q <= 4.0 * (nu + 1.0) or x <= 4.0:
                    # Gamma(nu+1) (2/x)^nu J_nu(x) = sum_k (-q)^k / (k! (nu+1)_k): terms bounded by e^{q/(nu+1)} <= e^4
                    t, s, k = 1.0, 1.0, 0
                    while abs(t) > 1e-18 * abs(s) + 1e-300 and k < 500:
                        k += 1
                        t *= -q / (k * (nu + k))
                        s += t
                    out[i] = s
                else:
                    out[i] = math.exp(sp.gammaln(nu + 1.0) - nu * math.log(x / 2.0)) * sp.jv(nu, x)
            return out
        return f
    if name == "TPLSimple":
        nu = float(m.nu)
        return lambda h: np.maximum(1 - h, 0.0) ** nu
    return None


def shape_grid(lo, hi, iv, full, extra=()):
    """nominal values of a shape argument with bounds (lo, hi, type): every multiple of 1/2 (thorough: 1/4 up to 10, 1/10 up to 3),
    the ends (closed: the end; open: 1e-3 / 1 ulp inside), the values `extra`; thorough: the ulp neighbours of the multiples of 1/2"""
    hi_c = min(hi, 60.0)
    vals = set()
    for step, top in ((0.5, hi_c),) + (((0.25, 10.0), (0.1, 3.0)) if full else ((0.25, 3.0),)):
        k0, k1 = int(math.floor(lo / step)), int(math.ceil(min(hi_c, top) / step))
        vals.update(round(k * step, 10) for k in range(k0, k1 + 1))
    vals.update([lo, hi_c, (lo + 1e-3) if lo == 0 else float(np.nextafter(lo, np.inf)), float(np.nextafter(hi_c, -np.inf))])
    vals.update(extra)
    ok = lambda v: (lo < v or (iv[0] == "c" and v == lo)) and (v < hi or (iv[1] == "c" and v == hi))
    if full:
        for v in list(vals):
            if abs(2 * v - round(2 * v)) < 1e-12 and ok(v) and v != 0:      # (not the denormal neighbours of an open end at 0)
                vals.update([float(np.nextafter(v, np.inf)), float(np.nextafter(v, -np.inf))])
    return sorted(v for v in vals if ok(v))


def search_dense_shapes(ctx, rng, viol, deep=False):
    import mpmath as mp
    gs = _gs()
    ev = 0
    full = deep or not ctx.quick
    dist, worst = {}, {}
    old = mp.mp.dps
    mp.mp.dps = 30
    per_key = {}

    def check(name, m, case, ref_np, cfg):
        """compare correlation / covariance / variogram of the object on lags of both signs with the independent evaluation"""
        nonlocal ev
        L = float(m.len_scale) / float(m.rescale)
        hh = DENSE_H
        r = hh * L
        rr = np.concatenate([r, -r[1:]])
        with warnings.catch_warnings(), np.errstate(all="ignore"):
            warnings.simplefilter("ignore")
            got = np.asarray(m.correlation(rr), dtype=float)
            cov = np.asarray(m.covariance(rr), dtype=float)
            vario = np.asarray(m.variogram(rr), dtype=float)
            if ref_np is not None:
                want = np.asarray(ref_np(np.abs(rr) / L), dtype=float)
            else:
                f = mp_reference(name, m)
                w = np.array([float(f(mp.mpf(float(x)))) for x in r])
                want = np.concatenate([w, w[1:]])
        ev += rr.size
        rtol, atol = CF_TOL.get(name, (1e-12, 8 * EPS))
        rtol = max(rtol, 1e-11) if ref_np is not None and name in ("Matern", "JBessel", "HyperSpherical", "SuperSpherical") else rtol
        err = np.abs(got - want)
        tol = rtol * np.abs(want) + atol
        err = np.where(np.isnan(err), np.inf, err)
        worst[name] = max(worst.get(name, 0.0), float(np.max(err / (tol + 1e-320))))
        bad = ~(err <= tol)
        # the derived functions on the same lags (signed): covariance = var * documented, variogram = sill - covariance
        sill = m.var + m.nugget
        bad_cov = ~(np.abs(cov - m.var * want) <= (rtol * np.abs(want) + atol) * m.var + 4 * EPS * m.var)
        bad_var = ~(np.abs(vario - (sill - m.var * want)) <= (rtol * np.abs(want) + atol) * m.var + 8 * EPS * sill)
        if not (bad.any() or bad_cov.any() or bad_var.any()):
            return True
        i = int(np.argmax(np.where(bad, err - tol, -np.inf))) if bad.any() else int(np.argmax(bad_cov | bad_var))
        key = f"closed-form:{name}"
        if name == "JBessel" and want[i] > 0.5 and not got[i] > 0.0:
            key = "closed-form:JBessel:underflow-small-h"
        elif name == "Integral" and not np.isfinite(got[i]):
            key = "small-lag-breakdown:Integral"
        elif name in SPECIAL:
            with np.errstate(all="ignore"):
                snapped = float(mp_reference(name, m, snap=True)(mp.mpf(float(abs(rr[i])))))
            if abs(got[i] - snapped) <= 1e-9 * abs(snapped) + 1e-13 and abs(want[i] - snapped) > 0:
                key = f"closed-form:integer-order-snap:{name}"
        if rr[i] < 0 and bad.any():
            # the same lag with the other sign agrees: the sign handling, not the formula, is at fault
            j = int(np.where(rr == -rr[i])[0][0])
            if not bad[j]:
                key = f"signed-lag:closed-form:{name}"
        per_key[key] = per_key.get(key, 0) + 1
        if per_key[key] <= 3:
            fn = "correlation" if bad.any() else ("covariance" if bad_cov.any() else "variogram")
            viol.append({"key": key, "what": f"{fn} differs from the documented formula ({'scipy-independent evaluation' if ref_np is not None else 'mpmath, 30 digits'}) on the dense "
                                            f"grid of shape parameters (multiples of 1/2, interval ends, dimension-dependent minima)",
                         "case": {**case, "lag": float(rr[i]), "h": float(rr[i] / L), "got": float(got[i]), "want": float(want[i]), "config": cfg}})
        return False

    try:
        for ic, name in enumerate(ALL_CLASSES):
            T = getattr(gs, name)
            dims = list(range(1, MAXDIM.get(name, 3) + 1))
            with quiet_ctx():
                m0 = T(dim=dims[0])
            shape_args = [a for a in m0.opt_arg if not hasattr(T, a + "_rescaled")]
            dim_dep = False
            if shape_args:
                with quiet_ctx():
                    bl = [tuple(T(dim=d).opt_arg_bounds[shape_args[0]])[:2] for d in dims]
                dim_dep = len(set(bl)) > 1
            use_dims = dims if (dim_dep or name == "HyperSpherical") else [dims[(ic + ctx.seed) % len(dims)]]
            for idim, dim in enumerate(use_dims):
                cfgs = [(1.0, None), (0.3, 2.0), (7.0, 0.4)]
                ls, resc = cfgs[(ic + idim + ctx.seed) % 3]
                kw = dict(var=1.7, len_scale=ls, nugget=0.2)
                if resc is not None:
                    kw["rescale"] = resc
                with quiet_ctx():
                    m = T(dim=dim, **kw)
                home = {a: float(getattr(m, a)) for a in shape_args}
                if not shape_args:
                    dist[f"{name}:no shape argument"] = dist.get(f"{name}:no shape argument", 0) + 1
                    check(name, m, {"cls": name, "dim": dim, "kw": kw}, sp_reference(name, m), "fresh")
                    continue
                minima = []
                if dim_dep:
                    minima = [float(b[0]) for b in bl]
                grids = {}
                for a in shape_args:
                    b = tuple(m.opt_arg_bounds[a])
                    iv = b[2] if len(b) == 3 else "cc"
                    grids[a] = shape_grid(float(b[0]), float(b[1]), iv, full, extra=[x for x in minima if x >= float(b[0])])
                if len(shape_args) == 1:
                    sets = [{shape_args[0]: v} for v in grids[shape_args[0]]]
                else:
                    # one argument on its grid (the others at their defaults), and the pairs of the multiples of 1/4 (thorough: all pairs of the coarse grids)
                    sets = []
                    for a in shape_args:
                        sets += [{a: v} for v in grids[a]]
                    g2 = {a: [v for v in grids[a] if abs(4 * v - round(4 * v)) < 1e-12] for a in shape_args}
                    keys_ = list(g2)
                    import itertools as it
                    sets += [dict(zip(keys_, combo)) for combo in it.product(*[g2[a] for a in keys_])]
                if name in SPECIAL and not full:
                    # mpmath reference: the multiples of 1/2 always, a rotating third of the rest
                    sets = [s for j, s in enumerate(sets) if all(abs(2 * v - round(2 * v)) < 1e-12 for v in s.values()) or (j + ctx.seed) % 3 == 0]
                for s in sets:
                    ok_set = True
                    with quiet_ctx():
                        try:
                            for a, v in s.items():
                                setattr(m, a, v)
                        except ValueError as e:
                            ok_set = False
                            viol.append({"key": f"edge-parameter-rejected:{name}", "what": f"shape value inside the bounds is rejected: {e}", "case": {"cls": name, "dim": dim, "kw": {**kw, **s}}})
                            for a in s:
                                setattr(m, a, home[a])
                    if not ok_set:
                        continue
                    dist[name] = dist.get(name, 0) + 1
                    case = {"cls": name, "dim": dim, "kw": {**kw, **s}}
                    ref_np = sp_reference(name, m)
                    try:
                        passed = check(name, m, case, ref_np, "shape set in place")
                    except Exception as e:      # the public API raises on a parameter set inside the bounds
                        per_key[f"closed-form:exception:{name}"] = per_key.get(f"closed-form:exception:{name}", 0) + 1
                        if per_key[f"closed-form:exception:{name}"] <= 2:
                            viol.append({"key": f"closed-form:exception:{name}", "what": f"evaluating correlation / covariance / variogram raises {type(e).__name__}: {str(e)[:100]}", "case": case})
                        passed = True
                    if not passed:
                        # a failure is re-evaluated on a freshly constructed model: same failure => property of the parameter set
                        with quiet_ctx():
                            fresh = T(dim=dim, **{**kw, **s})
                        n_before = len(viol)
                        same_fail = not check(name, fresh, case, sp_reference(name, fresh), "fresh")
                        if not same_fail and len(viol) > 0:
                            for v_ in viol[-3:]:
                                if v_["case"].get("kw") == case["kw"] and v_["case"].get("config") == "shape set in place" and not v_["key"].startswith("after-history:"):
                                    v_["key"] = "after-history:" + v_["key"]
                    for a in s:
                        with quiet_ctx():
                            setattr(m, a, home[a])
    finally:
        mp.mp.dps = old
    return ev, dist, worst


class quiet_ctx:
    def __enter__(self):
        self.w = warnings.catch_warnings()
        self.w.__enter__()
        warnings.simplefilter("ignore")
        self.e = np.errstate(all="ignore")
        self.e.__enter__()

    def __exit__(self, *a):
        self.e.__exit__(*a)
        self.w.__exit__(*a)


SIGNED_FNS = ["correlation", "covariance", "variogram", "cov_nugget", "vario_nugget"]


def search_signed(ctx, rng, n_per_class, viol):
    """lags of either sign through every function of the family: f(-r) = f(r) exactly (the sign is removed before anything
    is computed) for the isotropic functions, their nugget / axis / spatial variants, on 1-D arrays, mixed-sign 2-D arrays
    and negative scalars; the value at a negative lag equals the identities' right-hand sides formed from |r|."""
    ev = 0
    per_key = {}

    def add(key, what, case):
        per_key[key] = per_key.get(key, 0) + 1
        if per_key[key] <= 2:
            viol.append({"key": key, "what": what, "case": case})

    def same(a, b, tol=1e-14):
        a, b = np.asarray(a, dtype=float), np.asarray(b, dtype=float)
        return (a == b) | (np.isnan(a) & np.isnan(b)) | (np.abs(a - b) <= tol * (1 + np.abs(a)))

    for name in ALL_CLASSES:
        for _ in range(n_per_class):
            dim = gen_dim(rng, name)
            common = gen_common(rng)
            opt, _k = gen_opt(rng, name, dim, elementary=False)
            anis = [logu(rng, 0.1, 10) for _ in range(dim - 1)]
            angles = [float(rng.uniform(-np.pi, np.pi)) for _ in range(dim * (dim - 1) // 2)]
            m = make(name, dim, common, opt, anis=anis, angles=angles)
            L = m.len_rescaled
            h = np.concatenate([10.0 ** np.linspace(-7, 1.5, 18), rng.uniform(0, 3, 10), [float(np.nextafter(1.0, 0)), 1.0, float(np.nextafter(1.0, 2))]]) * L
            case = {"cls": name, "dim": dim, "kw": {**common, **opt, "anis": anis, "angles": angles}}
            with quiet_ctx():
                for fn in SIGNED_FNS:
                    f = getattr(m, fn)
                    a, b = np.asarray(f(h), dtype=float), np.asarray(f(-h), dtype=float)
                    ev += 1
                    bad = ~same(a, b)
                    if bad.any():
                        i = int(np.argmax(bad))
                        add(f"signed-lag:not-even:{fn}:{name}", f"{fn}({-float(h[i])!r}) = {float(b[i])!r} but {fn}({float(h[i])!r}) = {float(a[i])!r}", {**case, "lag": -float(h[i])})
                        continue
                    mixed = np.where(np.arange(h.size) % 2 == 0, h, -h)[: 2 * (h.size // 2)]
                    c2 = np.asarray(f(mixed.reshape(2, -1)), dtype=float)
                    sc = np.asarray(f(-float(h[20])), dtype=float)
                    ev += 2
                    if c2.shape != (2, h.size // 2) or not same(c2.ravel(), a[: mixed.size]).all() or not same(sc.ravel()[:1], a[20:21]).all():
                        add(f"signed-lag:not-even:{fn}:{name}", f"{fn} of a mixed-sign 2-D array / negative scalar differs from {fn} of the absolute lags", case)
                for ax in range(dim):
                    for fn in ("cor_axis", "cov_axis", "vario_axis"):
                        a, b = np.asarray(getattr(m, fn)(h, ax), dtype=float), np.asarray(getattr(m, fn)(-h, ax), dtype=float)
                        ev += 1
                        bad = ~same(a, b)
                        if bad.any():
                            i = int(np.argmax(bad))
                            add(f"signed-lag:not-even:{fn}:{name}", f"{fn}({-float(h[i])!r}, axis={ax}) = {float(b[i])!r}, at the positive lag {float(a[i])!r}", {**case, "axis": ax, "lag": -float(h[i])})
                pos = rng.uniform(-2, 2, size=(dim, 24)) * L
                for fn in ("cor_spatial", "cov_spatial", "vario_spatial"):
                    a, b = np.asarray(getattr(m, fn)(pos), dtype=float), np.asarray(getattr(m, fn)(-pos), dtype=float)
                    ev += 1
                    if not same(a, b, 1e-12).all():
                        add(f"signed-lag:not-even:{fn}:{name}", f"{fn}(-pos) differs from {fn}(pos)", case)
                # identities at negative lags with right-hand sides formed from |r|
                sill = m.var + m.nugget
                cor_abs = np.asarray(m.correlation(np.abs(h)), dtype=float)
                fin = np.isfinite(cor_abs)
                got_c, got_v = np.asarray(m.covariance(-h), dtype=float), np.asarray(m.variogram(-h), dtype=float)
                ev += 2
                if differs(got_c[fin], m.var * cor_abs[fin], m.var).any() or differs(got_v[fin], sill - m.var * cor_abs[fin], sill).any():
                    add(f"signed-lag:identity:{name}", "covariance(-r) != var * correlation(|r|) or variogram(-r) != var + nugget - var * correlation(|r|)", case)
    return ev


def search_list_scales(ctx, rng, reps, viol):
    """list-valued scale arguments ('float or list'): integral_scale / len_scale given per axis, at construction and through
    the setter, dim 2-3 (and space-time), with / without anis=, short lists (padded with the last value): the per-axis integral
    scales (independent quadrature of cor_axis along each axis) equal the prescribed list, integral_scale_vec / len_scale_vec
    report it, and each axis behaves as the isotropic model with that axis' length."""
    from scipy.integrate import quad
    gs = _gs()
    ev = 0
    dist = {}
    per_key = {}

    def add(key, what, case):
        per_key[key] = per_key.get(key, 0) + 1
        if per_key[key] <= 2:
            viol.append({"key": key, "what": what, "case": case})

    def axis_integral(m, name, ax, guess):
        """int_0^inf cor_axis(r, ax) dr by quadrature of the public function"""
        f = lambda t: float(np.asarray(m.cor_axis(np.array([t * guess]), ax), dtype=float)[0]) * guess
        if name in COMPACT:
            up = (m.len_scale / m.rescale) * (1.0 if ax == 0 else float(m.anis[ax - 1])) / guess
            return quad(f, 0, up, limit=200, epsabs=1e-12, epsrel=1e-10)[0]
        pts = [0.0, 0.25, 1.0, 4.0, 16.0, 64.0]
        tot = sum(quad(f, a, b, limit=200, epsabs=1e-13, epsrel=1e-10)[0] for a, b in zip(pts[:-1], pts[1:]))
        return tot + quad(f, pts[-1], np.inf, limit=200, epsabs=1e-13, epsrel=1e-10)[0]

    closed = ("Gaussian", "Exponential", "Stable", "Rational", "Matern", "Integral")
    for ic, name in enumerate(ALL_CLASSES):
        maxd = MAXDIM.get(name, 3)
        if maxd < 2:
            continue
        for rep in range(reps):
            for mode in ("ctor:integral_scale=list", "setter:integral_scale=list", "ctor:len_scale=list", "setter:len_scale=list",
                         "ctor:integral_scale=short-list", "ctor:integral_scale=scalar+anis", "ctor:integral_scale=list+anis", "ctor:len_scale=list+temporal"):
                if ctx.quick and name in TPL3 and mode not in ("ctor:integral_scale=list", "setter:integral_scale=list", "ctor:len_scale=list"):
                    continue        # quick tier: these classes integrate by quadrature on every read of integral_scale (~50 ms)
                dim = int(rng.randint(2, maxd + 1))
                if "short" in mode:
                    if maxd < 3:
                        continue
                    dim = 3
                if "temporal" in mode:
                    dim = min(maxd, 3)
                common = gen_common(rng)
                common.pop("len_scale")
                opt, _k = gen_opt(rng, name, dim, elementary=False)
                if name in TPL3:
                    opt["len_low"] = 0.0       # integral_scale= is refused (loudly) with a lower cut-off
                if name == "Rational" and opt["alpha"] <= 1.0:
                    opt["alpha"] = 1.5          # the integral of the correlation diverges at alpha = 1/2
                if name == "Matern" and opt["nu"] > 20:
                    opt["nu"] = 20.0            # D12: the Gaussian limit has its own integral scale
                if name == "Stable" and opt["alpha"] < 0.5:
                    opt["alpha"] = 0.5
                if name == "Integral":
                    opt["nu"] = float(min(max(opt["nu"], 0.5), 30.0))
                if name == "JBessel":
                    opt["nu"] = float(min(opt["nu"], 30.0))
                scales_ = [logu(rng, 0.2, 20.0) for _ in range(dim)]
                given = scales_[:2] if "short" in mode else scales_
                expect = scales_[:2] + [scales_[1]] * (dim - 2) if "short" in mode else list(scales_)
                anis_kw = [logu(rng, 0.2, 5) for _ in range(dim - 1)]
                kind = "integral" if "integral_scale" in mode else "len"
                case = {"cls": name, "dim": dim, "mode": mode, "kw": {**common, **opt}, "given": given}
                extra = {}
                if mode.endswith("scalar+anis"):
                    given = scales_[0]
                    expect = [scales_[0]] + [scales_[0] * a for a in anis_kw]
                    extra["anis"] = anis_kw
                    case["given"], case["anis"] = given, anis_kw
                if mode.endswith("list+anis"):
                    extra["anis"] = anis_kw      # documented for len_scale: a list of scales recalculates anis
                    case["anis"] = anis_kw
                if "temporal" in mode:
                    extra["temporal"] = True
                dist[mode] = dist.get(mode, 0) + 1
                with quiet_ctx():
                    try:
                        if mode.startswith("ctor"):
                            m = make(name, dim, common, opt, **{("integral_scale" if kind == "integral" else "len_scale"): given}, **extra)
                        else:
                            m = make(name, dim, {**common, "len_scale": logu(rng, 0.2, 20.0)}, opt, **extra)
                            float(m.integral_scale)      # a read before the change
                            setattr(m, "integral_scale" if kind == "integral" else "len_scale", given)
                    except ValueError as e:
                        if name == "JBessel" and kind == "integral":
                            dist["refused:JBessel (D11)"] = dist.get("refused:JBessel (D11)", 0) + 1
                            continue
                        add(f"list-scale:refused:{name}", f"{mode} with {given} raises: {e}", case)
                        continue
                    ev += 1
                    lsv, isv = np.asarray(m.len_scale_vec, dtype=float), np.asarray(m.integral_scale_vec, dtype=float)
                    vec, label = (isv, "integral_scale_vec") if kind == "integral" else (lsv, "len_scale_vec")
                    rtol_rep = 1e-9 if (kind == "len" or name in closed) else 2e-3        # the setter itself accepts 1e-3 for quadrature-based classes
                    if vec.shape != (dim,) or not np.all(np.abs(vec - np.array(expect)) <= rtol_rep * np.array(expect)):
                        add(f"list-scale:{label}:{name}", f"{mode}: prescribed {expect} per axis, {label} reports {vec.tolist()}", {**case, "reported": vec.tolist()})
                        continue
                    # ratios between the axes are exact up to rounding whatever the class' integral scale is
                    if not np.all(np.abs(lsv / lsv[0] - np.array(expect) / expect[0]) <= 1e-12 * np.array(expect) / expect[0]) or \
                            not np.all(np.abs(isv / isv[0] - np.array(expect) / expect[0]) <= 1e-9 * np.array(expect) / expect[0]):
                        add(f"list-scale:axis-ratios:{name}", f"{mode}: axis ratios of len_scale_vec / integral_scale_vec differ from those of the prescribed list {expect}",
                            {**case, "len_scale_vec": lsv.tolist(), "integral_scale_vec": isv.tolist()})
                        continue
                    # each axis = the isotropic model with that axis' length
                    r = np.array([0.0, 0.1, 0.5, 1.0, 2.5]) * float(lsv[0]) / m.rescale
                    for ax in range(dim):
                        mi = make(name, dim, {**common, "len_scale": float(lsv[ax]), "rescale": m.rescale}, opt)
                        a, b = np.asarray(m.cor_axis(r * lsv[ax] / lsv[0], ax), dtype=float), np.asarray(mi.correlation(r * lsv[ax] / lsv[0]), dtype=float)
                        ev += 1
                        if differs(a, b, 1e3, rtol=1e-9).any():
                            add(f"list-scale:axis-function:{name}", f"{mode}: cor_axis(r, {ax}) differs from the correlation of the isotropic model with len_scale = len_scale_vec[{ax}]",
                                {**case, "axis": ax})
                    # independent quadrature along every axis
                    if name == "JBessel":
                        continue        # conditionally convergent oscillating integral (D11): the axis-function comparison above stands in
                    if ctx.quick and name in TPL3 and rep > 0:
                        continue
                    if ctx.quick and not mode.endswith("integral_scale=list") and (ic + len(mode) + ctx.seed) % 3 != 0:
                        continue        # quick tier: the quadrature always for the two plain list routes, for a rotating third of the other modes
                    for ax in range(dim):
                        target = float(expect[ax]) if kind == "integral" else float(isv[ax])
                        val = axis_integral(m, name, ax, target)
                        ev += 1
                        rtol = 1e-6 if name in closed + ("Linear", "Spherical", "Cubic", "Circular", "TPLSimple") else 2e-3 if kind == "integral" else 1e-4
                        if not abs(val - target) <= rtol * target:
                            add(f"list-scale:axis-integral:{name}", f"{mode}: the integral of cor_axis along axis {ax} is {val!r}, "
                                + (f"prescribed integral scale {target!r}" if kind == "integral" else f"integral_scale_vec[{ax}] = {target!r}"), {**case, "axis": ax, "integral": val, "want": target})
                            break
    return ev, dist


def dedup(viol, per_key=2):
    seen, out = {}, []
    for v in viol:
        seen[v["key"]] = seen.get(v["key"], 0) + 1
        if seen[v["key"]] <= per_key:
            out.append(v)
    return out, seen


def directed(ctx, viol):
    """corpus of past findings (fixed inputs, no randomness), replayed first on every run; every entry is a concrete
    input on which the property fails on the pinned tree — a repaired tree makes the entry silent"""
    import mpmath as mp
    gs = _gs()
    ev = 0
    with warnings.catch_warnings(), np.errstate(all="ignore"):
        warnings.simplefilter("ignore")
        # D11 / D12: reported integral scale vs integral of the correlation the class evaluates
        for name, kw, key in (("JBessel", dict(dim=1, nu=0.5, len_scale=2.0), "integral-scale:JBessel"),
                              ("JBessel", dict(dim=2, nu=1.0, len_scale=2.0), "integral-scale:JBessel"),
                              ("Matern", dict(dim=2, nu=25.0, len_scale=2.0), "integral-scale:Matern-nu>20")):
            m = getattr(gs, name)(**kw)
            rep = float(m.integral_scale)
            truth = float(exact_integral_scale(name, m, None))
            ev += 1
            if abs(rep - truth) > 1e-6 * truth:
                viol.append({"key": key, "what": "integral_scale is not the integral of the correlation over all lags",
                             "case": {"cls": name, "dim": kw["dim"], "kw": {k: v for k, v in kw.items() if k != "dim"},
                                      "reported": rep, "integral_of_correlation": truth}})
        # K1: cor ignores len_low
        for name, kw in (("TPLGaussian", dict(dim=2, len_scale=3.0, len_low=2.0, hurst=0.4)),
                         ("TPLExponential", dict(dim=2, len_scale=3.0, len_low=2.0, hurst=0.4)),
                         ("TPLStable", dict(dim=2, len_scale=3.0, len_low=2.0, hurst=0.4, alpha=1.5))):
            m = getattr(gs, name)(**kw)
            r = np.array([1.0, 3.0])
            a, b = m.correlation(r), m.cor(r / m.len_rescaled)
            ev += 1
            if np.max(np.abs(a - b)) > 1e-12:
                viol.append({"key": "identity:cor-vs-correlation:TPL-len_low>0", "what": "correlation(r) != cor(rescale * r / len_scale)",
                             "case": {"cls": name, "dim": 2, "kw": {k: v for k, v in kw.items() if k != "dim"}, "lag": 1.0,
                                      "got": float(a[0]), "want": float(b[0])}})
        # N1 / N2: correlation collapses (0 / nan) at small positive lags
        for name, kw, lag, key in (("JBessel", dict(dim=3, nu=45.0, len_scale=1.0), 1e-6, "closed-form:JBessel:underflow-small-h"),
                                   ("JBessel", dict(dim=3, nu=45.0, len_scale=1.0), 1e-7, "closed-form:JBessel:underflow-small-h"),
                                   ("Integral", dict(dim=2, nu=49.5, len_scale=1.0), 1e-7, "small-lag-breakdown:Integral")):
            m = getattr(gs, name)(**kw)
            c = float(m.correlation(np.array([lag]))[0])
            ev += 1
            if not c > 0.999999:
                viol.append({"key": key, "what": f"correlation({lag}) = {c} (documented formula: 1 - O(1e-12))",
                             "case": {"cls": name, "dim": kw["dim"], "kw": {k: v for k, v in kw.items() if k != "dim"}, "lag": lag, "got": c}})
        # N3: two isclose windows of the TPL models
        for name, kw in (("TPLGaussian", dict(dim=1, hurst=0.15, len_low=0.1, len_scale=0.4)),
                         ("TPLExponential", dict(dim=1, hurst=0.15, len_low=0.1, len_scale=0.4)),
                         ("TPLStable", dict(dim=1, hurst=0.15, alpha=1.5, len_low=0.1, len_scale=0.4))):
            m = getattr(gs, name)(**kw)
            c = np.asarray(m.correlation(np.array([2e-9, 4e-9])), float)
            ev += 1
            if np.max(np.abs(c)) > 1 + 1e-9:
                viol.append({"key": f"correlation-exceeds-one:{name}", "what": f"correlation([2e-9, 4e-9]) = {c.tolist()} > 1",
                             "case": {"cls": name, "dim": 1, "kw": {k: v for k, v in kw.items() if k != "dim"}, "lag": 4e-9, "got": float(c[1])}})
        # N4 / N5 / N6: exp_int shortcuts seen through Integral / TPLGaussian
        mp.mp.dps = 30
        for name, kw, lag in (("Integral", dict(dim=1, nu=3.99998, len_scale=1.0), 0.5), ("TPLGaussian", dict(dim=1, hurst=0.999992, len_scale=1.0), 0.5)):
            m = getattr(gs, name)(**kw)
            got = float(m.correlation(np.array([lag]))[0])
            want = float(mp_reference(name, m)(mp.mpf(lag)))
            snapped = float(mp_reference(name, m, snap=True)(mp.mpf(lag)))
            ev += 1
            if abs(got - want) > 1e-9 * abs(want):
                viol.append({"key": f"closed-form:integer-order-snap:{name}" if abs(got - snapped) <= 1e-9 * abs(snapped) else f"closed-form:{name}",
                             "what": "correlation differs from the documented formula (order of the exponential integral within 1e-5 of an integer)",
                             "case": {"cls": name, "dim": 1, "kw": {k: v for k, v in kw.items() if k != "dim"}, "lag": lag, "got": got, "want": want}})
        m = gs.Integral(dim=1, nu=0.05, len_scale=1000.0, rescale=1.0)
        got = float(m.correlation(np.array([9e-8]))[0])
        want = float(mp_reference("Integral", m)(mp.mpf(9e-8)))
        ev += 1
        if abs(got - want) > 1e-9:
            viol.append({"key": "closed-form:Integral:origin-limit" if abs(got - 1.0) <= 1e-12 else "closed-form:Integral",
                         "what": "correlation at a lag <= 1e-10 len_rescaled is the limit value 1, not the documented formula",
                         "case": {"cls": "Integral", "dim": 1, "kw": {"nu": 0.05, "len_scale": 1000.0, "rescale": 1.0}, "lag": 9e-8, "got": got, "want": want}})
        m = gs.Integral(dim=1, nu=1e-5)
        got = float(m.correlation(np.array([0.0]))[0])
        ev += 1
        if not abs(got - 1.0) <= 1e-12:
            viol.append({"key": "nonfinite-at-zero:Integral" if not np.isfinite(got) else "cor0:Integral", "what": f"correlation(0) = {got}",
                         "case": {"cls": "Integral", "dim": 1, "kw": {"nu": 1e-5}, "lag": 0.0, "got": got, "want": 1.0}})
        # K3: percentile_scale
        for name, kw, per in (("TPLSimple", dict(dim=3, len_scale=10.0, nu=50.0), 0.5), ("JBessel", dict(dim=3, len_scale=10.0, nu=5.0), 0.9),
                              ("TPLSimple", dict(dim=3, len_scale=10.0, nu=5.0), 0.9)):
            m = getattr(gs, name)(**kw)
            x = float(m.percentile_scale(per))
            g = float(m.variogram(np.array([x]))[0])
            ev += 1
            case = {"cls": name, "dim": 3, "kw": {k: v for k, v in kw.items() if k != "dim"}, "per": per, "scale": x, "variogram": g,
                    "want": per}
            if abs(g - per) > 1e-6:
                viol.append({"key": "percentile-scale:unconverged-root", "case": case,
                             "what": "variogram(percentile_scale(per)) != nugget + per * var (scipy root did not converge)"})
            elif x < 0:
                viol.append({"key": "percentile-scale:negative-root", "case": case, "what": "percentile_scale(per) is a negative lag"})
    return ev


def search(ctx, deep=False):
    rng = np.random.RandomState(ctx.seed + 3003)
    viol = []
    mult = 3 if deep else 1
    ev = directed(ctx, viol)
    ev += search_identities(ctx, rng, ctx.scale(4, 40) * mult, viol)
    ev += search_user_routes(ctx, rng, ctx.scale(10, 100) * mult, viol)
    e2, worst = search_closed_forms(ctx, rng, ctx.scale(3, 40) * mult, viol)
    ev += e2
    ev += search_integral_scale(ctx, rng, ctx.scale(2, 12) * mult, viol)
    ev += search_percentile(ctx, rng, ctx.scale(2, 20) * mult, viol)
    e5, dist_sf = search_scale_functions(ctx, np.random.RandomState(ctx.seed + 3403), ctx.scale(1, 6) * mult, viol)
    ev += e5
    e3, worst_so, dist_so = search_special_orders(ctx, np.random.RandomState(ctx.seed + 3103), viol)
    ev += e3
    e4, dist_h = search_histories(ctx, np.random.RandomState(ctx.seed + 3203), ctx.scale(2, 18) * mult, viol)
    ev += e4
    ev += search_special_helpers(ctx, np.random.RandomState(ctx.seed + 3303), viol)
    e6, dist_d, worst_d = search_dense_shapes(ctx, np.random.RandomState(ctx.seed + 3503), viol, deep)
    e7 = search_signed(ctx, np.random.RandomState(ctx.seed + 3603), ctx.scale(6, 30) * mult, viol)
    e8, dist_l = search_list_scales(ctx, np.random.RandomState(ctx.seed + 3703), ctx.scale(1, 4) * mult, viol)
    ev += e6 + e7 + e8
    out, seen = dedup(viol)
    return {"evaluations": ev, "violations": out,
            "summary": "identities, nugget/axis/yadrenko/spatial variants and user routes on the real API for all 17 classes over their "
                       "bounds; closed forms vs mpmath (30 digits); integral_scale vs exact integral (closed form / mpmath quad) and "
                       "setter; percentile_scale substituted back and compared with the smallest positive lag reaching the percentile (independent "
                       "bracketing); scale functions (percentile / integral scale / len_scale <-> integral_scale round trip) under rescale in "
                       f"{RESCALE_SET} (None = default), fresh and after rescale was changed in place: " + str(dist_sf) + ".  violation counts per key: " + str(seen)
                       + "; integral_scale= refused with ValueError for TPL models with len_low > 0: " + str(REFUSED)
                       + "; worst closed-form error (units of tolerance): "
                       + str({k: round(v, 3) for k, v in worst.items()})
                       + "; exponential-integral orders on / next to integers and branch boundaries of tools.special (class:order class -> "
                         "models): " + str(dist_so) + ", worst error there (units of tolerance, known snap / breakdown cases included): "
                       + str({k: (round(v, 3) if np.isfinite(v) else "inf") for k, v in worst_so.items()})
                       + "; read/change/read histories vs freshly built models and independent quadrature (op counts): " + str(dist_h)
                       + f"; dense shape grids (every multiple of 1/2 of every shape argument inside its bounds, interval ends, dimension-dependent minima; lags of both signs;"
                         f" scipy-independent evaluations: kve in log space, incomplete beta, power series / scaled J, mpmath for the exponential-integral classes): {e6} values, parameter sets"
                         f" per class {dist_d}, worst error (units of tolerance) " + str({k: (round(v, 3) if np.isfinite(v) else "inf") for k, v in worst_d.items()})
                       + f"; {e7} signed-lag checks (f(-r) = f(r) for all isotropic / nugget / axis / spatial functions on arrays, 2-D arrays, scalars; identities at negative lags)"
                       + f"; {e8} list-valued scale checks (integral_scale / len_scale as list at construction and through the setter, short lists, with anis=, space-time:"
                         f" *_vec = list, axis ratios, cor_axis = isotropic model of that axis, quadrature of cor_axis along every axis): {dist_l}"}


def replay(ctx, payload):
    """re-run the recorded failing inputs against the current tree"""
    bad = 0
    for v in payload.get("violations", []):
        c = v.get("case", {})
        key = v.get("key", "")
        if "trace" in c and c.get("cls") in ALL_CLASSES + list(USER_HIST):
            # a read / change / read history: redo it on one living object and compare with a freshly built model
            name, trace = c["cls"], c["trace"]
            kw0 = {k: val for k, val in trace[0]["kw"].items() if val is not None}
            with warnings.catch_warnings():
                warnings.simplefilter("ignore")
                m = hist_class(name)(dim=trace[0]["dim"], **kw0)
                for step in trace[1:]:
                    if step == "read":
                        derived(m, np.array([0.5 * m.len_rescaled]), 0.5)
                    else:
                        for k, val in step.items():
                            setattr(m, k, val)
                a = derived(m, np.array([0.5 * m.len_rescaled]), 0.5)
                b = derived(fresh_like(name, m), np.array([0.5 * m.len_rescaled]), 0.5)
                truth = quad_of_correlation(m, name)[0]
            print(f"replay {key}: after the history integral_scale={a['integral_scale']!r} percentile_scale(0.5)={a['percentile_scale']!r}; "
                  f"freshly built model: {b['integral_scale']!r} {b['percentile_scale']!r}; quadrature of the current correlation: {truth!r}")
            bad += any(isinstance(a[q], str) != isinstance(b[q], str) or (not isinstance(a[q], str) and differs(
                np.atleast_1d(a[q]), np.atleast_1d(b[q]), 0.0, rtol=1e-10).any()) for q in a)
            if key.startswith("integral-scale") and name != "JBessel":
                bad += abs(a["integral_scale"] - truth) > 1e-4 * abs(truth)
            continue
        if "cls" not in c or c["cls"] not in ALL_CLASSES:
            continue
        kw = {k: val for k, val in c.get("kw", {}).items() if val is not None}
        if key.startswith("list-scale:") and "mode" in c:
            # a list-valued scale argument: rebuild through the recorded route and show what the object reports per axis
            mode, given = c["mode"], c["given"]
            what = "integral_scale" if "integral_scale" in mode else "len_scale"
            extra = {"anis": c["anis"]} if "anis" in c else {}
            if "temporal" in mode:
                extra["temporal"] = True
            with warnings.catch_warnings(), np.errstate(all="ignore"):
                warnings.simplefilter("ignore")
                if mode.startswith("ctor"):
                    m = make(c["cls"], c["dim"], {}, kw, **{what: given}, **extra)
                else:
                    m = make(c["cls"], c["dim"], {}, {**kw, "len_scale": 1.0}, **extra)
                    setattr(m, what, given)
                vec = np.asarray(m.integral_scale_vec if what == "integral_scale" else m.len_scale_vec, dtype=float)
            want = np.atleast_1d(np.asarray(given, dtype=float))
            want = np.concatenate([want, [want[-1]] * c["dim"]])[:c["dim"]]
            if mode.endswith("scalar+anis"):
                want = want[0] * np.concatenate([[1.0], c["anis"]])
            print(f"replay {key}: {mode} with {given}: {what}_vec = {vec.tolist()}, prescribed per axis {want.tolist()}")
            bad += bool(np.any(np.abs(vec - want) > 2e-3 * want))
            continue
        m = make(c["cls"], c.get("dim", 1), {}, kw)
        if key.startswith("signed-lag:") and "lag" in c:
            r = np.array([c["lag"]])
            fn = key.split(":")[2] if key.startswith("signed-lag:not-even:") else "correlation"
            f = getattr(m, fn)
            args = (c["axis"],) if "axis" in c and fn.endswith("_axis") else ()
            with warnings.catch_warnings(), np.errstate(all="ignore"):
                warnings.simplefilter("ignore")
                a, b = float(np.ravel(f(r, *args))[0]), float(np.ravel(f(-r, *args))[0])
            print(f"replay {key}: {fn}({c['lag']!r}) = {a!r}, {fn}({-c['lag']!r}) = {b!r}")
            bad += not (a == b or (np.isnan(a) and np.isnan(b)) or abs(a - b) <= 1e-14 * (1 + abs(b)))
            continue
        if key.startswith("integral-scale:"):
            import mpmath as mp
            rep = float(m.integral_scale)
            truth = float(exact_integral_scale(c["cls"], m, mp_reference(c["cls"], m)))
            print(f"replay {key}: reported={rep!r} integral_of_correlation={truth!r}")
            bad += abs(rep - truth) > 1e-6 * abs(truth)
        elif key.startswith("percentile-scale:") and "per" in c:
            if c.get("mode") == "in-place":      # the model was built with another rescale, read, then `rescale` set in place
                target = kw.pop("rescale", None)
                first = c.get("rescale_before")
                m = make(c["cls"], c.get("dim", 1), {}, {**kw, **({} if first is None else {"rescale": first})})
                with warnings.catch_warnings(), np.errstate(all="ignore"):
                    warnings.simplefilter("ignore")
                    m.percentile_scale(0.5)
                    if target is not None:
                        m.rescale = target
            with warnings.catch_warnings(), np.errstate(all="ignore"):
                warnings.simplefilter("ignore")
                x = float(m.percentile_scale(c["per"]))
            x0 = smallest_percentile_lag(m, c["per"])
            out, g = percentile_outcome(m, x, x0, c["per"])
            print(f"replay {key}: percentile_scale({c['per']!r}) = {x!r}: {out}; variogram there {g!r}, nugget + per * var = {m.nugget + c['per'] * m.var!r}; "
                  f"smallest positive lag reaching the percentile (independent bracketing) {x0!r}; len_rescaled = {float(m.len_scale / m.rescale)!r}")
            bad += out != "ok"
        elif key.startswith("identity:cor-vs-correlation") and "lag" in c:
            r = np.array([c["lag"]])
            a, b = float(m.correlation(r)[0]), float(m.cor(np.abs(r) / m.len_rescaled)[0])
            print(f"replay {key}: correlation(r)={a!r} cor(r/len_rescaled)={b!r}")
            bad += abs(a - b) > 1e-12
        elif "lag" in c:
            import mpmath as mp
            mp.mp.dps = 30
            a = float(m.correlation(np.array([c["lag"]]))[0])
            b = float(mp_reference(c["cls"], m)(mp.mpf(abs(c["lag"]))))
            print(f"replay {key}: correlation={a!r} documented={b!r}")
            bad += abs(a - b) > 1e-9 * abs(b) + 1e-13
    print("VIOLATION reproduced" if bad else "not reproduced")
    return 1 if bad else 0
