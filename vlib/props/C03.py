"""C03 — model functions are mutually consistent and match their documented closed forms.

correspondence (tie B): the real `CovModel` API (17 shipped classes + tiny user subclasses defined through
each of cor / correlation / covariance / variogram) against `GSV.Model.CovFn` run on Float by the driver:
derivation combinators, nugget / axis / yadrenko / spatial variants, elementary closed forms, integral scales
and the integral-scale setter.

search (independent of the Lean model): identities on the real API for every class over its whole bounds,
closed forms against mpmath at 30 digits, integral_scale against exact values / mpmath quadrature,
percentile_scale by substitution, nugget / axis / yadrenko / spatial variants against direct numpy.
"""
import math
import warnings

import numpy as np

import proto

ASSUMPTIONS = [
    "closed forms of the special-function families (Matern, Integral, Hyper/SuperSpherical, JBessel, TPL*) are proved "
    "only on their elementary slices; elsewhere they are compared with mpmath (30 digits) by the search",
    "np.isclose(r, 0) is modelled as |r| <= 1e-8 (numpy defaults atol=1e-8, rtol irrelevant against 0)",
    "scipy.integrate.quad / scipy.optimize.root (integral_scale of classes without closed form, percentile_scale) "
    "are parameters: their results are checked by substitution, not modelled",
    "the lag of the *_spatial variants comes from the Geo model (property C12)",
]

EPS = 2.0 ** -52
ALL_CLASSES = ["Gaussian", "Exponential", "Matern", "Integral", "Stable", "Rational", "Cubic", "Linear", "Circular",
               "Spherical", "HyperSpherical", "SuperSpherical", "JBessel", "TPLGaussian", "TPLExponential",
               "TPLStable", "TPLSimple"]
TPL3 = ("TPLGaussian", "TPLExponential", "TPLStable")
MAXDIM = {"Linear": 1, "Circular": 2, "Cubic": 3, "Spherical": 3, "HyperSpherical": 3}
ROUTES = ["cor", "correlation", "covariance", "variogram"]
BASE_FNS = ["cor", "correlation", "covariance", "variogram", "cov_nugget", "vario_nugget"]


def _gs():
    import gstools as gs
    return gs


def quiet():
    ctxm = warnings.catch_warnings()
    ctxm.__enter__()
    warnings.simplefilter("ignore")
    return ctxm


# ----------------------------------------------------------------------------------------------- generators
def logu(rng, lo, hi):
    return float(np.exp(rng.uniform(np.log(lo), np.log(hi))))


def gen_common(rng, nice=False):
    """var, len_scale, nugget, rescale (None = class default)"""
    if nice:
        return dict(var=float(rng.choice([1.0, 2.0, 0.5])), len_scale=float(rng.choice([1.0, 2.0, 3.0, 0.25])),
                    nugget=float(rng.choice([0.0, 0.5])), rescale=None)
    return dict(var=logu(rng, 1e-2, 1e2), len_scale=logu(rng, 0.05, 50.0),
                nugget=float(rng.choice([0.0, rng.uniform(0, 5)])),
                rescale=None if rng.rand() < 0.4 else logu(rng, 0.2, 5.0))


def gen_opt(rng, name, dim, elementary):
    """optional arguments within the bounds of class `name`, and the Lean kernel slice (dict) or None.
    elementary=True forces a parameter slice on which the model has a closed form."""
    k = lambda kern, **kw: dict(kernel=kern, **kw)
    if name in ("Gaussian", "Exponential", "Cubic", "Linear", "Circular", "Spherical"):
        return {}, k(name)
    if name == "Stable":
        a = float(rng.choice([2.0, 1.0, rng.uniform(0.3, 2.0)]))
        return {"alpha": a}, k("Stable", a=a)
    if name == "Rational":
        a = float(rng.choice([0.5, 1.0, 50.0, logu(rng, 0.5, 50.0)]))
        return {"alpha": a}, k("Rational", a=a)
    if name == "TPLSimple":
        lo = (dim + 1) / 2
        nu = float(rng.choice([lo, 50.0, rng.uniform(lo, 50.0), rng.uniform(lo, lo + 3)]))
        return {"nu": nu}, k("TPLSimple", a=nu)
    if name == "HyperSpherical":
        return {}, k("HyperSpherical")
    if name == "SuperSpherical":
        lo = (dim - 1) / 2
        c = rng.randint(3) if not elementary else rng.randint(2)
        if c == 0:
            n = int(rng.randint(int(math.ceil(lo)), 7))
            return {"nu": float(n)}, k("SuperSphericalNat", n=n)
        if c == 1 and dim <= 2:
            return {"nu": 0.5}, k("SuperSphericalHalf")
        if c == 1:
            return {"nu": 1.0}, k("SuperSphericalNat", n=1)
        return {"nu": float(rng.uniform(lo, 50.0))}, None
    if name == "Matern":
        c = rng.randint(5) if not elementary else rng.randint(4)
        if c < 3:
            nu = [0.5, 1.5, 2.5][c]
            return {"nu": nu}, k(["Matern12", "Matern32", "Matern52"][c])
        if c == 3:
            return {"nu": float(rng.choice([20.000001, 30.0, rng.uniform(20.0001, 30.0)]))}, k("MaternLimit")
        return {"nu": float(rng.choice([0.2, 20.0, rng.uniform(0.2, 20.0)]))}, None
    if name == "JBessel":
        c = rng.randint(3) if not elementary else rng.randint(2)
        if c == 0 and dim <= 2:
            return {"nu": 0.5}, k("JBessel12", hmin=0.0)
        if c <= 1:
            return {"nu": 1.5}, k("JBessel32", hmin=0.3)
        return {"nu": float(rng.uniform(dim / 2 - 1 + 0.02, 50.0))}, None
    if name == "Integral":
        return {"nu": float(rng.choice([50.0, 1.0, logu(rng, 0.01, 50.0)]))}, None
    if name in ("TPLGaussian", "TPLExponential"):
        return {"hurst": float(rng.uniform(0.1001, 0.999)), "len_low": float(rng.choice([0.0, rng.uniform(0, 5)]))}, None
    if name == "TPLStable":
        return {"hurst": float(rng.uniform(0.1001, 0.999)), "alpha": float(rng.uniform(0.3, 2.0)),
                "len_low": float(rng.choice([0.0, rng.uniform(0, 5)]))}, None
    raise KeyError(name)


def gen_dim(rng, name):
    return int(rng.randint(1, MAXDIM.get(name, 3) + 1))


def make(name, dim, common, opt, **extra):
    gs = _gs()
    kw = dict(common)
    if kw.get("rescale") is None:
        kw.pop("rescale", None)
    kw.update(opt)
    kw.update(extra)
    with warnings.catch_warnings():
        warnings.simplefilter("ignore")
        return getattr(gs, name)(dim=dim, **kw)


def make_user(route, K):
    """tiny user subclass defined through exactly one of the four functions, kernel K of the normalised lag.
    The operation order is the one written in GSV.Model.CovFn.userFns."""
    from gstools import CovModel
    if route == "cor":
        class UserCor(CovModel):
            def cor(self, h):
                return K(h)
        return UserCor
    if route == "correlation":
        class UserCorrelation(CovModel):
            def correlation(self, r):
                return K(np.abs(r) / self.len_rescaled)
        return UserCorrelation
    if route == "covariance":
        class UserCovariance(CovModel):
            def covariance(self, r):
                return self.var * K(np.abs(r) / self.len_rescaled)
        return UserCovariance
    if route == "variogram":
        class UserVariogram(CovModel):
            def variogram(self, r):
                return self.var * (1 - K(np.abs(r) / self.len_rescaled)) + self.nugget
        return UserVariogram
    raise KeyError(route)


def lag_grid(rng, L, n_rand=6):
    """lags r: zero, the isclose band and its edges, tiny, inside, support edge +-1ulp, beyond, far tail, negative"""
    g = [0.0, 1e-9, -1e-9, 1e-8, float(np.nextafter(1e-8, 0)), float(np.nextafter(1e-8, 1)), -float(np.nextafter(1e-8, 1)),
         1e-6 * L, 1e-3 * L, 0.1 * L, 0.5 * L, float(np.nextafter(L, 0)), L, float(np.nextafter(L, np.inf)),
         L * (1 - 2 * EPS), L * (1 + 2 * EPS), 1.5 * L, 2 * L, 5 * L, 20 * L, 100 * L, -0.7 * L, -3 * L]
    g += list(rng.uniform(0, 3, n_rand) * L)
    return np.array(g, dtype=float)


def branch_of(h):
    h = abs(h)
    if h == 0:
        return "zero"
    if h < 1e-6:
        return "tiny"
    if h < 1 - 1e-9:
        return "inside"
    if h <= 1 + 1e-9:
        return "edge"
    if h < 10:
        return "beyond"
    return "far"


# ------------------------------------------------------------------------------------------- correspondence
def par_bits(m):
    return dict(var=proto.f2b(m.var), len_scale=proto.f2b(m.len_scale), nugget=proto.f2b(m.nugget),
                rescale=proto.f2b(m.rescale))


def kern_fields(kern, dim):
    d = {"kernel": kern["kernel"], "dim": dim}
    if "a" in kern:
        d["a"] = proto.f2b(kern["a"])
    if "n" in kern:
        d["n"] = int(kern["n"])
    return d


def scales(m, route):
    """natural magnitudes against which absolute rounding errors are measured"""
    s_cor = 1.0 if route in ("builtin", "cor", "correlation") else 2.0 + 2.0 * m.nugget / m.var
    return {"cor": s_cor, "correlation": s_cor, "covariance": m.var * s_cor, "variogram": m.var * s_cor + m.nugget,
            "cov_nugget": m.var * s_cor + m.nugget, "vario_nugget": m.var * s_cor + m.nugget,
            "cor_axis": s_cor, "cov_axis": m.var * s_cor, "vario_axis": m.var * s_cor + m.nugget,
            "cor_yadrenko": s_cor, "cov_yadrenko": m.var * s_cor, "vario_yadrenko": m.var * s_cor + m.nugget}


def differs(a, b, scale, rtol=1e-12, aeps=64):
    """|a-b| > rtol*|b| + aeps*eps*scale  (nan/inf must coincide)"""
    a, b = np.asarray(a, dtype=float), np.asarray(b, dtype=float)
    if a.shape != b.shape:
        return np.ones(max(a.size, b.size), dtype=bool)
    fin = np.isfinite(a) & np.isfinite(b)
    bad = np.zeros(a.shape, dtype=bool)
    bad[~fin] = ~((np.isnan(a[~fin]) & np.isnan(b[~fin])) | (a[~fin] == b[~fin]))
    bad[fin] = np.abs(a[fin] - b[fin]) > rtol * np.abs(b[fin]) + aeps * EPS * scale
    return bad


class Collector:
    def __init__(self):
        self.ops, self.checks = [], []      # checks[i]: (label, case, expected array, scale, rtol, lags, hfilter)
        self.dist = {}
        self.evals = 0
        self.distinct = set()
        self.disagreements = []
        self.samples = []

    def count(self, key, n=1):
        self.dist[key] = self.dist.get(key, 0) + n

    def add(self, op, label, case, expected, scale, rtol=1e-12, keep=None):
        self.ops.append(op)
        self.checks.append((label, case, np.asarray(expected, dtype=float), scale, rtol, keep))

    def finish(self):
        res = proto.run_driver(self.ops)
        for op, (label, case, exp, scale, rtol, keep), r in zip(self.ops, self.checks, res):
            if isinstance(r, dict) and "error" in r:
                self.disagreements.append({"what": f"{label}: model raised {r['error']}", "case": case})
                continue
            if r and isinstance(r[0], list):
                got = np.array([proto.unbits(row) for row in r], dtype=float)
            elif r and isinstance(r[0], bool):
                got = np.array(r, dtype=float)
            else:
                got = proto.unbits(r).astype(float)
            e, g = exp, got
            if keep is not None:
                e, g = exp[keep], got[keep]
            bad = differs(g, e, scale, rtol)
            self.evals += int(e.size)
            self.count("fn:" + label.split("/")[-1], int(e.size))
            self.distinct.add((label, case.get("cls"), tuple(sorted((k, str(v)) for k, v in case.get("kw", {}).items()))))
            if bad.any():
                i = int(np.argmax(bad))
                self.disagreements.append({"what": label, "case": case, "index": i,
                                           "impl": float(np.ravel(e)[i]), "model": float(np.ravel(g)[i]),
                                           "n_bad": int(bad.sum())})
            elif len(self.samples) < 5:
                self.samples.append({"label": label, "case": case, "impl_first": np.ravel(e)[:4].tolist(),
                                     "model_first": np.ravel(g)[:4].tolist()})


def corr_case(col, rng, name, route, nice):
    """one (class, parameters, route) case: all base functions + variants on a lag grid"""
    gs = _gs()
    dim = gen_dim(rng, name)
    common = gen_common(rng, nice)
    opt, kern = gen_opt(rng, name, dim, elementary=True)
    anis = [float(rng.choice([1.0, 0.5, 2.0, logu(rng, 0.1, 10)])) for _ in range(dim - 1)]
    angles = [float(rng.uniform(-np.pi, np.pi)) for _ in range(dim * (dim - 1) // 2)]
    radius = float(rng.choice([1.0, 57.29577951308232, 6371.0]))
    shipped = make(name, dim, common, opt, anis=anis, angles=angles, geo_scale=radius)
    if route == "builtin":
        m = shipped
    else:
        kw = dict(common)
        if kw["rescale"] is None:
            kw["rescale"] = shipped.rescale      # user classes have default rescale 1: pass the shipped one
        with warnings.catch_warnings():
            warnings.simplefilter("ignore")
            m = make_user(route, shipped.cor)(dim=dim, anis=anis, angles=angles, geo_scale=radius, **kw)
    L = m.len_rescaled
    lags = lag_grid(rng, L)
    hmin = kern.get("hmin", 0.0)
    h = np.abs(lags) / L
    keep = (h >= hmin) | (h <= 1e-8) if hmin > 0 else None
    case = {"cls": name, "route": route, "dim": dim, "kw": {**{k: v for k, v in common.items()}, **opt,
            "rescale": m.rescale, "anis": anis, "angles": angles}}
    sc = scales(m, route)
    base = {"op": "covfn_eval", "route": "cor" if route == "builtin" else route, **kern_fields(kern, dim), **par_bits(m)}
    col.count(f"class:{name}")
    col.count(f"route:{route}")
    for b in h:
        col.count("branch:" + branch_of(b))
    with warnings.catch_warnings(), np.errstate(all="ignore"):
        warnings.simplefilter("ignore")
        for fn in BASE_FNS:
            x = lags / L if fn == "cor" else lags
            if fn == "cor" and name in ("Stable", "HyperSpherical", "SuperSpherical", "JBessel"):
                x = np.abs(x)       # these `cor` methods take no abs: a negative normalised lag has no meaning there
            exp = getattr(m, fn)(x)
            kp = keep
            if fn == "cor" and hmin > 0:
                kp = (np.abs(x) >= hmin) | (np.abs(x) <= 1e-8)
            col.add({**base, "fn": fn, "lags": proto.fbits(x)}, f"{route}/{fn}", case, exp, sc[fn], keep=kp)
        # per-axis variants (axis 0 .. dim-1)
        for axis in range(dim):
            for fn in ("vario_axis", "cov_axis", "cor_axis"):
                exp = getattr(m, fn)(lags, axis=axis)
                a_keep = keep
                if hmin > 0 and axis > 0:
                    ha = np.abs(lags) / m.anis[axis - 1] / L
                    a_keep = (ha >= hmin) | (ha <= 1e-8)
                col.add({**base, "fn": fn, "lags": proto.fbits(lags), "axis": axis, "anis": proto.fbits(m.anis)},
                        f"{route}/{fn}", {**case, "axis": axis}, exp, sc[fn], keep=a_keep)
        # Yadrenko variants: great-circle distances up to half the circumference, h kept moderate
        zeta = np.concatenate([[0.0, 1e-9 * radius, np.pi * radius], rng.uniform(0, np.pi, 8) * radius])
        hz = 2 * radius * np.sin(zeta / (2 * radius)) / L
        z_keep = (hz <= 12) & ((hz >= max(hmin, 0)) | (hz <= 1e-8))
        if z_keep.any():
            for fn in ("vario_yadrenko", "cov_yadrenko", "cor_yadrenko"):
                exp = getattr(m, fn)(zeta)
                col.add({**base, "fn": fn, "lags": proto.fbits(zeta), "radius": proto.f2b(m.geo_scale)},
                        f"{route}/{fn}", {**case, "radius": radius}, exp, sc[fn], rtol=1e-10, keep=z_keep)
        # spatial variants (shipped classes; the lag is the Geo model's isoRad)
        if route == "builtin":
            npts = 8
            pos = rng.uniform(-2, 2, size=(dim, npts)) * L
            pos[:, 0] = 0.0
            rad = m._get_iso_rad(pos)
            exp = np.stack([rad, m.vario_spatial(pos), m.cov_spatial(pos), m.cor_spatial(pos)], axis=1)
            hs = rad / L
            s_keep = (hs <= 12) & ((hs >= hmin) | (hs <= 1e-8))
            if s_keep.any():
                col.add({"op": "covfn_spatial", **kern_fields(kern, dim), **par_bits(m), "angles": proto.fbits(m.angles),
                         "anis": proto.fbits(m.anis), "pos": proto.fbits(pos.T)},
                        f"{route}/spatial", case, exp, m.var + m.nugget + L, rtol=1e-10, keep=s_keep)


def derive_case(col, rng, name):
    """any class, any parameters: the class's own correlation values are the input; covariance, variogram and the
    nugget variants must be what the combinators derive from them"""
    dim = gen_dim(rng, name)
    common = gen_common(rng)
    opt, _ = gen_opt(rng, name, dim, elementary=False)
    m = make(name, dim, common, opt)
    L = m.len_rescaled
    lags = lag_grid(rng, L, 4)
    case = {"cls": name, "route": "derive", "dim": dim, "kw": {**common, **opt, "rescale": m.rescale}}
    col.count(f"class:{name}")
    col.count("route:derive")
    with warnings.catch_warnings(), np.errstate(all="ignore"):
        warnings.simplefilter("ignore")
        c = np.asarray(m.correlation(lags), dtype=float)
        band = np.abs(lags) <= 1e-8
        cn, vn = m.cov_nugget(lags), m.vario_nugget(lags)
        exp = np.stack([c, m.covariance(lags), m.variogram(lags), np.where(band, m.covariance(lags), cn),
                        np.where(band, m.variogram(lags), vn), np.where(band, cn, m.sill), np.where(band, vn, 0.0)], axis=1)
    ok = np.isfinite(c)
    if ok.any():
        col.add({"op": "covfn_derive", **par_bits(m), "vals": proto.fbits(c)}, "derive/all", case, exp,
                m.var + m.nugget, keep=ok)


def intscale_case(col, rng, name):
    """integral scale: closed forms / quadrature of the code against len_rescaled * (proved value of ∫cor); setter"""
    dim = gen_dim(rng, name)
    common = gen_common(rng)
    opt, kern = gen_opt(rng, name, dim, elementary=True)
    if kern is None or kern["kernel"] in ("Stable", "Rational", "SuperSphericalNat", "SuperSphericalHalf", "MaternLimit",
                                          "JBessel12", "JBessel32"):
        return
    m = make(name, dim, common, opt)
    want = logu(rng, 0.05, 20.0)
    exact = name in ("Gaussian", "Exponential", "Matern")
    # classes without closed form integrate with scipy quad over [0, inf): on kinked compact-support integrands its error
    # estimate is optimistic (observed up to 2e-5 relative for Linear / Circular / TPLSimple nu=1, <= 3e-7 for smooth edges)
    rtol = 1e-12 if exact else 1e-4
    case = {"cls": name, "route": "intscale", "dim": dim, "kw": {**common, **opt, "rescale": m.rescale}, "set": want}
    with warnings.catch_warnings():
        warnings.simplefilter("ignore")
        rep = m.integral_scale
        try:
            m2 = make(name, dim, common, opt)
            m2.integral_scale = want
            new_len, rep2 = m2.len_scale, m2.integral_scale
        except ValueError:
            new_len, rep2 = float("nan"), float("nan")
    col.count(f"class:{name}")
    col.count("route:intscale")
    col.add({"op": "covfn_intscale", **kern_fields(kern, dim), **par_bits(m), "set": proto.f2b(want)},
            "intscale/reported,setter_len,after", case, [rep, new_len, rep2], 0.0, rtol=rtol)
    if name in ("Gaussian", "Exponential"):
        col.add({"op": "covfn_calc_is", "kernel": name, **par_bits(m)}, "intscale/calc_integral_scale", case,
                [m.calc_integral_scale()], 0.0, rtol=1e-14)


def correspondence(ctx):
    rng = np.random.RandomState(ctx.seed + 303)
    col = Collector()
    reps = ctx.scale(2, 8)
    elementary = [c for c in ALL_CLASSES if c not in ("Integral",) + TPL3]
    for rep in range(reps):
        for name in elementary:
            for route in ["builtin"] + ROUTES:
                corr_case(col, rng, name, route, nice=(rep == 0 and route == "builtin"))
        for name in ALL_CLASSES:
            for _ in range(3):
                derive_case(col, rng, name)
        for name in elementary:
            for _ in range(2):
                intscale_case(col, rng, name)
    # Integral: closed form of calc_integral_scale
    for _ in range(ctx.scale(3, 20)):
        m = make("Integral", gen_dim(rng, "Integral"), gen_common(rng), gen_opt(rng, "Integral", 1, False)[0])
        col.add({"op": "covfn_calc_is", "kernel": "Integral", "a": proto.f2b(m.nu), **par_bits(m)},
                "intscale/calc_integral_scale", {"cls": "Integral", "kw": {"nu": m.nu, "len_scale": m.len_scale, "rescale": m.rescale}},
                [m.calc_integral_scale()], 0.0, rtol=1e-14)
    # default rescale of every class
    for name in ALL_CLASSES:
        m = make(name, 1, {}, {})
        col.add({"op": "covfn_default_rescale", "kernel": name}, "default_rescale", {"cls": name, "kw": {}}, [m.rescale], 0.0,
                rtol=1e-15)
    # the isclose(r, 0) predicate on its boundary
    edge = np.array([0.0, 1e-8, np.nextafter(1e-8, 0), np.nextafter(1e-8, 1), -1e-8, -np.nextafter(1e-8, 1), 1e-300, 9.999e-9,
                     1.0001e-8, 1.0, -0.0, 5e-324])
    col.add({"op": "covfn_isclose0", "lags": proto.fbits(edge)}, "isclose0", {"cls": "-", "kw": {}},
            np.isclose(edge, 0).astype(float), 0.0, rtol=0.0)
    col.finish()
    return {"evaluations": col.evals, "distinct_nontrivial": len(col.distinct),
            "rule": "one case = (class or user subclass via route, parameter set within bounds on an elementary slice, function / "
                    "variant); every case is evaluated on a lag grid {0, isclose band and its edges, 1e-6 ℓ, inside, support edge "
                    "±1 ulp, beyond, 20 ℓ, 100 ℓ, negative, random}; evaluations = compared doubles; distinct = distinct "
                    "(function, route, class, parameters); tolerance 1e-12 relative + 64 eps × natural scale "
                    "(1e-10 where the lag itself passes through sin / a rotation)",
            "samples": col.samples, "disagreements": col.disagreements[:20], "distribution": col.dist}


# --------------------------------------------------------------------------------------------------- search
def mp_reference(name, m, snap=False):
    """documented correlation of the model as an mpmath function of the lag r >= 0 (independent of gstools code).
    snap=True (Integral / TPL* only): the ORDER of the exponential integral is replaced by the nearest integer, the
    prefactor is kept — the function the code evaluates when np.isclose(order, integer) (integer-order shortcut)"""
    import mpmath as mp
    L = mp.mpf(m.len_scale) / mp.mpf(m.rescale)

    def tpl(r, ell, hurst, alpha):
        if r == 0:
            return mp.mpf(1)
        s = 2 * mp.mpf(hurst) / alpha
        order = mp.nint(1 + s) if snap else 1 + s
        return s * mp.expint(order, (r / ell) ** alpha)

    def tpl_model(alpha):
        lo = mp.mpf(m.len_low) / mp.mpf(m.rescale)
        up = (mp.mpf(m.len_low) + mp.mpf(m.len_scale)) / mp.mpf(m.rescale)
        H2 = 2 * mp.mpf(m.hurst)
        if np.isclose(m.len_low / m.rescale, 0.0):
            return lambda r: tpl(mp.mpf(r), L, m.hurst, alpha)
        return lambda r: (up ** H2 * tpl(mp.mpf(r), up, m.hurst, alpha) - lo ** H2 * tpl(mp.mpf(r), lo, m.hurst, alpha)) / (
            up ** H2 - lo ** H2)

    def sph(nu):
        nu = mp.mpf(nu)
        f1 = mp.hyp2f1(0.5, -nu, 1.5, 1)
        return lambda r: (1 - (r / L) * mp.hyp2f1(0.5, -nu, 1.5, (r / L) ** 2) / f1) if r / L < 1 else mp.mpf(0)

    if name == "Gaussian":
        return lambda r: mp.exp(-(mp.mpf(r) / L) ** 2)
    if name == "Exponential":
        return lambda r: mp.exp(-mp.mpf(r) / L)
    if name == "Stable":
        return lambda r: mp.exp(-(mp.mpf(r) / L) ** mp.mpf(m.alpha))
    if name == "Rational":
        return lambda r: (1 + (mp.mpf(r) / L) ** 2 / mp.mpf(m.alpha)) ** (-mp.mpf(m.alpha))
    if name == "Matern":
        nu = mp.mpf(m.nu)
        if m.nu > 20.0:     # documented: the Gaussian limit is used for nu > 20
            return lambda r: mp.exp(-(mp.mpf(r) / (2 * L)) ** 2)

        def f(r):
            if r == 0:
                return mp.mpf(1)
            x = mp.sqrt(nu) * mp.mpf(r) / L
            return 2 ** (1 - nu) / mp.gamma(nu) * x ** nu * mp.besselk(nu, x)
        return f
    if name == "Integral":
        nu = mp.mpf(m.nu)
        order = mp.nint(1 + nu / 2) if snap else 1 + nu / 2
        return lambda r: nu / 2 * mp.expint(order, (mp.mpf(r) / L) ** 2)
    if name == "Cubic":
        def f(r):
            h = min(mp.mpf(r) / L, mp.mpf(1))
            return 1 - 7 * h ** 2 + mp.mpf(35) / 4 * h ** 3 - mp.mpf(7) / 2 * h ** 5 + mp.mpf(3) / 4 * h ** 7
        return f
    if name == "Linear":
        return lambda r: max(1 - mp.mpf(r) / L, mp.mpf(0))
    if name == "Circular":
        def f(r):
            h = mp.mpf(r) / L
            return 2 / mp.pi * (mp.acos(h) - h * mp.sqrt(1 - h ** 2)) if h < 1 else mp.mpf(0)
        return f
    if name == "Spherical":
        def f(r):
            h = min(mp.mpf(r) / L, mp.mpf(1))
            return 1 - mp.mpf(3) / 2 * h + h ** 3 / 2
        return f
    if name == "HyperSpherical":
        g = sph((m.dim - 1) / 2)
        return lambda r: g(mp.mpf(r))
    if name == "SuperSpherical":
        g = sph(m.nu)
        return lambda r: g(mp.mpf(r))
    if name == "JBessel":
        nu = mp.mpf(m.nu)

        def f(r):
            h = mp.mpf(r) / L
            return mp.mpf(1) if h == 0 else mp.gamma(nu + 1) * mp.besselj(nu, h) / (h / 2) ** nu
        return f
    if name == "TPLGaussian":
        return tpl_model(2)
    if name == "TPLExponential":
        return tpl_model(1)
    if name == "TPLStable":
        return tpl_model(mp.mpf(m.alpha))
    if name == "TPLSimple":
        return lambda r: max(1 - mp.mpf(r) / L, mp.mpf(0)) ** mp.mpf(m.nu)
    raise KeyError(name)


def exact_integral_scale(name, m, ref):
    """∫₀^∞ of the documented correlation: closed form where one is known, else mpmath quadrature"""
    import mpmath as mp
    L = mp.mpf(m.len_scale) / mp.mpf(m.rescale)
    if name == "Gaussian":
        return L * mp.sqrt(mp.pi) / 2
    if name == "Exponential":
        return L
    if name == "Stable":
        return L * mp.gamma(1 + 1 / mp.mpf(m.alpha))
    if name == "Rational":
        a = mp.mpf(m.alpha)
        return L * mp.sqrt(mp.pi * a) * mp.gamma(a - 0.5) / mp.gamma(a) / 2 if a > 0.5 else mp.inf
    if name == "Matern":
        if m.nu > 20.0:
            return L * mp.sqrt(mp.pi)          # of the Gaussian limit the code actually evaluates
        nu = mp.mpf(m.nu)
        return L * mp.pi / mp.sqrt(nu) / mp.beta(nu, 0.5)
    if name == "Integral":
        nu = mp.mpf(m.nu)
        return L * nu * mp.sqrt(mp.pi) / (2 * nu + 2)
    if name == "JBessel":
        nu = mp.mpf(m.nu)
        return L * mp.sqrt(mp.pi) * mp.gamma(nu + 1) / mp.gamma(nu + 0.5)
    if name == "Linear":
        return L / 2
    if name == "Spherical":
        return 3 * L / 8
    if name == "Cubic":
        return 35 * L / 96
    if name == "Circular":
        return 4 * L / (3 * mp.pi)
    if name == "TPLSimple":
        return L / (mp.mpf(m.nu) + 1)
    if name in ("HyperSpherical", "SuperSpherical"):
        return mp.quad(ref, [0, L / 2, L])
    # TPL*: smooth, exponentially decaying beyond the upper scale
    up = (mp.mpf(m.len_low) + mp.mpf(m.len_scale)) / mp.mpf(m.rescale)
    return mp.quad(ref, [0, up / 100, up / 10, up, 3 * up, 10 * up, mp.inf])


def search_identities(ctx, rng, n_per_class, viol):
    """(a) the three identities + variants on the real API, whole bounds"""
    ev = 0
    for name in ALL_CLASSES:
        for _ in range(n_per_class):
            dim = gen_dim(rng, name)
            common = gen_common(rng)
            opt, _ = gen_opt(rng, name, dim, elementary=False)
            anis = [logu(rng, 0.1, 10) for _ in range(dim - 1)]
            angles = [float(rng.uniform(-np.pi, np.pi)) for _ in range(dim * (dim - 1) // 2)] if dim == 2 else []
            radius = float(rng.choice([1.0, 57.29577951308232, 6371.0]))
            m = make(name, dim, common, opt, anis=anis, angles=angles, geo_scale=radius)
            L = m.len_rescaled
            r = lag_grid(rng, L)
            case = {"cls": name, "dim": dim, "kw": {**common, **opt, "anis": anis, "angles": angles}}
            sill = m.var + m.nugget
            with warnings.catch_warnings(), np.errstate(all="ignore"):
                warnings.simplefilter("ignore")
                cor, cov, vario = m.correlation(r), m.covariance(r), m.variogram(r)
                fin = np.isfinite(cor)

                def chk(key, what, a, b, scale, rtol=1e-12):
                    nonlocal ev
                    ev += 1
                    bad = differs(np.asarray(a)[fin], np.asarray(b)[fin], scale, rtol)
                    if bad.any():
                        i = int(np.nanargmax(np.where(bad, np.abs(np.asarray(a, dtype=float)[fin] - np.asarray(b, dtype=float)[fin]), -1.0)))
                        viol.append({"key": key, "what": what, "case": {**case, "lag": float(r[fin][i]),
                                     "got": float(np.asarray(a)[fin][i]), "want": float(np.asarray(b)[fin][i])}})
                if not fin.all():
                    viol.append({"key": {"JBessel": "closed-form:JBessel:underflow-small-h",
                                         "Integral": "small-lag-breakdown:Integral"}.get(name, f"nonfinite:{name}"),
                                 "what": "correlation is not finite",
                                 "case": {**case, "lag": float(r[~fin][0])}})
                ev += 1
                if fin.any() and np.max(np.abs(cor[fin])) > 1 + 1e-9:
                    i = int(np.argmax(np.abs(np.where(fin, cor, 0.0))))
                    viol.append({"key": f"correlation-exceeds-one:{name}", "what": "|correlation| > 1",
                                 "case": {**case, "lag": float(r[i]), "got": float(cor[i])}})
                chk(f"identity:variogram:{name}", "variogram != var + nugget - covariance", vario, sill - cov, sill)
                chk(f"identity:covariance:{name}", "covariance != var * correlation", cov, m.var * cor, m.var)
                if m.len_rescaled != m.len_scale / m.rescale:
                    viol.append({"key": f"identity:len_rescaled:{name}", "what": "len_rescaled != len_scale / rescale", "case": case})
                # correlation(r) = cor(rescale r / len_scale): the argument is formed as the code documents it
                h = np.abs(r) / (m.len_scale / m.rescale)
                tplow = name in TPL3 and not np.isclose(m.len_low / m.rescale, 0.0)
                key = f"identity:cor-vs-correlation:{'TPL-len_low>0' if tplow else name}"
                chk(key, "correlation(r) != cor(rescale * r / len_scale)", cor, m.cor(h), 1.0)
                # range and value at zero
                ev += 1
                if abs(float(m.correlation(np.array([0.0]))[0]) - 1.0) > 1e-14:
                    viol.append({"key": f"cor0:{name}", "what": "correlation(0) != 1", "case": case})
                # nugget variants
                band = np.isclose(np.abs(r), 0)
                chk(f"nugget:cov:{name}", "cov_nugget differs from covariance off 0 / sill at 0", m.cov_nugget(r),
                    np.where(band, sill, cov), sill)
                chk(f"nugget:vario:{name}", "vario_nugget differs from variogram off 0 / 0 at 0", m.vario_nugget(r),
                    np.where(band, 0.0, vario), sill)
                # axis variants
                for axis in range(dim):
                    lag = r if axis == 0 else np.abs(r) / anis[axis - 1]
                    chk(f"axis:{name}", "vario_axis != variogram(|r| / anis[axis-1])", m.vario_axis(r, axis), m.variogram(lag), sill)
                    chk(f"axis:{name}", "cov_axis != covariance(|r| / anis[axis-1])", m.cov_axis(r, axis), m.covariance(lag), sill)
                    chk(f"axis:{name}", "cor_axis != correlation(|r| / anis[axis-1])", m.cor_axis(r, axis), m.correlation(lag), 1.0)
                # axis k behaves as the isotropic model with len_scale_vec[k]
                for axis in range(1, dim):
                    mi = make(name, dim, {**common, "len_scale": float(m.len_scale_vec[axis]), "rescale": m.rescale}, opt)
                    if name in TPL3 and m.len_low != 0:
                        break       # len_low is not scaled with the axis
                    # two different model objects: the lag is formed as (|r|/a)/L vs |r|/(L a); cancellation-prone classes
                    # (JBessel, TPL with len_low >> len_scale) amplify that last-ulp difference: absolute part x 1e3
                    chk(f"axis-lenvec:{name}", "vario_axis(r, k) != variogram of the model with len_scale_vec[k]",
                        m.vario_axis(r, axis), mi.variogram(r), 1e3 * sill, rtol=1e-9)
                # yadrenko
                zeta = rng.uniform(0, np.pi, r.size) * radius
                chord = 2 * radius * np.sin(zeta / (2 * radius))
                chk(f"yadrenko:{name}", "vario_yadrenko != variogram(2R sin(zeta/2R))", m.vario_yadrenko(zeta), m.variogram(chord), sill)
                chk(f"yadrenko:{name}", "cov_yadrenko != covariance(chord)", m.cov_yadrenko(zeta), m.covariance(chord), sill)
                chk(f"yadrenko:{name}", "cor_yadrenko != correlation(chord)", m.cor_yadrenko(zeta), m.correlation(chord), 1.0)
                # spatial: explicit derotation + scaling in 1-D / 2-D, scaling only in 3-D (angles 0)
                pos = rng.uniform(-2, 2, size=(dim, r.size)) * L
                if dim == 1:
                    rad = np.abs(pos[0])
                elif dim == 2:
                    c, s = np.cos(angles[0]), np.sin(angles[0])
                    x = c * pos[0] + s * pos[1]
                    y = -s * pos[0] + c * pos[1]
                    rad = np.sqrt(x ** 2 + (y / anis[0]) ** 2)
                else:
                    rad = np.sqrt(pos[0] ** 2 + (pos[1] / anis[0]) ** 2 + (pos[2] / anis[1]) ** 2)
                hs = rad / L
                sel = hs < 12
                fin_save = fin
                fin = sel
                chk(f"spatial:{name}", "vario_spatial != variogram(|isometrized pos|)", m.vario_spatial(pos), m.variogram(rad), 1e3 * sill, rtol=1e-9)
                chk(f"spatial:{name}", "cov_spatial != covariance(|isometrized pos|)", m.cov_spatial(pos), m.covariance(rad), 1e3 * sill, rtol=1e-9)
                chk(f"spatial:{name}", "cor_spatial != correlation(|isometrized pos|)", m.cor_spatial(pos), m.correlation(rad), 1e3 * 1.0, rtol=1e-9)
                fin = fin_save
    return ev


def search_user_routes(ctx, rng, n, viol):
    """(f) a user model given through any one of the four functions yields the same derived functions"""
    ev = 0
    kernels = {"exp": lambda h: np.exp(-np.abs(h)), "gau": lambda h: np.exp(-np.abs(h) ** 2),
               "sph": lambda h: 1.0 - 1.5 * np.minimum(np.abs(h), 1.0) + 0.5 * np.minimum(np.abs(h), 1.0) ** 3,
               "rat": lambda h: 1.0 / (1.0 + np.abs(h) ** 2), "wave": lambda h: np.cos(np.abs(h)) * np.exp(-np.abs(h))}
    for _ in range(n):
        kname = str(rng.choice(sorted(kernels)))
        K = kernels[kname]
        common = gen_common(rng)
        if common["rescale"] is None:
            common["rescale"] = 1.0
        dim = int(rng.randint(1, 4))
        ms = {}
        with warnings.catch_warnings():
            warnings.simplefilter("ignore")
            for route in ROUTES:
                ms[route] = make_user(route, K)(dim=dim, **common)
        L = ms["cor"].len_rescaled
        r = lag_grid(rng, L)
        ref = ms["cor"]
        sill = ref.var + ref.nugget
        amp = 2.0 + 2.0 * ref.nugget / ref.var
        truth = K(np.abs(r) / L)
        for route in ROUTES:
            m = ms[route]
            case = {"cls": f"user:{kname}", "route": route, "dim": dim, "kw": common}
            for fn, scale, want in (("correlation", amp, truth), ("covariance", ref.var * amp, ref.var * truth),
                                    ("variogram", sill * amp, sill - ref.var * truth), ("cor", amp, K(np.abs(r) / L))):
                x = r / L if fn == "cor" else r
                got = getattr(m, fn)(x)
                ev += 1
                bad = differs(got, want, scale)
                if bad.any():
                    i = int(np.argmax(bad))
                    viol.append({"key": f"user-route:{route}:{fn}", "what": f"user model defined via {route}: {fn} differs from the "
                                 "function that defines it", "case": {**case, "lag": float(x[i]), "got": float(got[i]), "want": float(want[i])}})
            # not providing any of the four must be refused
        ev += 1
    try:
        from gstools import CovModel

        class Nothing(CovModel):
            pass
        viol.append({"key": "user-route:abstract", "what": "subclass without cor/correlation/covariance/variogram accepted", "case": {}})
    except TypeError:
        pass
    return ev


def search_closed_forms(ctx, rng, n_per_class, viol):
    """(b) every shipped class against an mpmath evaluation (30 digits) of its documented formula"""
    import mpmath as mp
    ev = 0
    worst = {}
    old = mp.mp.dps
    mp.mp.dps = 30
    try:
        for name in ALL_CLASSES:
            for t in range(n_per_class):
                dim = gen_dim(rng, name)
                common = gen_common(rng)
                opt, _ = gen_opt(rng, name, dim, elementary=False)
                m = make(name, dim, common, opt)
                ref = mp_reference(name, m)
                L = m.len_rescaled
                scale_lo = L
                if name in TPL3:
                    # tplstable_cor treats |r / ell| <= 1e-8 as 0 for each of its two scales (documented hack; the cusped
                    # true function differs there by up to 1e-2): stay outside the band of the *upper* scale
                    scale_lo = (m.len_low + m.len_scale) / m.rescale
                r = np.concatenate([[0.0, 1e-6 * scale_lo, 1e-3 * L, 0.05 * L, np.nextafter(L, 0), L, np.nextafter(L, 2 * L), 2 * L, 6 * L,
                                     20 * L, 60 * L], rng.uniform(0, 1, 5) * L, rng.uniform(1, 8, 4) * L,
                                    np.exp(rng.uniform(np.log(1e-5), np.log(1e2), 5)) * L])
                with warnings.catch_warnings(), np.errstate(all="ignore"):
                    warnings.simplefilter("ignore")
                    got = np.asarray(m.correlation(r), dtype=float)
                want = np.array([float(ref(mp.mpf(float(x)))) for x in r])
                ev += r.size
                rtol, atol = CF_TOL.get(name, (1e-12, 8 * EPS))
                err = np.abs(got - want)
                bad = ~(err <= rtol * np.abs(want) + atol)
                err = np.where(np.isnan(err), np.inf, err)
                w = float(np.max(err / (rtol * np.abs(want) + atol + 1e-320)))
                worst[name] = max(worst.get(name, 0.0), w)
                if bad.any():
                    i = int(np.argmax(err - rtol * np.abs(want)))
                    key = f"closed-form:{name}"
                    if name == "JBessel" and want[i] > 0.5 and not got[i] > 0.0:
                        key = "closed-form:JBessel:underflow-small-h"
                    viol.append({"key": key, "what": "correlation differs from the documented formula (mpmath, 30 digits)",
                                 "case": {"cls": name, "dim": dim, "kw": {**common, **opt}, "lag": float(r[i]), "h": float(r[i] / L),
                                          "got": float(got[i]), "want": float(want[i])}})
    finally:
        mp.mp.dps = old
    return ev, worst


# (rtol, atol) of the closed-form comparison: what the scipy special functions behind each class deliver
CF_TOL = {
    "Gaussian": (1e-12, 0.0), "Exponential": (1e-13, 0.0), "Stable": (1e-12, 0.0), "Rational": (1e-12, 0.0),
    "Cubic": (1e-12, 64 * EPS), "Linear": (1e-13, 4 * EPS), "Circular": (1e-12, 16 * EPS), "Spherical": (1e-12, 16 * EPS),
    "TPLSimple": (1e-12, 64 * EPS),
    # scipy kv / expn / gammaincc / hyp2f1 (loses ~3 digits as z -> 1: 1 - h F/F(1) cancels at the support edge) / jv; Integral: first-order asymptotic branch of exp_int for x > 30 (|err| < e^-30)
    "Matern": (1e-12, 1e-300), "Integral": (1e-9, 1e-13), "HyperSpherical": (1e-11, 2048 * EPS), "SuperSpherical": (1e-10, 2048 * EPS),
    "JBessel": (1e-10, 1e-13), "TPLGaussian": (1e-11, 1e-13), "TPLExponential": (1e-11, 1e-13), "TPLStable": (1e-9, 1e-13),
}


REFUSED = {}


def search_integral_scale(ctx, rng, n_per_class, viol):
    """(c) reported integral scale against the integral of the documented correlation; setter"""
    import mpmath as mp
    ev = 0
    old = mp.mp.dps
    mp.mp.dps = 20
    try:
        for name in ALL_CLASSES:
            for t in range(n_per_class):
                dim = gen_dim(rng, name)
                common = gen_common(rng)
                opt, _ = gen_opt(rng, name, dim, elementary=False)
                if name == "Rational" and opt["alpha"] <= 0.5:
                    continue    # integral diverges at alpha = 0.5 (the code returns inf / nan there)
                m = make(name, dim, common, opt)
                with warnings.catch_warnings(), np.errstate(all="ignore"):
                    warnings.simplefilter("ignore")
                    rep = float(m.integral_scale)
                    truth = float(exact_integral_scale(name, m, mp_reference(name, m)))
                ev += 1
                if name == "JBessel":
                    key = "integral-scale:JBessel"
                elif name == "Matern" and m.nu > 20.0:
                    key = "integral-scale:Matern-nu>20"
                else:
                    key = f"integral-scale:{name}"
                # quad-based values: see intscale_case (observed error <= 2e-5 on kinked integrands)
                rtol = 1e-4 if name not in ("Gaussian", "Exponential", "Stable", "Rational", "Matern", "Integral") else 1e-11
                case = {"cls": name, "dim": dim, "kw": {**common, **opt}, "reported": rep, "integral_of_correlation": truth}
                if not abs(rep - truth) <= rtol * abs(truth):
                    viol.append({"key": key, "what": "integral_scale is not the integral of the correlation over all lags", "case": case})
                    continue
                # prescribing the integral scale
                want = logu(rng, 0.05, 20.0)
                with warnings.catch_warnings(), np.errstate(all="ignore"):
                    warnings.simplefilter("ignore")
                    try:
                        m2 = make(name, dim, common, opt, integral_scale=want)
                    except ValueError as e:
                        if name in TPL3 and opt.get("len_low", 0.0) > 0:
                            REFUSED[name] = REFUSED.get(name, 0) + 1      # loud, documented refusal: len_low is kept fixed
                            continue
                        viol.append({"key": f"integral-scale-setter:{name}", "what": f"integral_scale could not be prescribed: {e}",
                                     "case": {**case, "prescribed": want}})
                        continue
                    ref2 = mp_reference(name, m2)
                    truth2 = float(exact_integral_scale(name, m2, ref2))
                ev += 1
                # TPL models: len_low is kept, so the prescribed value is only reached within the setter's own 1e-3
                if not abs(truth2 - want) <= max(rtol, 1e-9) * want and not (name in TPL3 and m2.len_low > 0):
                    viol.append({"key": f"integral-scale-setter:{name}", "what": "after integral_scale=I the integral of the correlation is not I",
                                 "case": {**case, "prescribed": want, "len_scale_after": m2.len_scale, "integral_after": truth2}})
    finally:
        mp.mp.dps = old
    return ev


def search_percentile(ctx, rng, n_per_class, viol):
    """(d) percentile_scale substituted back into the variogram"""
    ev = 0
    for name in ALL_CLASSES:
        for t in range(n_per_class):
            dim = gen_dim(rng, name)
            common = gen_common(rng)
            opt, _ = gen_opt(rng, name, dim, elementary=False)
            m = make(name, dim, common, opt)
            for per in (0.1, 0.5, 0.9, float(rng.uniform(0.02, 0.98))):
                with warnings.catch_warnings(), np.errstate(all="ignore"):
                    warnings.simplefilter("ignore")
                    try:
                        x = float(m.percentile_scale(per))
                        g = float(m.variogram(np.array([x]))[0])
                    except Exception as e:   # noqa
                        viol.append({"key": f"percentile-scale:raised:{name}", "what": f"percentile_scale raised {type(e).__name__}",
                                     "case": {"cls": name, "dim": dim, "kw": {**common, **opt}, "per": per}})
                        continue
                ev += 1
                case = {"cls": name, "dim": dim, "kw": {**common, **opt}, "per": per, "scale": x, "variogram": g,
                        "want": m.nugget + per * m.var}
                if not abs(g - m.nugget - per * m.var) <= 1e-6 * m.var + 64 * EPS * (m.var + m.nugget):
                    viol.append({"key": "percentile-scale:unconverged-root", "case": case,
                                 "what": "variogram(percentile_scale(per)) != nugget + per * var (scipy root did not converge; "
                                         "its `success` flag is ignored)"})
                elif x < 0:
                    viol.append({"key": "percentile-scale:negative-root", "case": case,
                                 "what": "percentile_scale(per) is a negative lag (mirror root of the even function)"})
            for bad_per in (0.0, 1.0, -0.1, 1.5):
                ev += 1
                try:
                    m.percentile_scale(bad_per)
                    viol.append({"key": f"percentile-scale:range:{name}", "what": "percentile outside (0, 1) accepted",
                                 "case": {"cls": name, "per": bad_per}})
                except ValueError:
                    pass
    return ev


def dedup(viol, per_key=2):
    seen, out = {}, []
    for v in viol:
        seen[v["key"]] = seen.get(v["key"], 0) + 1
        if seen[v["key"]] <= per_key:
            out.append(v)
    return out, seen


def directed(ctx, viol):
    """corpus of past findings (fixed inputs, no randomness), replayed first on every run; every entry is a concrete
    input on which the property fails on the pinned tree — a repaired tree makes the entry silent"""
    import mpmath as mp
    gs = _gs()
    ev = 0
    with warnings.catch_warnings(), np.errstate(all="ignore"):
        warnings.simplefilter("ignore")
        # D11 / D12: reported integral scale vs integral of the correlation the class evaluates
        for name, kw, key in (("JBessel", dict(dim=1, nu=0.5, len_scale=2.0), "integral-scale:JBessel"),
                              ("JBessel", dict(dim=2, nu=1.0, len_scale=2.0), "integral-scale:JBessel"),
                              ("Matern", dict(dim=2, nu=25.0, len_scale=2.0), "integral-scale:Matern-nu>20")):
            m = getattr(gs, name)(**kw)
            rep = float(m.integral_scale)
            truth = float(exact_integral_scale(name, m, None))
            ev += 1
            if abs(rep - truth) > 1e-6 * truth:
                viol.append({"key": key, "what": "integral_scale is not the integral of the correlation over all lags",
                             "case": {"cls": name, "dim": kw["dim"], "kw": {k: v for k, v in kw.items() if k != "dim"},
                                      "reported": rep, "integral_of_correlation": truth}})
        # K1: cor ignores len_low
        for name, kw in (("TPLGaussian", dict(dim=2, len_scale=3.0, len_low=2.0, hurst=0.4)),
                         ("TPLExponential", dict(dim=2, len_scale=3.0, len_low=2.0, hurst=0.4)),
                         ("TPLStable", dict(dim=2, len_scale=3.0, len_low=2.0, hurst=0.4, alpha=1.5))):
            m = getattr(gs, name)(**kw)
            r = np.array([1.0, 3.0])
            a, b = m.correlation(r), m.cor(r / m.len_rescaled)
            ev += 1
            if np.max(np.abs(a - b)) > 1e-12:
                viol.append({"key": "identity:cor-vs-correlation:TPL-len_low>0", "what": "correlation(r) != cor(rescale * r / len_scale)",
                             "case": {"cls": name, "dim": 2, "kw": {k: v for k, v in kw.items() if k != "dim"}, "lag": 1.0,
                                      "got": float(a[0]), "want": float(b[0])}})
        # N1 / N2: correlation collapses (0 / nan) at small positive lags
        for name, kw, lag, key in (("JBessel", dict(dim=3, nu=45.0, len_scale=1.0), 1e-6, "closed-form:JBessel:underflow-small-h"),
                                   ("JBessel", dict(dim=3, nu=45.0, len_scale=1.0), 1e-7, "closed-form:JBessel:underflow-small-h"),
                                   ("Integral", dict(dim=2, nu=49.5, len_scale=1.0), 1e-7, "small-lag-breakdown:Integral")):
            m = getattr(gs, name)(**kw)
            c = float(m.correlation(np.array([lag]))[0])
            ev += 1
            if not c > 0.999999:
                viol.append({"key": key, "what": f"correlation({lag}) = {c} (documented formula: 1 - O(1e-12))",
                             "case": {"cls": name, "dim": kw["dim"], "kw": {k: v for k, v in kw.items() if k != "dim"}, "lag": lag, "got": c}})
        # N3: two isclose windows of the TPL models
        for name, kw in (("TPLGaussian", dict(dim=1, hurst=0.15, len_low=0.1, len_scale=0.4)),
                         ("TPLExponential", dict(dim=1, hurst=0.15, len_low=0.1, len_scale=0.4)),
                         ("TPLStable", dict(dim=1, hurst=0.15, alpha=1.5, len_low=0.1, len_scale=0.4))):
            m = getattr(gs, name)(**kw)
            c = np.asarray(m.correlation(np.array([2e-9, 4e-9])), float)
            ev += 1
            if np.max(np.abs(c)) > 1 + 1e-9:
                viol.append({"key": f"correlation-exceeds-one:{name}", "what": f"correlation([2e-9, 4e-9]) = {c.tolist()} > 1",
                             "case": {"cls": name, "dim": 1, "kw": {k: v for k, v in kw.items() if k != "dim"}, "lag": 4e-9, "got": float(c[1])}})
        # K3: percentile_scale
        for name, kw, per in (("TPLSimple", dict(dim=3, len_scale=10.0, nu=50.0), 0.5), ("JBessel", dict(dim=3, len_scale=10.0, nu=5.0), 0.9),
                              ("TPLSimple", dict(dim=3, len_scale=10.0, nu=5.0), 0.9)):
            m = getattr(gs, name)(**kw)
            x = float(m.percentile_scale(per))
            g = float(m.variogram(np.array([x]))[0])
            ev += 1
            case = {"cls": name, "dim": 3, "kw": {k: v for k, v in kw.items() if k != "dim"}, "per": per, "scale": x, "variogram": g,
                    "want": per}
            if abs(g - per) > 1e-6:
                viol.append({"key": "percentile-scale:unconverged-root", "case": case,
                             "what": "variogram(percentile_scale(per)) != nugget + per * var (scipy root did not converge)"})
            elif x < 0:
                viol.append({"key": "percentile-scale:negative-root", "case": case, "what": "percentile_scale(per) is a negative lag"})
    return ev


def search(ctx, deep=False):
    rng = np.random.RandomState(ctx.seed + 3003)
    viol = []
    mult = 3 if deep else 1
    ev = directed(ctx, viol)
    ev += search_identities(ctx, rng, ctx.scale(4, 40) * mult, viol)
    ev += search_user_routes(ctx, rng, ctx.scale(10, 100) * mult, viol)
    e2, worst = search_closed_forms(ctx, rng, ctx.scale(3, 40) * mult, viol)
    ev += e2
    ev += search_integral_scale(ctx, rng, ctx.scale(2, 12) * mult, viol)
    ev += search_percentile(ctx, rng, ctx.scale(2, 20) * mult, viol)
    out, seen = dedup(viol)
    return {"evaluations": ev, "violations": out,
            "summary": "identities, nugget/axis/yadrenko/spatial variants and user routes on the real API for all 17 classes over their "
                       "bounds; closed forms vs mpmath (30 digits); integral_scale vs exact integral (closed form / mpmath quad) and "
                       "setter; percentile_scale substituted back.  violation counts per key: " + str(seen)
                       + "; integral_scale= refused with ValueError for TPL models with len_low > 0: " + str(REFUSED)
                       + "; worst closed-form error (units of tolerance): "
                       + str({k: round(v, 3) for k, v in worst.items()})}


def replay(ctx, payload):
    """re-run the recorded failing inputs against the current tree"""
    bad = 0
    for v in payload.get("violations", []):
        c = v.get("case", {})
        key = v.get("key", "")
        if "cls" not in c or c["cls"] not in ALL_CLASSES:
            continue
        kw = {k: val for k, val in c.get("kw", {}).items() if val is not None}
        m = make(c["cls"], c.get("dim", 1), {}, kw)
        if key.startswith("integral-scale:"):
            import mpmath as mp
            rep = float(m.integral_scale)
            truth = float(exact_integral_scale(c["cls"], m, mp_reference(c["cls"], m)))
            print(f"replay {key}: reported={rep!r} integral_of_correlation={truth!r}")
            bad += abs(rep - truth) > 1e-6 * abs(truth)
        elif key.startswith("identity:cor-vs-correlation") and "lag" in c:
            r = np.array([c["lag"]])
            a, b = float(m.correlation(r)[0]), float(m.cor(np.abs(r) / m.len_rescaled)[0])
            print(f"replay {key}: correlation(r)={a!r} cor(r/len_rescaled)={b!r}")
            bad += abs(a - b) > 1e-12
        elif "lag" in c:
            import mpmath as mp
            mp.mp.dps = 30
            a = float(m.correlation(np.array([c["lag"]]))[0])
            b = float(mp_reference(c["cls"], m)(mp.mpf(abs(c["lag"]))))
            print(f"replay {key}: correlation={a!r} documented={b!r}")
            bad += abs(a - b) > 1e-9 * abs(b) + 1e-13
    print("VIOLATION reproduced" if bad else "not reproduced")
    return 1 if bad else 0
