"""C05 — kriging estimates and variances solve the kriging equations."""
import warnings
import numpy as np
from scipy.spatial.distance import cdist
import krige_cases as kc
import gridtie
from proto import fbits, unbits, run_driver

KERNEL_FILES = ["krige/krigesum.pyx"]
ASSUMPTIONS = ["scipy's inv/pinv/pinvh return a two-sided inverse of the assembled matrix (hypothesis of the theorems); rounding is not modelled",
               "covariance values are taken from the real model and handed to the Lean side bit-for-bit; the assembly, right-hand sides, chunk loop, kernel and clipping are compared for equality",
               "lags are the Euclidean distances of the model's isometrised positions (C12/C13 cover isometrize); the plain covariance of a lag is model.covariance (C03); "
               "which lags get the sill (exact mode) and where the error term goes is decided by the Lean model / the independent solve, not read from the object",
               "data preparation / post-processing: the Lean side evaluates the normaliser with the model of C18 (libm vs numpy: compared within 1e-12 relative); "
               "the order of the steps is additionally compared bit-for-bit with the real normaliser's values of the detrended data",
               "histories: a freshly constructed object is built from the model parameters read back through public attributes (C14 covers the setters); "
               "after fit_variogram / fit_normalizer it is given a copy of the fitted model / the fitted normaliser parameters and does not fit "
               "(what the fits return is C10 / C18; here only that kriging uses the fitted state consistently)",
               "target positions are abstract identifiers in the protocol model: two position sets handed over in different operations are different "
               "identifiers however close their coordinates are; the harness generates such sets (relative changes 1e-12..1e-2, magnitudes 1e-3..6e7)",
               "the reference normaliser formulas take the limit form inside the code's np.isclose band of exponent 0 (2 for Yeo-Johnson): only fitted "
               "exponents fall strictly inside it (the predicate itself is modelled in C18)"]


def layout(kr):
    return dict(n=int(kr.cond_no), unb=bool(kr.unbiased), nf=int(kr.int_drift_no), ne=int(kr.ext_drift_no))


def model_inputs(kr):
    n = kr.cond_no
    C = kr.model.covariance(cdist(kr._krige_pos.T, kr._krige_pos.T))
    err = np.broadcast_to(np.asarray(kr.cond_err, dtype=float), (n,)).copy()
    F = np.array([np.broadcast_to(f(*kr.cond_pos), (n,)) for f in kr.drift_functions], dtype=float).reshape(kr.int_drift_no, n)
    E = np.asarray(kr.cond_ext_drift, dtype=float).reshape(kr.ext_drift_no, n)
    return C, err, F, E


def err_spec(cfg, n):
    """the error setting of the CONFIGURATION for the Lean model: (kind, values)"""
    ce = cfg["cond_err"]
    if isinstance(ce, str):
        return "nugget", np.zeros(0)
    if isinstance(ce, np.ndarray):
        return "array", np.asarray(ce, dtype=float).reshape(n)
    return "scalar", np.array([float(ce)])


def lag_tag(lag):
    """classes of conditioning-point-to-target lags present: zero / band (0 < r <= 1e-8) / near (<= 1e-5)"""
    lag = np.asarray(lag)
    c = [k for k, msk in (("zero", lag == 0), ("band", (lag > 0) & (lag <= kc.BAND)), ("near", (lag > kc.BAND) & (lag <= 1e-5))) if msk.any()]
    return "tlag:" + ("+".join(c) if c else "far")


def lam_eff(spec):
    """smallest |exponent| the normaliser divides by (1 for parameter-free maps / log branches)"""
    if spec is None or spec["kind"] == "LogNormal":
        return 1.0
    v = [abs(spec["lmbda"])] if spec["lmbda"] != 0 else []
    if spec["kind"] == "YeoJohnson" and spec["lmbda"] != 2:
        v.append(abs(2 - spec["lmbda"]))
    return min(v + [1.0])


def close_libm(spec, a, b):
    """model (libm) vs implementation (numpy) values of a normaliser pipeline: same NaN mask, 1e-12 relative"""
    a, b = np.asarray(a, dtype=float).ravel(), np.asarray(b, dtype=float).ravel()
    if a.shape != b.shape or not np.array_equal(np.isnan(a), np.isnan(b)):
        return False
    ok = ~np.isnan(a) & (a != b)        # identical values (also identical infinities of overflowing ill-conditioned systems) agree
    with np.errstate(all="ignore"):
        return bool(np.all(np.abs(a[ok] - b[ok]) <= 1e-12 * (1 + np.abs(a[ok]) + np.abs(b[ok])) * (1 + 1 / lam_eff(spec))))


def drift_slack(kr, cpos, f):
    """(nf, m) admissible deviation of the functional-drift rows: the target coordinates the drift functions see come out of
    anisometrize(isometrize(pos)), whose last bits depend on how the products are blocked (whole array / per chunk / BLAS kernel);
    8 ulp of every coordinate carried through the functions in both directions, plus 1e-12 of the row scale"""
    m = f.shape[1]
    d = 8 * np.spacing(np.abs(cpos))
    with np.errstate(all="ignore"):
        fp = np.array([np.broadcast_to(fn(*(cpos + d)), (m,)) for fn in kr.drift_functions], dtype=float)
        fm = np.array([np.broadcast_to(fn(*(cpos - d)), (m,)) for fn in kr.drift_functions], dtype=float)
    dev = np.maximum(np.abs(fp - f), np.abs(fm - f))
    dev = np.where(np.isfinite(dev), dev, 0.0)
    return 4 * dev + 1e-12 * np.abs(f).max(axis=1, keepdims=True, initial=0.0)


def correspondence(ctx, on_data=False):
    with warnings.catch_warnings():   # out-of-range / dimension warnings of generated inputs are expected
        warnings.simplefilter("ignore")
        return _correspondence(ctx, on_data)


def _correspondence(ctx, on_data=False):
    rng = np.random.RandomState(ctx.seed + (606 if on_data else 505))
    N = ctx.scale(160, 900)
    ops, meta = [], []
    dist = {}
    samples = []
    for t in range(N):
        cfg = kc.gen_config(rng, strat=t)
        if on_data:   # C06: targets on (a shuffled subset of) the conditioning points, plus one free point
            k = cfg["cond_pos"].shape[1]
            sel = rng.permutation(k)[: max(1, k // 2)]
            if cfg["ext"] is not None:
                cfg["pos"] = cfg["cond_pos"][:, sel].copy()
                cfg["ext"] = (cfg["ext"][0], cfg["ext"][0][:, sel].copy())
            else:
                cfg["pos"] = np.hstack([cfg["cond_pos"][:, sel], cfg["pos"][:, :1]])
            if rng.rand() < 0.25:     # ... some of them only NEARLY on the data (lags inside / outside the isclose band of lag 0)
                for q in range(len(sel)):
                    if rng.rand() < 0.5:
                        cfg["pos"][:, q] += kc.near_offset(rng, cfg["fdim"], cfg["latlon"])
            cfg["chunk"] = None if rng.rand() < 0.5 else int(rng.randint(1, 4))
        cap, store = [], []
        try:
            with warnings.catch_warnings():
                warnings.simplefilter("ignore")
                # every eighth (Cartesian) case uses a model whose variance is NOT its raw intensity (TPL family with var_factor != 1,
                # user-defined var_factor): the sill the Lean side is given is the REPORTED variance + nugget
                vfm = None
                if t % 8 == 5 and not cfg["latlon"]:
                    vfm = kc.varfactor_model(np.random.RandomState(ctx.seed + 50500 + t), cfg, nugget=cfg.get("nugget"))[0]
                    dist["model:var_factor!=1"] = dist.get("model:var_factor!=1", 0) + 1
                kr = kc.build(cfg, capture=cap, model=vfm)
                with kc.capture_kernel(store):
                    only_mean = bool(rng.rand() < 0.1)
                    ret_var = bool(rng.rand() < 0.8)
                    out = kc.call(kr, cfg, post_process=False, only_mean=only_mean, return_var=ret_var, store=False)
                out_post = kc.call(kr, cfg, post_process=True, only_mean=only_mean, return_var=ret_var, store=False)
        except Exception as e:   # configuration the API rejects: not a correspondence case
            dist["rejected:" + type(e).__name__] = dist.get("rejected:" + type(e).__name__, 0) + 1
            continue
        L = layout(kr)
        key = f"{cfg['variant']}/unb={L['unb']}/nf={L['nf']}/ne={L['ne']}/exact={cfg['exact']}/chunk={'all' if cfg['chunk'] is None else 'k'}"
        dist[key] = dist.get(key, 0) + 1
        mkey = kc.mnt_tag(cfg)
        dist["mnt:" + mkey] = dist.get("mnt:" + mkey, 0) + 1
        C, err, F, E = model_inputs(kr)
        size = kr.krige_size
        # 1. matrix assembly
        ops.append(dict(op="krige_assemble", **L, C=fbits(C), err=fbits(err), F=fbits(F), E=fbits(E)))
        meta.append(("K", cap[-1], cfg, key))
        # 1a. the matrix from the CONFIGURATION: lags of the isometrised conditioning points -> the model's PLAIN covariance
        #     at every lag (also lag 0 between coincident points); error kind and values from the configuration, the nugget
        #     from the model: the Lean model puts the error term on the diagonal only (assembleKCfg)
        mdl = kr.model
        ctag = kc.coin_tag(cfg, mdl)
        dist[ctag] = dist.get(ctag, 0) + 1
        ek, ev = err_spec(cfg, L["n"])
        ops.append(dict(op="krige_assemble_cfg", **L, cv=fbits(mdl.covariance(kc.iso_dists(mdl, cfg["cond_pos"]))), errkind=ek,
                        errv=fbits(ev), nugget=fbits([float(mdl.nugget)])[0], F=fbits(F), E=fbits(E)))
        meta.append(("KCFG", cap[-1], cfg, cfg["variant"] + "|" + ctag + f"|pinv={cfg['pinv']}"))
        # 1b. post-processing of the raw field: trend + denormalize(mean + raw) on the model side (every call path)
        sc = kc.pos_scale(cfg)
        raw = np.ravel(out[0] if isinstance(out, tuple) else out)
        fpost = np.ravel(out_post[0] if isinstance(out_post, tuple) else out_post)
        ops.append(dict(op="krige_post", raw=fbits(raw), mean=fbits(kc.eval_spec(cfg["mean"], cfg["pos"], sc)),
                        trend=fbits(kc.eval_spec(cfg["trend"], cfg["pos"], sc)), **kc.norm_par(cfg["norm"])))
        var_same = (not isinstance(out, tuple)) or np.array_equal(out[1], out_post[1])
        meta.append(("POST", (fpost, var_same), cfg, "post/" + mkey))
        # 1c. get_mean(post_process=False) = cond . M . e_n (model getMeanUnb; theorem get_mean_eq_only_mean) and the
        #     only_mean field of the call (constant-mean shortcut) on ordinary systems without drifts
        if kr.unbiased and kr.drift_no == 0:
            gm = kr.get_mean(post_process=False)
            tr0 = kc.eval_spec(cfg["trend"], cfg["cond_pos"], sc)
            nz0 = kc.make_normalizer(cfg["norm"])
            with warnings.catch_warnings():
                warnings.simplefilter("ignore")
                vn0 = (cfg["cond_val"] - tr0) if nz0 is None else np.asarray(nz0.normalize(cfg["cond_val"] - tr0), dtype=float)
            ops.append(dict(op="krige_mean", **L, M=fbits(kr._krige_mat), valn=fbits(vn0),
                            mean=fbits(kc.eval_spec(cfg["mean"], cfg["cond_pos"], sc))))
            meta.append(("MEAN", (gm, raw if only_mean else None, np.abs(kr._krige_cond) @ np.abs(kr._krige_mat[:, kr.cond_no])),
                         cfg, "get_mean/" + cfg["variant"]))
        if only_mean and kr.drift_no == 0:
            continue   # constant-mean shortcut: no kernel call
        # 2. right-hand sides
        iso_pos, shape = kr.pre_pos(cfg["pos"], "unstructured")
        m = iso_pos.shape[1]
        cf = kr.model.cov_nugget if kr.exact else kr.model.covariance
        c = cf(cdist(kr._krige_pos.T, iso_pos.T))
        if kr.int_drift_no > 0:
            cpos = kr.model.anisometrize(iso_pos)
            f = np.array([np.broadcast_to(fn(*cpos), (m,)) for fn in kr.drift_functions], dtype=float)
        else:
            f = np.zeros((0, m))
        e = np.asarray(cfg["ext"][1], dtype=float).reshape(kr.ext_drift_no, m) if kr.ext_drift_no else np.zeros((0, m))
        ops.append(dict(op="krige_rhs", **L, m=m, only_mean=only_mean, c=fbits(c), f=fbits(f), e=fbits(e)))
        rhs_real = np.hstack([s[2] for s in store]) if store else np.zeros((size, 0))
        fslack = drift_slack(kr, cpos, f) if kr.int_drift_no > 0 else np.zeros((0, m))
        meta.append(("RHS", (rhs_real, fslack), cfg, key))
        # 2a. right-hand sides from LAGS: the Lean model decides between the plain and the nugget-aware covariance (exact
        #     flag of the configuration; sill inside the isclose band of lag 0) from the lags and the plain covariances
        lag = cdist(kr._krige_pos.T, iso_pos.T)
        ttag = lag_tag(lag)
        dist[ttag + f"/exact={cfg['exact']}"] = dist.get(ttag + f"/exact={cfg['exact']}", 0) + 1
        ops.append(dict(op="krige_rhs_lag", **L, m=m, only_mean=only_mean, exact=bool(cfg["exact"]),
                        sill=fbits([float(mdl.var) + float(mdl.nugget)])[0], d=fbits(lag), cv=fbits(mdl.covariance(lag)),
                        f=fbits(f), e=fbits(e)))
        meta.append(("RHSLAG", (rhs_real, fslack), cfg, f"exact={cfg['exact']}|{ttag}|nugget{'>0' if mdl.nugget > 0 else '=0'}"))
        # 3. data preparation from the RAW ingredients of the configuration (values, trend and mean evaluated by the
        #    harness at the conditioning points, normaliser kind + parameters): model of `_krige_cond` end to end
        trend_c = kc.eval_spec(cfg["trend"], cfg["cond_pos"], sc)
        mean_c = kc.eval_spec(cfg["mean"], cfg["cond_pos"], sc)
        cond_real = store[0][3] if store else None
        ops.append(dict(op="krige_prep", **L, val=fbits(cfg["cond_val"]), trend=fbits(trend_c), mean=fbits(mean_c),
                        **kc.norm_par(cfg["norm"])))
        meta.append(("PREP", cond_real, cfg, "prep/" + mkey))
        # 4. chunk loop + kernel + clipping, with the real inverse matrix; the conditions are formed by the model from
        #    the real normaliser's values of the detrended data (bit-exact tie of the ORDER detrend-normalise-demean)
        nz = kc.make_normalizer(cfg["norm"])
        dtr = cfg["cond_val"] - trend_c
        with warnings.catch_warnings():
            warnings.simplefilter("ignore")
            valn = dtr.copy() if nz is None else np.asarray(nz.normalize(dtr), dtype=float)
        cs = m if cfg["chunk"] is None else cfg["chunk"]
        ops.append(dict(op="krige_call", **L, pnt=m, cs=int(cs), M=fbits(kr._krige_mat), rhs=fbits(rhs_real),
                        valn=fbits(valn), mean=fbits(mean_c), sill=fbits([float(kr.model.var) + float(kr.model.nugget)])[0]))
        meta.append(("CALL", (out, ret_var and not only_mean, cond_real), cfg, key))
        if len(samples) < 4:
            samples.append({"variant": cfg["variant"], "layout": L, "targets": m, "chunk": cfg["chunk"], "exact": cfg["exact"],
                            "model": repr(kr.model), "mnt": mkey})
    res = run_driver(ops)
    dis, distinct = [], set()
    for o, (kind, real, cfg, key), r in zip(ops, meta, res):
        if isinstance(r, dict) and "error" in r:
            dis.append({"what": "driver error " + r["error"], "kind": kind})
            continue
        if kind in ("K", "KCFG"):
            lean = np.array([unbits(x) for x in r]).reshape(real.shape)
            ok = np.array_equal(lean, real)
        elif kind in ("RHS", "RHSLAG"):
            real, fslack = real
            lean = np.array([unbits(x) for x in r]).reshape(real.shape) if real.size else real
            # covariance rows, the unbiasedness row and the external-drift rows bit-for-bit; the functional-drift rows (user / polynomial
            # functions of back-transformed target coordinates: the harness evaluates them on its own copy of anisometrize(isometrize(pos)))
            # within the last-bit slack of those coordinates carried through the functions (+ 1e-12 of the row scale)
            lo, hi = real.shape[0] - o["nf"] - o["ne"], real.shape[0] - o["ne"]
            rest = np.r_[0:lo, hi:real.shape[0]]
            ok = lean.shape == real.shape and np.array_equal(lean[rest], real[rest]) and \
                bool(np.all(np.abs(lean[lo:hi] - real[lo:hi]) <= fslack[:, : real.shape[1]]))
        elif kind == "PREP":
            lean = unbits(r)
            ok = real is None or close_libm(cfg["norm"], lean, real)
            real = lean if real is None else real
        elif kind == "POST":
            lean = unbits(r)
            ok = close_libm(cfg["norm"], lean, real[0]) and real[1]
            real = real[0]
        elif kind == "MEAN":
            gm, om_field, mag = real
            lean = unbits([r])[0]
            # einsum's summation order is not the model's: compare within rounding of the sum of magnitudes
            ok = gm is not None and (abs(lean - gm) <= 1e-12 * (1 + mag) or (np.isnan(lean) and np.isnan(gm)))
            # the only_mean call returns get_mean at every target, bit-for-bit (the shortcut)
            ok = ok and (om_field is None or np.array_equal(om_field, np.full_like(om_field, gm), equal_nan=True))
            real = [gm]
            lean = [lean]
        else:
            out, has_var, cond_real = real
            f, v, f2, cond = (unbits(x) for x in r)
            if has_var:
                ok = np.array_equal(f, np.ravel(out[0]), equal_nan=True) and np.array_equal(v, np.ravel(out[1]), equal_nan=True)
            else:
                ok = np.array_equal(f2, np.ravel(out), equal_nan=True)
            ok = ok and (cond_real is None or np.array_equal(cond, cond_real, equal_nan=True))
            lean = [f.tolist(), v.tolist()]
        distinct.add((kind, key))
        if not ok:
            what = {"PREP": "kriging PREP: prepared conditions normalize(cond_val - trend) - mean differ from the model",
                    "POST": "kriging POST: post-processed field differs from trend + denormalize(mean + raw) of the model",
                    "MEAN": "kriging MEAN: get_mean(post_process=False) differs from the model's cond . M . e_n (or the only_mean field is not get_mean)",
                    "KCFG": "kriging K: assembled matrix differs from the model's matrix of the configuration (plain covariance of every lag, "
                            "measurement error / nugget on the diagonal only)",
                    "RHSLAG": "kriging RHS: right-hand sides differ from the model's (plain covariance; in exact mode the sill at lags inside "
                              "the isclose band of 0)"}.get(
                        kind, f"kriging {kind}: model differs from implementation")
            dis.append({"what": what, "variant": cfg["variant"], "key": key,
                        "real": np.asarray(real[0] if kind == "CALL" else real, dtype=float).tolist() if kind != "CALL" else [np.asarray(x).tolist() for x in np.atleast_1d(real[0])],
                        "model": np.asarray(lean, dtype=float).tolist() if kind != "CALL" else lean,
                        "cfg": kc.describe(cfg)})
    hist = history_correspondence(ctx, rng, on_data)
    dis += hist["disagreements"]
    distinct |= hist["distinct"]
    for k, v in hist["distribution"].items():
        dist[k] = dist.get(k, 0) + v
    # generate_grid / C-order reshape vs Model/Grid.lean (structured_eq_unstructured), exact
    grid = gridtie.grid_correspondence(ctx)
    dis = grid["disagreements"][:4] + dis
    distinct |= {("GRID", i) for i in range(grid["distinct"])}
    dist["grid:evaluations"] = grid["evaluations"]
    return {"evaluations": len(ops) + hist["evaluations"] + grid["evaluations"], "distinct_nontrivial": len(distinct),
            "rule": "random kriging problems (5 variants + the generic Krige class, dim 1-3, lat-lon, time, polynomial and user drifts, "
                    "external drifts, measurement errors, exact flag, chunk sizes, identity and six non-identity normalizers combined with "
                    "constant / callable means and trends); the assembled matrix (captured through a callable pseudo_inv_type), the "
                    "right-hand sides and conditions (captured at the kernel entry) and the returned field/variance are compared "
                    "bit-for-bit with the Lean model; the prepared conditions and the post-processed field are recomputed by the "
                    "model from raw values / trend / mean / normaliser parameters (1e-12 relative); histories of model edits, "
                    "mean/normalizer/trend re-assignments, set_condition forms (with fit_variogram / fit_normalizer, also in the constructor) and "
                    "calls on one object — targets new / nearly equal to the previous ones (relative changes 1e-12..1e-2, coordinate magnitudes "
                    "1e-3..6e7) / repeated / not passed (reuse) / set by set_pos / the same tuple under the other mesh type / the grid of the "
                    "stored axes, through __call__, structured(), unstructured() — are compared with freshly constructed objects that are given "
                    "the targets the Lean protocol model names, wherever the model says the two coincide (bit-for-bit); the model's refusals must "
                    "be ValueErrors and the public pos / mesh_type the positions the model stores; every second case is stratified over "
                    "variant x exact flag x nugget > 0, a third lives in an affine coordinate frame, a quarter has targets on data; get_mean(post_process=False) "
                    "vs the model's cond.M.e_n (1e-12 of the sum of magnitudes; einsum order) and only_mean field == get_mean (exact); "
                    "generate_grid + C-order index decoding vs Model/Grid.lean (exact, gridtie); "
                    "every fourth case (and a sixth of the free ones) has 1-3 groups of coincident / nearly coincident conditioning points (lag 0, inside, "
                    "outside the isclose band |r| <= 1e-8 of the isometrised lags) x nugget {0, > 0} x error kind {model nugget, scalar, per-point} x exact "
                    "x pseudo_inv on/off, mostly with targets on / nearly on conditioning points: the captured matrix is additionally compared (bit-for-bit) "
                    "with the model's matrix of the CONFIGURATION (assembleKCfg: plain covariance of every lag, error kind resolved by the model, error on the "
                    "diagonal only) and the captured right-hand sides with the model's lag-based ones (assembleRHSLag: the model decides plain / nugget-aware "
                    "covariance from the exact flag and the lags); "
                    "distinct = distinct (stage, variant/layout/options | normalizer/mean/trend kinds | history op pattern | target kind x mesh type x framed | coincidence class x error kind x nugget x exact x pinv | target-lag class)",
            "samples": samples, "disagreements": dis[:8], "distribution": dist}


def same_result(r1, r2):
    """bit-for-bit equality of two History.call results"""
    if r1[0] != r2[0]:
        return False
    if r1[0] == "error":
        return r1[1] == r2[1]
    return (np.array_equal(r1[1], r2[1], equal_nan=True)
            and ((r1[2] is None and r2[2] is None) or (r1[2] is not None and r2[2] is not None and np.array_equal(r1[2], r2[2], equal_nan=True))))


def call_desc(ev):
    """JSON-friendly description of one call of a history"""
    f = lambda v: v.tolist() if isinstance(v, np.ndarray) else ([np.asarray(a).tolist() for a in v] if isinstance(v, list) else v)
    d = {k: f(v) for k, v in ev["kw"].items()}
    d.update(kind=ev["kind"], pos=f(ev["tp"]), mesh_type="structured" if ev["mesh"] else "unstructured", via_method=ev["via"],
             requested_targets=None if ev["flat"] is None else ev["flat"].tolist())
    return d


def history_correspondence(ctx, rng, on_data=False):
    """the refresh protocol and the target positions: histories on one real Krige object vs the Lean protocol model
    (`krige_history`).  Where the model says a call combines exactly what a fresh object combines AT THE TARGETS THE
    MODEL NAMES, the real result must be bit-identical to that of a freshly constructed real object (same model
    parameters, current conditions) that is given those targets; the model's refusals (no positions / positions of the
    other mesh type) must be ValueErrors; the public `pos`/`mesh_type` must be the positions the model stores."""
    H = ctx.scale(50, 400)
    ops, real, dis, dist, distinct = [], [], [], {}, set()
    for t in range(H):
        cfg = kc.gen_config(rng, strat=t)
        calls = []
        zero = str(rng.choice(["exact", "zero-err", "no-nugget"])) if on_data else None
        if zero:
            cfg = zero_cfg(cfg, zero)
        try:
            for ev in kc.run_history(rng, cfg, segments=int(rng.randint(2, 5)), zero_mode=zero):
                h = ev["hist"]
                fr, _ = h.fresh() if ev["synced"] else (None, None)
                ev["r2"] = h.call_fresh(ev, fr) if fr is not None else None
                ev["log"] = list(h.log)
                calls.append(ev)
        except Exception as e:   # a configuration / operation the API rejects
            k = "history-rejected:" + type(e).__name__
            dist[k] = dist.get(k, 0) + 1
            continue
        ops.append(dict(op="krige_history", **h.init_ids, ops=h.ops))
        real.append((cfg, h, calls))
    res = run_driver(ops)
    n = 0
    for (cfg, h, calls), r in zip(real, res):
        if isinstance(r, dict) and "error" in r:
            dis.append({"what": "driver error " + r["error"], "kind": "HISTORY"})
            continue
        if len(r) != len(calls):
            dis.append({"what": "kriging HISTORY: number of calls differs between model and harness", "log": h.log})
            continue
        for ev, mo in zip(calls, r):
            n += 1
            r1, r2, synced, log = ev["res"], ev["r2"], ev["synced"], ev["log"]
            last = [l for l in log if not l.startswith("call")][-2:]
            pat = "history:" + cfg["variant"] + ":" + ">".join(last) + (":fresh" if mo["eq_fresh"] else ":stale")
            dist[pat] = dist.get(pat, 0) + 1
            distinct.add(("HISTORY", pat))
            tk = "targets:" + ev["kind"] + (":structured" if ev["mesh"] else ":unstructured") + (":framed" if cfg.get("frame") else "")
            dist[tk] = dist.get(tk, 0) + 1
            distinct.add(("TARGETS", tk))
            base = {"variant": cfg["variant"], "log": log, "model": mo, "call": call_desc(ev), "cfg": kc.describe(h.cur)}
            # -- target positions: refusals, identifiers, public attributes
            given_m = None if mo["given"] is None else mo["given"][0]
            stored_m = None if mo["stored"] is None else (mo["stored"][0], bool(mo["stored"][1]))
            want_stored = None if ev["given"] is None else (ev["given"], bool(h.pos_ids[ev["given"]][1]))
            if given_m != ev["given"] or stored_m != want_stored:
                dis.append(dict(base, what="kriging TARGETS: harness and protocol model disagree about the positions last given / stored"))
                continue
            if not ev["stored_ok"]:
                dis.append(dict(base, what="kriging TARGETS: the public pos / mesh_type of the object are not the positions the model stores "
                                           "(the ones last given by a call or set_pos)"))
                continue
            if bool(mo["error"]) != (r1[0] == "error") or (r1[0] == "error" and r1[1] != "ValueError"):
                dis.append(dict(base, what="kriging TARGETS: the model refuses the call (no positions to reuse) where the implementation answers, "
                                           "or the other way round", real=list(r1[:2]) if r1[0] == "error" else "ok"))
                continue
            if mo["error"]:
                continue
            tgt_m = (mo["res"][9], bool(mo["res"][10]))
            if ev["req"] is None or tgt_m != (ev["req"], bool(h.pos_ids[ev["req"]][1])):
                dis.append(dict(base, what="kriging TARGETS: harness and protocol model disagree about the targets the call evaluates"))
                continue
            if bool(mo["eq_fresh"]) != bool(synced):
                dis.append(dict(base, what="kriging HISTORY: harness and protocol model disagree about the state"))
                continue
            if not mo["eq_fresh"] or r2 is None:
                continue
            if not same_result(r1, r2):
                dis.append(dict(base, what="kriging HISTORY: call on an object with a history differs from a freshly constructed object given the "
                                           "targets the protocol model names, although the model says they coincide",
                                real=[None if x is None else np.asarray(x).tolist() for x in r1[1:]] if r1[0] == "ok" else list(r1),
                                fresh=[None if x is None else np.asarray(x).tolist() for x in r2[1:]] if r2[0] == "ok" else list(r2)))
    return dict(evaluations=n, disagreements=dis[:4], distribution=dist, distinct=distinct)


def zero_cfg(cfg, mode):
    """C06: force zero measurement error (exact mode / explicit zero error / nugget-free model)"""
    cfg = dict(cfg)
    if mode == "exact":
        cfg.update(exact=True, cond_err="nugget")
    elif mode == "zero-err":
        cfg.update(exact=False, cond_err=0.0)
    else:
        cfg.update(exact=False, cond_err="nugget")
    return cfg


# ------------------------------------------------------------------ search on the real API
def direct_solve(kr, cfg, pos, ext_t=None, only_mean=False):
    """independent kriging: solve the system with numpy for each target.  Only the covariance model is taken from
    the object; the variant, drifts, errors and the data preparation come from the configuration (kc.solve_direct)"""
    r = kc.solve_direct(cfg, kr.model, pos, ext_t=ext_t, only_mean=only_mean)
    return r["raw"], r["var"], r["cond"]


def post_tol(cfg, raw, pos, tol):
    """tolerance of the post-processed field implied by `tol` on the raw field (local Lipschitz bound of denormalize)"""
    a = kc.ref_post(cfg, raw, pos)
    with np.errstate(all="ignore"):
        d = np.maximum(np.abs(kc.ref_post(cfg, raw + tol, pos) - a), np.abs(kc.ref_post(cfg, raw - tol, pos) - a))
    d = np.where(np.isfinite(d), d, 0.0)
    return 2 * d + 1e-10 * (1 + np.abs(np.where(np.isfinite(a), a, 0.0)))


def data_tol(cfg, cond, sel=None):
    """tolerance in data space for reproducing the conditioning values: 1e-7 relative (scaled by the condition number
    beyond 1e3) times the local slope of denormalize at the normalised data"""
    cv = np.asarray(cfg["cond_val"], dtype=float)
    sc = kc.pos_scale(cfg)
    y = kc.ref_normalize(cfg.get("norm"), cv - kc.eval_spec(cfg.get("trend"), cfg["cond_pos"], sc))
    with np.errstate(all="ignore"):
        slope = np.abs(kc.ref_denormalize(cfg.get("norm"), y + 1e-6) - kc.ref_denormalize(cfg.get("norm"), y - 1e-6)) / 2e-6
    slope = np.where(np.isfinite(slope), np.maximum(slope, 1.0), 1.0)
    scale = 1 + np.abs(cv).max() + np.abs(y[np.isfinite(y)]).max(initial=0.0)
    t = 1e-7 * scale * max(1.0, cond / 1e3) * slope
    return t if sel is None else t[sel]


def close_nan(a, b, atol):
    a, b = np.asarray(a, dtype=float), np.asarray(b, dtype=float)
    if a.shape != b.shape or not np.array_equal(np.isnan(a), np.isnan(b)):
        return False
    ok = ~np.isnan(a)
    return bool(np.all(np.abs(a - b)[ok] <= np.broadcast_to(atol, a.shape)[ok]))


def probe_d16():
    """corpus: lat-lon universal kriging with longitudes beyond 180 degrees (finding D16)"""
    import gstools as gs
    rng = np.random.RandomState(16)
    lat = rng.uniform(-30, 30, 10)
    lon = rng.uniform(151, 196, 10)
    val = 0.1 * lon + rng.randn(10) * 0.1
    model = gs.Gaussian(latlon=True, len_scale=500, geo_scale=gs.KM_SCALE)
    with warnings.catch_warnings():
        warnings.simplefilter("ignore")
        uk = gs.krige.Universal(model, (lat, lon), val, "linear")
        f, v = uk((lat, lon))
    err = float(np.max(np.abs(f - val)))
    if err > 1e-6:
        return [{"key": "krige:latlon-drift-wrapped-longitude",
                 "what": f"Universal lat-lon kriging misses its own data by {err:.3g} when longitudes exceed 180",
                 "case": dict(lat=lat.tolist(), lon=lon.tolist(), val=val.tolist())}]
    return []


def search(ctx, deep=False):
    with warnings.catch_warnings():   # out-of-range / dimension warnings of generated inputs are expected
        warnings.simplefilter("ignore")
        return _search(ctx, deep)


def _search(ctx, deep=False):
    rng = np.random.RandomState(ctx.seed + 55)
    N = ctx.scale(120, 800) * (3 if deep else 1)
    viol, ev = probe_d16(), 1
    tags, ctags, rejected = {}, {}, {}
    for t in range(N):
        cfg = kc.gen_config(rng, strat=t)
        try:
            with warnings.catch_warnings():
                warnings.simplefilter("ignore")
                kr = kc.build(cfg)
                fld, var = kc.call(kr, cfg, post_process=False, store=False)
                pfld, pvar = kc.call(kr, cfg, post_process=True, store=False)
        except Exception as ex:
            rejected[type(ex).__name__] = rejected.get(type(ex).__name__, 0) + 1
            if isinstance(ex, np.linalg.LinAlgError):
                # "singular matrix" is only acceptable when the system IS singular: the independently assembled matrix of a
                # regular system (e.g. repeated stations WITH measurement errors / nugget) must be invertible by the code too
                with warnings.catch_warnings():
                    warnings.simplefilter("ignore")
                    mdl = kc.make_model(np.random.RandomState(cfg["model_seed"]), cfg["dim"], cfg["latlon"], cfg["temporal"],
                                        nugget=cfg.get("nugget"), unit=kc.unit_of(cfg))
                    ref = kc.solve_direct(cfg, mdl, cfg["pos"])
                ev += 1
                if ref["cond"] <= 1e7:
                    viol.append({"key": "krige:singular-but-regular:" + cfg["variant"], "what": "the kriging object fails with a singular-matrix "
                                 "error although the kriging system of the configuration is regular (condition number "
                                 f"{ref['cond']:.3g}; {kc.coin_tag(cfg, mdl)})", "case": kc.describe(cfg), "cond": ref["cond"]})
            continue
        ref_f, ref_v, cond = direct_solve(kr, cfg, cfg["pos"])
        if cond > 1e7:
            ck = "discarded(cond>1e7):" + kc.coin_tag(cfg, kr.model).split("/err=")[0]
            rejected[ck] = rejected.get(ck, 0) + 1
            continue
        tol = 1e-9 * max(cond, 1) * (1 + np.abs(ref_f).max())
        ev += 1
        cdesc = kc.describe(cfg)
        mtag = kc.mnt_tag(cfg)
        tags[mtag] = tags.get(mtag, 0) + 1
        ctag = kc.coin_tag(cfg, kr.model) + f"/pinv={cfg['pinv']}"
        ctags[ctag] = ctags.get(ctag, 0) + 1
        if not (np.allclose(fld, ref_f, atol=tol) and np.allclose(var, ref_v, atol=tol)):
            viol.append({"key": "krige:direct-solve:" + cfg["variant"] + (":latlon" if cfg["latlon"] else ""),
                         "what": "kriging field/variance differ from solving the kriging system directly "
                                 "(data prepared as normalize(cond_val - trend) - mean; " + mtag + ")", "case": cdesc,
                         "got": [np.asarray(fld).tolist(), np.asarray(var).tolist()], "want": [ref_f.tolist(), ref_v.tolist()], "cond": cond})
            continue
        # post-processing everywhere (not only at the data): trend + denormalize(mean + raw), independent formulas
        ev += 1
        want = kc.ref_post(cfg, ref_f, cfg["pos"])
        if not (close_nan(pfld, kc.ref_post(cfg, fld, cfg["pos"]), 1e-10 * (1 + np.abs(np.nan_to_num(pfld))))
                and close_nan(pfld, want, post_tol(cfg, ref_f, cfg["pos"], tol)) and np.array_equal(pvar, var)):
            viol.append({"key": "krige:post-process:" + cfg["variant"], "what": "post-processed kriging field differs from trend + "
                         "denormalize(mean + raw) of the directly solved system (" + mtag + ")", "case": cdesc,
                         "got": np.asarray(pfld).tolist(), "want": want.tolist(), "cond": cond})
            continue
        # only_mean and get_mean against the directly solved mean system
        if rng.rand() < 0.5:
            with warnings.catch_warnings():
                warnings.simplefilter("ignore")
                mf = kc.call(kr, cfg, only_mean=True, post_process=False, store=False)
                mp = kc.call(kr, cfg, only_mean=True, post_process=True, store=False)
                gm, gm_raw = kr.get_mean(), kr.get_mean(post_process=False)
            mref, _, _ = direct_solve(kr, cfg, cfg["pos"], only_mean=True)
            ev += 1
            if not (np.allclose(mf, mref, atol=tol) and close_nan(mp, kc.ref_post(cfg, mf, cfg["pos"]), 1e-10 * (1 + np.abs(np.nan_to_num(mp))))):
                viol.append({"key": "krige:only-mean:" + cfg["variant"], "what": "only_mean field differs from the directly solved mean (" + mtag + ")",
                             "case": cdesc, "got": np.asarray(mf).tolist(), "want": mref.tolist()})
            const_mean = not kc.drift_callables(cfg) and cfg["ext"] is None and (cfg["mean"] is None or cfg["mean"][0] == "const")
            if const_mean:
                mu = 0.0 if cfg["mean"] is None else cfg["mean"][1]
                want_gm = kc.ref_denormalize(cfg["norm"], np.array([mref[0] + mu]))[0]
                okm = gm is not None and gm_raw is not None and abs(gm_raw - mref[0]) <= tol and \
                    close_nan([gm], [want_gm], post_tol(dict(cfg, trend=None, mean=("const", mu) if mu else None), mref[:1], cfg["pos"][:, :1], tol))
            else:
                okm = gm is None
            if not okm:
                viol.append({"key": "krige:get-mean:" + cfg["variant"], "what": "get_mean differs from denormalize(estimated mean + mean) (" + mtag + ")",
                             "case": cdesc, "got": [None if gm is None else float(gm), None if gm_raw is None else float(gm_raw)],
                             "want": float(mref[0])})
        # metamorphic: chunk size, mesh type, target order, conditioning order, linearity
        m = cfg["pos"].shape[1]
        f2, v2 = kr(cfg["pos"], chunk_size=1, post_process=False, store=False, **({"ext_drift": cfg["ext"][1]} if cfg["ext"] else {}))
        ev += 1
        # (identical up to the last bits: blocked products / BLAS kernels may differ between chunk shapes; 1e-10 of the value scale)
        same = lambda a, b: np.shape(a) == np.shape(b) and np.allclose(a, b, rtol=0, atol=1e-10 * (1 + np.abs(b).max(initial=0.0)), equal_nan=True)      # noqa
        if not (same(f2, fld) and same(v2, var)):
            viol.append({"key": "krige:chunk-size", "what": "result depends on chunk size", "case": cdesc})
        perm = rng.permutation(m)
        kw = {"ext_drift": cfg["ext"][1][:, perm]} if cfg["ext"] else {}
        f3, v3 = kr(cfg["pos"][:, perm], chunk_size=cfg["chunk"], post_process=False, store=False, **kw)
        ev += 1
        if not (same(f3, fld[perm]) and same(v3, var[perm])):
            viol.append({"key": "krige:target-order", "what": "result depends on the order of target points", "case": cdesc})
        n = cfg["cond_pos"].shape[1]
        cperm = rng.permutation(n)
        with warnings.catch_warnings():
            warnings.simplefilter("ignore")
            cfg2 = dict(cfg)
            if isinstance(cfg["cond_err"], np.ndarray):
                cfg2["cond_err"] = cfg["cond_err"][cperm]
            kr2 = kc.build(cfg2, cond_pos=cfg["cond_pos"][:, cperm], cond_val=cfg["cond_val"][cperm],
                           ext_cond=None if not cfg["ext"] else cfg["ext"][0][:, cperm])
            f4, v4 = kc.call(kr2, cfg, post_process=False, store=False)
        ev += 1
        if not (np.allclose(f4, fld, atol=tol) and np.allclose(v4, var, atol=tol)):
            viol.append({"key": "krige:cond-order", "what": "result depends on the order of conditioning points", "case": cdesc})
        # unbiased variants reproduce constants (of the prepared data: value = trend + denormalize(mean + c))
        if kc.is_unbiased(cfg):
            lo, hi = kc.gauss_range(cfg["norm"])
            sc = kc.pos_scale(cfg)
            cst = 0.4 if cfg["norm"] is not None else 3.25
            y = cst + kc.eval_spec(cfg["mean"], cfg["cond_pos"], sc)
            if np.all(y > lo) and np.all(y < hi):
                cvc = kc.eval_spec(cfg["trend"], cfg["cond_pos"], sc) + kc.ref_denormalize(cfg["norm"], y)
                with warnings.catch_warnings():
                    warnings.simplefilter("ignore")
                    kr3 = kc.build(cfg, cond_val=cvc)
                    f5 = kc.call(kr3, cfg, post_process=False, return_var=False, store=False)
                ev += 1
                if not np.allclose(f5, cst, atol=tol * 10 + 1e-9):
                    viol.append({"key": "krige:constants:" + cfg["variant"], "what": "unbiased kriging does not reproduce a constant", "case": cdesc,
                                 "got": np.asarray(f5).tolist()})
        # structured = unstructured
        if cfg["fdim"] == 2 and not cfg["ext"] and not cfg["latlon"]:
            o, u = kc.origin_of(cfg), kc.unit_of(cfg)
            x, y = o[0] + u * np.linspace(0, 5, 4), o[1] + u * np.linspace(-1, 3, 3)
            pp = bool(rng.rand() < 0.5)
            fs = kr((x, y), mesh_type="structured", return_var=False, post_process=pp, store=False)
            g = np.array(np.meshgrid(x, y, indexing="ij")).reshape(2, -1)
            fu = kr(g, return_var=False, post_process=pp, store=False)
            ev += 1
            if not np.array_equal(fs.reshape(-1), fu, equal_nan=True):
                viol.append({"key": "krige:mesh-type", "what": "structured and unstructured evaluation differ", "case": cdesc})
    hv, hev, hsum = search_histories(ctx, rng, deep)
    viol += hv
    ev += hev
    mev, mv = search_mesh_paths(ctx, np.random.RandomState(ctx.seed + 5511), ctx.scale(24, 200))
    viol = mv[:2] + viol
    ev += mev
    hsum += f"; {mev} Krige.mesh calls (meshio point / cell data, any `direction` selection) against the direct call at the selected coordinates"
    # wave 6: (1) the conditions are the VALUES given at set time (caller-owned containers modified in place afterwards), (2) geometry
    # changes through EVERY setter after first use + the documented refresh, (3) models whose variance is not their raw intensity
    aev, av, asum = kc.search_caller_mutation(np.random.RandomState(ctx.seed + 5521), ctx.scale(70, 500) * (2 if deep else 1))
    gev, gv, gsum = kc.search_geometry_setters(np.random.RandomState(ctx.seed + 5531), ctx.scale(70, 500) * (2 if deep else 1))
    vev, vv, vsum = kc.search_var_factor(np.random.RandomState(ctx.seed + 5541), ctx.scale(40, 300) * (2 if deep else 1))
    ev += aev + gev + vev
    pristine = [v for v in av if kc.ALIAS_PRISTINE.match(v["key"])]         # aliasing of cond_err / ext_drift arrays (finding AL1): always listed
    viol = ([v for v in av if not kc.ALIAS_PRISTINE.match(v["key"])][:3] + gv[:2] + vv[:2] + viol)[:8] + pristine[:4]
    hsum += "; " + asum + "; " + gsum + "; " + vsum
    return {"evaluations": ev, "violations": viol, "distribution": {"compared": ctags, "not_compared": rejected},
            "summary": "real Krige variants (+ generic class; identity and 6 non-identity normalizers x constant/callable mean x trend: "
                       f"{len(tags)} combinations) vs an independent numpy solve of the kriging system on independently prepared data, raw and "
                       "post-processed at every target; only_mean/get_mean; chunk size, target order, conditioning order, constants, mesh type; "
                       f"layouts with repeated / nearly repeated stations (lag 0, inside, outside the isclose band) x nugget x error kind x exact x "
                       f"pseudo_inv: {sum(v for k, v in ctags.items() if not k.startswith('coin:distinct'))} of {sum(ctags.values())} compared "
                       f"systems in {len([k for k in ctags if not k.startswith('coin:distinct')])} classes (regular systems only; a singular-matrix "
                       "error on a regular system is a violation); " + hsum}


def search_mesh_paths(ctx, rng, n):
    """the kriging estimate and variance delivered through Krige.mesh (meshio point data / cell data, any `direction` selection: axis
    letters in any order, index lists, 'all') are the estimate and variance of the plain unstructured call at the selected coordinates
    of the mesh points / the cell centroids (helpers shared with C11's output-path search)"""
    import gstools as gs
    import importlib.util, os
    spec = importlib.util.spec_from_file_location("gsv_props_C11_helpers", os.path.join(os.path.dirname(os.path.abspath(__file__)), "C11.py"))
    c11 = importlib.util.module_from_spec(spec)
    spec.loader.exec_module(c11)
    viol, ev = [], 0
    for t in range(n):
        dim = int(rng.randint(1, 4))
        mesh_dim = int(rng.randint(dim, 4))
        select, direction = c11.random_select(rng, dim, mesh_dim)
        kw = dict(dim=dim, var=1.4, len_scale=2.0)
        if dim > 1:
            kw.update(anis=[float(a) for a in rng.choice([0.5, 2.0, 1.0], size=dim - 1)],
                      angles=[float(a) for a in rng.uniform(-1, 1, {2: 1, 3: 3}[dim])])
        model = gs.Exponential(**kw)
        n_c = int(rng.randint(3, 8))
        cpos = rng.uniform(-5, 5, size=(dim, n_c))
        cval = rng.randn(n_c)
        variant = ["Simple", "Ordinary", "Universal"][t % 3]
        try:
            if variant == "Simple":
                kr = gs.krige.Simple(model, cpos, cval, mean=0.3)
            elif variant == "Ordinary":
                kr = gs.krige.Ordinary(model, cpos, cval)
            else:
                kr = gs.krige.Universal(model, cpos, cval, "linear")
            path = "points" if rng.rand() < 0.5 else "centroids"
            P = int(rng.randint(2, 9))
            if path == "points":
                tp = rng.uniform(-5, 5, size=(dim, P))
                mesh = c11.point_mesh(rng, tp, mesh_dim, select)
                kr.mesh(mesh, points="points", direction=direction, name=["f", "v"])
                gf, gv = np.asarray(mesh.point_data["f"], dtype=float), np.asarray(mesh.point_data["v"], dtype=float)
            else:
                mesh, cents = c11.centroid_mesh(rng, P, mesh_dim, rng.uniform(-4, 4, size=mesh_dim), 2.0)
                tp = np.vstack(cents).T[select]
                kr.mesh(mesh, points="centroids", direction=direction, name=["f", "v"])
                gf = np.concatenate([np.asarray(a, dtype=float).reshape(-1) for a in mesh.cell_data["f"]])
                gv = np.concatenate([np.asarray(a, dtype=float).reshape(-1) for a in mesh.cell_data["v"]])
            rf, rv = kr(tp, store=False)
            ev += 1
            tol = 1e-9 * (1.0 + float(np.max(np.abs(rf))))
            if not (gf.shape == rf.shape and np.allclose(gf, rf, rtol=0, atol=tol) and np.allclose(gv, rv, rtol=0, atol=1e-9)):
                viol.append({"key": f"krige:mesh-path:{path}",
                             "what": f"{variant}.mesh(points={path!r}, direction={direction!r}) does not deliver the estimate / variance of the direct call "
                                     "at the selected coordinates",
                             "case": dict(variant=variant, dim=dim, mesh_dim=mesh_dim, select=select, direction=direction, cond_pos=cpos.tolist(),
                                          cond_val=cval.tolist(), targets=np.asarray(tp).tolist(), model=repr(model)),
                             "got": [gf.tolist(), gv.tolist()], "want": [np.asarray(rf).tolist(), np.asarray(rv).tolist()]})
        except Exception as ex:
            viol.append({"key": "krige:mesh-path:exception", "what": f"{type(ex).__name__}: {ex}",
                         "case": dict(variant=variant, dim=dim, mesh_dim=mesh_dim, direction=direction)})
    return ev, viol


def last_setup(log):
    """["set_condition:<form>[+fit:…]"] of the last (re-)conditioning, ["constructed[+fit:…]"] if there was none"""
    idx = [i for i, l in enumerate(log) if l.startswith("set_condition")]
    if idx:
        i = idx[-1]
        fit = log[i + 1] if i + 1 < len(log) and log[i + 1].startswith("fit:set_condition") else None
        return [log[i] + ("" if fit is None else "+fit:" + fit.split(":", 2)[2])]
    fit = log[0] if log and log[0].startswith("fit:constructed") else None
    return ["constructed" + ("" if fit is None else "+fit:" + fit.split(":", 2)[2])]


def search_histories(ctx, rng, deep=False, zero=False):
    """random histories on one Krige object: after a set_condition (any argument form) every call — at new, nearly
    equal (relative changes 1e-12..1e-2 at magnitudes 1e-3..6e7), repeated or no positions, under either mesh type,
    through __call__ / structured() / unstructured() / set_pos — equals a freshly constructed object that is given the
    requested targets (bit-for-bit) and the independent solve at exactly those targets; the public pos / mesh_type are
    the positions last given; position-less calls with nothing to reuse raise ValueError"""
    H = ctx.scale(80, 600) * (3 if deep else 1)
    viol, ev, forms, kinds, nan_cases, fits = [], 0, {}, {}, 0, {}
    for t in range(H):
        logpos = 0
        cfg = kc.gen_config(rng, strat=t)
        zmode = str(rng.choice(["exact", "zero-err", "no-nugget"])) if zero else None
        if zmode:
            cfg = zero_cfg(cfg, zmode)
        try:
            for e in kc.run_history(rng, cfg, segments=int(rng.randint(2, 5)), zero_mode=zmode):
                h, kw, r1 = e["hist"], e["kw"], e["res"]
                cur = h.cur
                last = last_setup(h.log)
                case = {"history": list(h.log), "call": call_desc(e), "current": kc.describe(cur), "model": repr(h.kr.model)}
                kinds[e["kind"]] = kinds.get(e["kind"], 0) + 1
                for l in h.log[logpos:]:
                    if l.startswith("fit:"):
                        fits[l[4:]] = fits.get(l[4:], 0) + 1
                logpos = len(h.log)
                # positions: what is stored is what was given; nothing to reuse -> ValueError (also in stale states)
                ev += 1
                if not e["stored_ok"]:
                    viol.append({"key": "krige:history:stored-pos", "what": "after a " + e["kind"] + " call the public pos / mesh_type of the "
                                 "object are not the positions last given to it", "case": case})
                if e["req"] is None:
                    if r1 != ("error", "ValueError"):
                        viol.append({"key": "krige:history:no-positions", "what": "a call without positions and nothing to reuse does not "
                                     "raise ValueError", "case": case, "got": list(r1[:2]) if r1[0] == "error" else "ok"})
                        break
                    continue
                if not e["synced"]:
                    continue
                fr, mod = h.fresh()
                if fr is None:
                    continue
                forms[last[0]] = forms.get(last[0], 0) + 1
                tp = e["flat"]
                r2 = h.call_fresh(e, fr)
                ev += 1
                if not same_result(r1, r2):
                    viol.append({"key": "krige:history:fresh-object:" + cfg["variant"],
                                 "what": "after " + last[0] + " a " + e["kind"] + " call differs from a freshly constructed object (current model "
                                         "and conditions) that is given the requested targets",
                                 "case": case, "got": [None if x is None else np.asarray(x).tolist() for x in r1[1:]] if r1[0] == "ok" else list(r1),
                                 "want": [None if x is None else np.asarray(x).tolist() for x in r2[1:]] if r2[0] == "ok" else list(r2)})
                    break
                if r1[0] != "ok":
                    continue
                ref = kc.solve_direct(cur, mod, tp, ext_t=kw.get("ext_drift"), only_mean=kw["only_mean"])
                if ref["cond"] > 1e7:
                    continue
                if not np.all(np.isfinite(ref["z"])):
                    # data outside the range of a (badly) fitted normaliser: no kriging system to compare with; the object
                    # was still compared with the fresh one above
                    nan_cases += 1
                    continue
                tol = 1e-9 * max(ref["cond"], 1) * (1 + np.abs(ref["raw"]).max())
                ev += 1
                got_f = np.asarray(r1[1]).reshape(-1)
                got_v = None if r1[2] is None else np.asarray(r1[2]).reshape(-1)
                if kw["post_process"]:
                    ok = close_nan(got_f, kc.ref_post(cur, ref["raw"], tp), post_tol(cur, ref["raw"], tp, tol))
                else:
                    ok = close_nan(got_f, ref["raw"], tol)
                if got_v is not None:
                    ok = ok and np.allclose(got_v, ref["var"], atol=tol)
                if not ok:
                    viol.append({"key": "krige:history:direct-solve:" + cfg["variant"],
                                 "what": "after " + last[0] + " a " + e["kind"] + " call differs from solving the kriging system of the current "
                                         "model and conditions at the requested targets",
                                 "case": case, "got": [None if x is None else np.asarray(x).tolist() for x in r1[1:]],
                                 "want": [ref["raw"].tolist(), ref["var"].tolist()], "cond": ref["cond"]})
                    break
                # C06: exact interpolation of the CURRENT data by the object with a history
                if zero and e.get("sel") is not None and got_v is not None:
                    # (only where no OTHER conditioning point lies inside the isclose band of lag 0: repeated stations carry
                    #  contradictory data and were compared with the direct solve above)
                    lone = kc.coincidence(cur, mod)["isolated"][e["sel"]]
                    want = cur["cond_val"][e["sel"]][lone]
                    dtol = data_tol(cur, ref["cond"], e["sel"])[lone]
                    got_f, got_v = got_f[lone], got_v[lone]
                    vexp = mod.nugget if zmode == "zero-err" else 0.0
                    ev += 1
                    if not (close_nan(got_f, want, dtol) and np.all(np.abs(got_v - vexp) <= 1e-7 * mod.sill * max(1.0, ref["cond"] / 1e3))):
                        viol.append({"key": f"krige:history:exactness:{cfg['variant']}:{zmode}",
                                     "what": "after " + last[0] + " the kriged field at the conditioning points (" + e["kind"] + " call) differs from "
                                             "the current data (or the variance there is not the expected one)",
                                     "case": case, "got": [got_f.tolist(), got_v.tolist()], "want": np.asarray(want).tolist(),
                                     "cond": ref["cond"]})
                        break
                # get_mean of the object with a history
                if rng.rand() < 0.3:
                    with warnings.catch_warnings():
                        warnings.simplefilter("ignore")
                        g1, g2 = h.kr.get_mean(), fr.get_mean()
                    ev += 1
                    if not ((g1 is None and g2 is None) or (g1 is not None and g2 is not None and (g1 == g2 or (np.isnan(g1) and np.isnan(g2))))):
                        viol.append({"key": "krige:history:get-mean:" + cfg["variant"], "what": "get_mean after " + last[0] + " differs from a fresh object",
                                     "case": case, "got": None if g1 is None else float(g1), "want": None if g2 is None else float(g2)})
                        break
        except Exception as ex:
            ctx.notes.append(f"history rejected: {type(ex).__name__}: {ex}")
            continue
    return viol[:6], ev, (f"{H} operation histories (model edits, mean/normalizer/trend re-assignment, set_condition forms {sorted(forms)}; "
                          f"target kinds {sorted(kinds)}: new / nearly equal / repeated / no positions, both mesh types, set_pos; fit_variogram / fit_normalizer "
                          f"in the constructor and in set_condition: {fits}) vs fresh objects given the requested targets and the direct solve there"
                          f" ({nan_cases} calls not compared with the solve: data outside the range of the fitted normaliser)")
