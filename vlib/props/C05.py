"""C05 — kriging estimates and variances solve the kriging equations."""
import warnings
import numpy as np
from scipy.spatial.distance import cdist
import krige_cases as kc
from proto import fbits, unbits, run_driver

KERNEL_FILES = ["krige/krigesum.pyx"]
ASSUMPTIONS = ["scipy's inv/pinv/pinvh return a two-sided inverse of the assembled matrix (hypothesis of the theorems); rounding is not modelled",
               "covariance values are taken from the real model and handed to the Lean side bit-for-bit; the assembly, right-hand sides, chunk loop, kernel and clipping are compared for equality"]


def layout(kr):
    return dict(n=int(kr.cond_no), unb=bool(kr.unbiased), nf=int(kr.int_drift_no), ne=int(kr.ext_drift_no))


def model_inputs(kr):
    n = kr.cond_no
    C = kr.model.covariance(cdist(kr._krige_pos.T, kr._krige_pos.T))
    err = np.broadcast_to(np.asarray(kr.cond_err, dtype=float), (n,)).copy()
    F = np.array([np.broadcast_to(f(*kr.cond_pos), (n,)) for f in kr.drift_functions], dtype=float).reshape(kr.int_drift_no, n)
    E = np.asarray(kr.cond_ext_drift, dtype=float).reshape(kr.ext_drift_no, n)
    return C, err, F, E


def correspondence(ctx, on_data=False):
    rng = np.random.RandomState(ctx.seed + (606 if on_data else 505))
    N = ctx.scale(60, 600)
    ops, meta = [], []
    dist = {}
    samples = []
    for t in range(N):
        cfg = kc.gen_config(rng)
        if on_data:   # C06: targets on (a shuffled subset of) the conditioning points, plus one free point
            if cfg["variant"] == "ExtDrift":
                k = cfg["cond_pos"].shape[1]
                sel = rng.permutation(k)[: max(1, k // 2)]
                cfg["pos"] = cfg["cond_pos"][:, sel].copy()
                cfg["ext"] = (cfg["ext"][0], cfg["ext"][0][:, sel].copy())
            else:
                k = cfg["cond_pos"].shape[1]
                sel = rng.permutation(k)[: max(1, k // 2)]
                cfg["pos"] = np.hstack([cfg["cond_pos"][:, sel], cfg["pos"][:, :1]])
            cfg["chunk"] = None if rng.rand() < 0.5 else int(rng.randint(1, 4))
        cap, store = [], []
        try:
            with warnings.catch_warnings():
                warnings.simplefilter("ignore")
                kr = kc.build(cfg, capture=cap)
                with kc.capture_kernel(store):
                    only_mean = bool(rng.rand() < 0.1)
                    ret_var = bool(rng.rand() < 0.8)
                    out = kc.call(kr, cfg, post_process=False, only_mean=only_mean, return_var=ret_var, store=False)
        except Exception as e:   # configuration the API rejects: not a correspondence case
            dist["rejected:" + type(e).__name__] = dist.get("rejected:" + type(e).__name__, 0) + 1
            continue
        L = layout(kr)
        key = f"{cfg['variant']}/unb={L['unb']}/nf={L['nf']}/ne={L['ne']}/exact={cfg['exact']}/chunk={'all' if cfg['chunk'] is None else 'k'}"
        dist[key] = dist.get(key, 0) + 1
        C, err, F, E = model_inputs(kr)
        size = kr.krige_size
        # 1. matrix assembly
        ops.append(dict(op="krige_assemble", **L, C=fbits(C), err=fbits(err), F=fbits(F), E=fbits(E)))
        meta.append(("K", cap[-1], cfg, key))
        if only_mean and kr.drift_no == 0:
            continue   # constant-mean shortcut: no kernel call
        # 2. right-hand sides
        iso_pos, shape = kr.pre_pos(cfg["pos"], "unstructured")
        m = iso_pos.shape[1]
        cf = kr.model.cov_nugget if kr.exact else kr.model.covariance
        c = cf(cdist(kr._krige_pos.T, iso_pos.T))
        if kr.int_drift_no > 0:
            cpos = kr.model.anisometrize(iso_pos)
            f = np.array([np.broadcast_to(fn(*cpos), (m,)) for fn in kr.drift_functions], dtype=float)
        else:
            f = np.zeros((0, m))
        e = np.asarray(cfg["ext"][1], dtype=float).reshape(kr.ext_drift_no, m) if kr.ext_drift_no else np.zeros((0, m))
        ops.append(dict(op="krige_rhs", **L, m=m, only_mean=only_mean, c=fbits(c), f=fbits(f), e=fbits(e)))
        rhs_real = np.hstack([s[2] for s in store]) if store else np.zeros((size, 0))
        meta.append(("RHS", rhs_real, cfg, key))
        # 3. chunk loop + kernel + clipping, with the real inverse matrix
        valn = kr.normalizer.normalize(kr.cond_val - kr.cond_trend)
        mean = np.broadcast_to(np.asarray(kr.cond_mean, dtype=float), (kr.cond_no,)).copy()
        cs = m if cfg["chunk"] is None else cfg["chunk"]
        ops.append(dict(op="krige_call", **L, pnt=m, cs=int(cs), M=fbits(kr._krige_mat), rhs=fbits(rhs_real),
                        valn=fbits(valn), mean=fbits(mean), sill=fbits([kr.model.sill])[0]))
        meta.append(("CALL", (out, ret_var and not only_mean, store[0][3] if store else None), cfg, key))
        if len(samples) < 4:
            samples.append({"variant": cfg["variant"], "layout": L, "targets": m, "chunk": cfg["chunk"], "exact": cfg["exact"],
                            "model": repr(kr.model)})
    res = run_driver(ops)
    dis, distinct = [], set()
    for o, (kind, real, cfg, key), r in zip(ops, meta, res):
        if isinstance(r, dict) and "error" in r:
            dis.append({"what": "driver error " + r["error"], "kind": kind})
            continue
        if kind == "K":
            lean = np.array([unbits(x) for x in r]).reshape(real.shape)
            ok = np.array_equal(lean, real)
        elif kind == "RHS":
            lean = np.array([unbits(x) for x in r]).reshape(real.shape) if real.size else real
            ok = np.array_equal(lean, real)
        else:
            out, has_var, cond_real = real
            f, v, f2, cond = (unbits(x) for x in r)
            if has_var:
                ok = np.array_equal(f, np.ravel(out[0])) and np.array_equal(v, np.ravel(out[1]))
            else:
                ok = np.array_equal(f2, np.ravel(out))
            ok = ok and (cond_real is None or np.array_equal(cond, cond_real))
            lean = [f.tolist(), v.tolist()]
        distinct.add((kind, key))
        if not ok:
            dis.append({"what": f"kriging {kind}: model differs from implementation", "variant": cfg["variant"], "key": key,
                        "real": np.asarray(real[0] if kind == "CALL" else real, dtype=float).tolist() if kind != "CALL" else [np.asarray(x).tolist() for x in np.atleast_1d(real[0])],
                        "model": np.asarray(lean, dtype=float).tolist() if kind != "CALL" else lean,
                        "cfg": {k: (v.tolist() if isinstance(v, np.ndarray) else v) for k, v in cfg.items() if k != "ext"}})
    return {"evaluations": len(ops), "distinct_nontrivial": len(distinct),
            "rule": "random kriging problems (5 variants, dim 1-3, lat-lon, time, drifts, measurement errors, exact flag, chunk sizes); "
                    "the assembled matrix (captured through a callable pseudo_inv_type), the right-hand sides and conditions "
                    "(captured at the kernel entry) and the returned field/variance are compared bit-for-bit with the Lean model; "
                    "distinct = distinct (stage, variant/layout/options)",
            "samples": samples, "disagreements": dis[:8], "distribution": dist}


# ------------------------------------------------------------------ search on the real API
def direct_solve(kr, cfg, pos):
    """independent kriging: solve the system with numpy for each target"""
    n = kr.cond_no
    model = kr.model
    cp_iso = model.isometrize(kr.cond_pos)
    tp_iso = model.isometrize(np.asarray(pos, dtype=float).reshape(kr.dim, -1))
    C = model.covariance(cdist(cp_iso.T, cp_iso.T)) + np.diag(np.broadcast_to(np.asarray(kr.cond_err, dtype=float), (n,)))
    rows = []
    trows = []
    m = tp_iso.shape[1]
    if kr.unbiased:
        rows.append(np.ones(n)); trows.append(np.ones(m))
    tpos = np.asarray(pos, dtype=float).reshape(kr.dim, -1)
    for f in kr.drift_functions:
        rows.append(np.broadcast_to(f(*kr.cond_pos), (n,))); trows.append(np.broadcast_to(f(*tpos), (m,)))
    if kr.ext_drift_no:
        for a, b in zip(cfg["ext"][0], cfg["ext"][1]):
            rows.append(a); trows.append(b)
    B = np.array(rows).reshape(len(rows), n)
    K = np.block([[C, B.T], [B, np.zeros((len(rows), len(rows)))]])
    cf = model.cov_nugget if kr.exact else model.covariance
    k = np.vstack([cf(cdist(cp_iso.T, tp_iso.T)), np.array(trows).reshape(len(rows), m)])
    z = np.concatenate([kr.normalizer.normalize(kr.cond_val - kr.cond_trend) - kr.cond_mean, np.zeros(len(rows))])
    cond = np.linalg.cond(K)
    W = np.linalg.solve(K, k)
    return z @ W, np.maximum(model.sill - np.einsum("ij,ij->j", k, W), 0), cond


def probe_d16():
    """corpus: lat-lon universal kriging with longitudes beyond 180 degrees (finding D16)"""
    import gstools as gs
    rng = np.random.RandomState(16)
    lat = rng.uniform(-30, 30, 10)
    lon = rng.uniform(151, 196, 10)
    val = 0.1 * lon + rng.randn(10) * 0.1
    model = gs.Gaussian(latlon=True, len_scale=500, geo_scale=gs.KM_SCALE)
    with warnings.catch_warnings():
        warnings.simplefilter("ignore")
        uk = gs.krige.Universal(model, (lat, lon), val, "linear")
        f, v = uk((lat, lon))
    err = float(np.max(np.abs(f - val)))
    if err > 1e-6:
        return [{"key": "krige:latlon-drift-wrapped-longitude",
                 "what": f"Universal lat-lon kriging misses its own data by {err:.3g} when longitudes exceed 180",
                 "case": dict(lat=lat.tolist(), lon=lon.tolist(), val=val.tolist())}]
    return []


def search(ctx, deep=False):
    rng = np.random.RandomState(ctx.seed + 55)
    N = ctx.scale(40, 400) * (3 if deep else 1)
    viol, ev = probe_d16(), 1
    for t in range(N):
        cfg = kc.gen_config(rng)
        try:
            with warnings.catch_warnings():
                warnings.simplefilter("ignore")
                kr = kc.build(cfg)
                fld, var = kc.call(kr, cfg, post_process=False, store=False)
        except Exception:
            continue
        ref_f, ref_v, cond = direct_solve(kr, cfg, cfg["pos"])
        if cond > 1e7:
            continue
        tol = 1e-9 * max(cond, 1) * (1 + np.abs(ref_f).max())
        ev += 1
        cdesc = {k: (v.tolist() if isinstance(v, np.ndarray) else v) for k, v in cfg.items() if k != "ext"}
        wrapped = cfg["latlon"] and kr.int_drift_no > 0
        if not (np.allclose(fld, ref_f, atol=tol) and np.allclose(var, ref_v, atol=tol)):
            viol.append({"key": "krige:direct-solve:" + cfg["variant"] + (":latlon" if cfg["latlon"] else ""),
                         "what": "kriging field/variance differ from solving the kriging system directly", "case": cdesc,
                         "got": [np.asarray(fld).tolist(), np.asarray(var).tolist()], "want": [ref_f.tolist(), ref_v.tolist()], "cond": cond})
            continue
        # metamorphic: chunk size, mesh type, target order, conditioning order, linearity
        m = cfg["pos"].shape[1]
        f2, v2 = kr(cfg["pos"], chunk_size=1, post_process=False, store=False, **({"ext_drift": cfg["ext"][1]} if cfg["ext"] else {}))
        ev += 1
        if not (np.array_equal(f2, fld) and np.array_equal(v2, var)):
            viol.append({"key": "krige:chunk-size", "what": "result depends on chunk size", "case": cdesc})
        perm = rng.permutation(m)
        kw = {"ext_drift": cfg["ext"][1][:, perm]} if cfg["ext"] else {}
        f3, v3 = kr(cfg["pos"][:, perm], chunk_size=cfg["chunk"], post_process=False, store=False, **kw)
        ev += 1
        if not (np.array_equal(f3, fld[perm]) and np.array_equal(v3, var[perm])):
            viol.append({"key": "krige:target-order", "what": "result depends on the order of target points", "case": cdesc})
        n = kr.cond_no
        cperm = rng.permutation(n)
        with warnings.catch_warnings():
            warnings.simplefilter("ignore")
            cfg2 = dict(cfg)
            if isinstance(cfg["cond_err"], np.ndarray):
                cfg2["cond_err"] = cfg["cond_err"][cperm]
            kr2 = kc.build(cfg2, cond_pos=cfg["cond_pos"][:, cperm], cond_val=cfg["cond_val"][cperm],
                           ext_cond=None if not cfg["ext"] else cfg["ext"][0][:, cperm])
            f4, v4 = kc.call(kr2, cfg, post_process=False, store=False)
        ev += 1
        if not (np.allclose(f4, fld, atol=tol) and np.allclose(v4, var, atol=tol)):
            viol.append({"key": "krige:cond-order", "what": "result depends on the order of conditioning points", "case": cdesc})
        # unbiased variants reproduce constants
        if kr.unbiased and cfg["variant"] in ("Ordinary", "Universal", "ExtDrift"):
            with warnings.catch_warnings():
                warnings.simplefilter("ignore")
                kr3 = kc.build(cfg, cond_val=np.full(n, 3.25))
                f5 = kc.call(kr3, cfg, post_process=False, return_var=False, store=False)
            ev += 1
            if not np.allclose(f5, 3.25, atol=tol * 10):
                viol.append({"key": "krige:constants:" + cfg["variant"], "what": "unbiased kriging does not reproduce a constant", "case": cdesc,
                             "got": np.asarray(f5).tolist()})
        # structured = unstructured
        if cfg["fdim"] == 2 and not cfg["ext"] and not cfg["latlon"]:
            x, y = np.linspace(0, 5, 4), np.linspace(-1, 3, 3)
            fs = kr((x, y), mesh_type="structured", return_var=False, post_process=False, store=False)
            g = np.array(np.meshgrid(x, y, indexing="ij")).reshape(2, -1)
            fu = kr(g, return_var=False, post_process=False, store=False)
            ev += 1
            if not np.array_equal(fs.reshape(-1), fu):
                viol.append({"key": "krige:mesh-type", "what": "structured and unstructured evaluation differ", "case": cdesc})
    return {"evaluations": ev, "violations": viol[:8],
            "summary": "real Krige variants vs an independent numpy solve of the kriging system; chunk size, target order, conditioning order, constants, mesh type"}
