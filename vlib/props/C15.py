"""C15 — compiled kernels equal their source semantics under every thread count."""
import numpy as np
import kernels

KERNEL_FILES = ["field/summator.pyx", "krige/krigesum.pyx", "variogram/estimator.pyx"]
# a .so that differs from the Lean translation of its own source IS a failing input of this property
DISAGREEMENT_IS_VIOLATION = True
ASSUMPTIONS = ["Cython's lowering of prange (privatisation, inferred reductions) and OpenMP's DRF=>SC guarantee are trusted; "
               "the theorems quantify over every admissible (permutation) schedule of each prange loop"]


def correspondence(ctx):
    return kernels.kernel_correspondence(ctx, kernels.KINDS, ctx.scale(12, 150), big=not ctx.quick)


def reference(kind, th, op):
    """direct numpy evaluation of the defining sums"""
    return None


def search(ctx, deep=False):
    """implementation side: compiled kernels against direct numpy evaluation of their defining sums,
    and bit-identity across num_threads arguments"""
    from gstools.field import summator as S
    from gstools.krige import krigesum as K
    rng = np.random.RandomState(ctx.seed + 99)
    n = ctx.scale(40, 400) * (3 if deep else 1)
    viol, ev = [], 0
    for t in range(n):
        dim, N, X = int(rng.randint(1, 5)), int(rng.randint(0, 40)), int(rng.randint(0, 40))
        cov, z1, z2, pos = rng.randn(dim, N), rng.randn(N), rng.randn(N), rng.randn(dim, X) * 5
        ph = cov.T @ pos   # N x X
        ref = (z1[:, None] * np.cos(ph) + z2[:, None] * np.sin(ph)).sum(axis=0) if N else np.zeros(X)
        outs = [S.summate(cov, z1, z2, pos, nt) for nt in (None, 1, 2, 3, 4, 8, 16)]
        ev += len(outs)
        if not np.allclose(outs[0], ref, rtol=1e-9, atol=1e-9 * max(1, N)):
            viol.append({"key": "summate-vs-definition", "what": "summate differs from its defining sum",
                         "case": dict(cov=cov.tolist(), z1=z1.tolist(), z2=z2.tolist(), pos=pos.tolist())})
        if any(not np.array_equal(o, outs[0]) for o in outs[1:]):
            viol.append({"key": "summate-threads", "what": "summate not bit-identical across num_threads",
                         "case": dict(cov=cov.tolist(), z1=z1.tolist(), z2=z2.tolist(), pos=pos.tolist())})
        M, R = int(rng.randint(0, 30)), int(rng.randint(0, 30))
        mat, vecs, cond = rng.randn(M, M), rng.randn(M, R), rng.randn(M)
        f, e = K.calc_field_krige_and_variance(mat, vecs, cond)
        ev += 1
        rf = cond @ mat @ vecs if M else np.zeros(R)
        re = np.einsum("ik,ij,jk->k", vecs, mat, vecs) if M else np.zeros(R)
        if not (np.allclose(f, rf, atol=1e-8 * (1 + M)) and np.allclose(e, re, atol=1e-8 * (1 + M))):
            viol.append({"key": "krige-vs-definition", "what": "kriging kernel differs from cond·M·v / vᵀMv",
                         "case": dict(mat=mat.tolist(), vecs=vecs.tolist(), cond=cond.tolist())})
    import threadcfg
    ev_t, v_t = threadcfg.api_thread_sweep(ctx, ("randmeth", "fourier", "incompr", "vario", "vario-dir", "vario-axis"), ctx.scale(6, 60))
    ev += ev_t
    viol = v_t + viol
    sweep = ""
    if not ctx.quick or deep:
        # the property's 'serial and OpenMP builds of the current sources': rebuild the tree's generated C with gcc (serial and
        # -fopenmp) in a scratch directory, compare bit for bit with the tree's .so for every thread count
        ev_s, v_s, info = kernels.thread_sweep(ctx, 6 if ctx.quick else 25)
        ev += ev_s
        viol = v_s + viol
        sweep = f"; rebuild of the generated C ({info.get('rebuild')}): {ev_s} runs of all nine entry points, tree .so == serial rebuild == OpenMP rebuild for num_threads in (None,1,2,3,4,8,16), sizes up to 3000 points"
    return {"evaluations": ev, "violations": viol[:5],
            "summary": "summate / krige kernels vs numpy evaluation of the defining sums; num_threads in {None,1,2,3,4,8,16} bit-identical; "
                       f"{ev_t} public-API results (SRF with the three generators, vario_estimate isotropic / directional / along an axis) under "
                       f"gstools.config.NUM_THREADS = 1, 2, 3, 5 against NUM_THREADS = None" + sweep}
